/-
  C10R — the literal rule at ONE position, end to end   (DESIGN §8.10 item 3, `position_rule`)

  Setting: the samples `{f: s₁}, …, {f: sₙ}` (n ≥ 1), every value a string.  `generate` (convert, merge the field
  sets, optimise) is computed in closed form, for every list of strings — any order, with repetitions —, and the
  annotation `metadata_to_typing` writes for the resulting field type is read back.

    `P` = the strings no registered parser accepts (plain strings),
    `Q` = the others; each is detected as the pseudo-type `ser k` of its first accepting kind; `K` = those kinds.
-/
import J2M.Proofs.LitRuleOpt
import J2M.Props.C09
import J2M.Props.C10b
namespace J2M.C10R

open J2M J2M.Strings J2M.LitRule J2M.Rend

/-! ## 0. the setting -/

/-- the samples `{f: s₁}, …, {f: sₙ}` -/
abbrev samples (f : String) (l : List String) : List Json := LitRule.samples f l

example (f : String) (l : List String) : samples f l = l.map (fun s => Json.obj [(f, .str s)]) := rfl

/-- the `accepts` oracle answers for every registered kind on `s` (the hypothesis of C09) -/
abbrev TotalOn (reg : StrRegistry) (acc : Accepts) (s : String) : Prop := LitRule.TotalOn reg acc s

example (reg : StrRegistry) (acc : Accepts) (s : String) : TotalOn reg acc s ↔ C09.TotalOn reg acc s := Iff.rfl

/-- no registered kind is called `str` (the model's hash string of `ser "str"` would be that of `str`; the real
    classes are `IntString`, `FloatString`, `BooleanString`, `IsoDateString`, …) -/
def NoStrKind (cfg : GenCfg) : Prop := "str" ∉ cfg.reg.types

instance (cfg : GenCfg) : Decidable (NoStrKind cfg) := by unfold NoStrKind; infer_instance

/-- why the hypothesis: in the MODEL a kind called `str` hashes like `str`, so the fallback `str` is not added
    next to it (with such a registry `generate` on `{f: <20 chars>}, {f: "1"}` evaluates to `ser "str"`, not
    `str`); any other name behaves as the theorems say -/
example : mkUnionMembers ⟨15, 20⟩ [.ser "str", .lit true []] = [.ser "str"] := by
  simp [mkUnionMembers, flattenUnion, handleType, hashStr, Ty.isStr]
example : mkUnionMembers ⟨15, 20⟩ [.ser "xstr", .lit true []] = [.ser "xstr", .str] := by
  simp [mkUnionMembers, flattenUnion, handleType, hashStr, Ty.isStr]

/-- `P`: the observed strings no registered parser accepts — in sample order, with repetitions -/
abbrev P (cfg : GenCfg) (o : GenOracles) (l : List String) : List String := plainStrs cfg.reg o.accepts l

/-- `Q`: the other observed strings -/
abbrev Q (cfg : GenCfg) (o : GenOracles) (l : List String) : List String := pseudoStrs cfg.reg o.accepts l

/-- `K`: the kinds the members of `Q` are detected as -/
abbrev K (cfg : GenCfg) (o : GenOracles) (l : List String) : List String := kindsOf cfg.reg o.accepts l

theorem mem_P (cfg : GenCfg) (o : GenOracles) (l : List String) (s : String) :
    s ∈ P cfg o l ↔ s ∈ l ∧ ∀ k ∈ cfg.reg.types, o.accepts k s = some false := by
  rw [P, mem_plainStrs, isPlain_iff]

theorem mem_Q (cfg : GenCfg) (o : GenOracles) (l : List String) (s : String) :
    s ∈ Q cfg o l ↔ s ∈ l ∧ ¬ ∀ k ∈ cfg.reg.types, o.accepts k s = some false := by
  rw [← isPlain_iff]; simp [Q, pseudoStrs]

/-- the kind of a member of `Q`: the first registered kind whose parser accepts it (as in C09) -/
theorem firstKind_spec (reg : StrRegistry) (acc : Accepts) (s : String) (h : TotalOn reg acc s) (k : String) :
    firstKind reg acc s = some k ↔
      ∃ pre post, reg.types = pre ++ k :: post ∧ acc k s = some true ∧ ∀ k' ∈ pre, acc k' s = some false := by
  rw [← C09.detect_first_match reg acc s h k, detectStr_total h]
  simp

/-- what `_detect_type` makes of each sample value -/
theorem detect_value (cfg : GenCfg) (o : GenOracles) (cd : Bool) (s : String) (h : TotalOn cfg.reg o.accepts s) :
    (∀ k, firstKind cfg.reg o.accepts s = some k → detect cfg o cd (.str s) = .ok (.ser k)) ∧
    (firstKind cfg.reg o.accepts s = none → detect cfg o cd (.str s) = .ok (mkLit cfg.lit [s])) := by
  rw [detect_str cfg o cd s h]
  unfold detTy
  constructor
  · intro k hk; rw [hk]
  · intro hk; rw [hk]

theorem K_eq (cfg : GenCfg) (o : GenOracles) (l : List String) :
    K cfg o l = (Q cfg o l).filterMap (firstKind cfg.reg o.accepts) := rfl

/-- every member of `Q` contributes exactly one kind -/
theorem K_length (cfg : GenCfg) (o : GenOracles) (l : List String)
    (htot : ∀ s ∈ l, TotalOn cfg.reg o.accepts s) : (K cfg o l).length = (Q cfg o l).length := by
  have key : ∀ q : List String, (∀ s ∈ q, ∃ k, firstKind cfg.reg o.accepts s = some k) →
      (q.filterMap (firstKind cfg.reg o.accepts)).length = q.length := by
    intro q
    induction q with
    | nil => intro _; rfl
    | cons s q ih =>
      intro h
      obtain ⟨k, hk⟩ := h s (by simp)
      rw [List.filterMap_cons_some hk, List.length_cons, List.length_cons,
        ih (fun x hx => h x (by simp [hx]))]
  apply key
  intro s hs
  have hs' : s ∈ l ∧ isPlain cfg.reg o.accepts s = false := by simpa [Q, pseudoStrs] using hs
  cases hk : firstKind cfg.reg o.accepts s with
  | some k => exact ⟨k, rfl⟩
  | none => rw [isPlain_of_none (htot s hs'.1) hk] at hs'; cases hs'.2

theorem K_nil_iff (cfg : GenCfg) (o : GenOracles) (l : List String)
    (htot : ∀ s ∈ l, TotalOn cfg.reg o.accepts s) : K cfg o l = [] ↔ Q cfg o l = [] := by
  rw [← List.length_eq_zero_iff, K_length cfg o l htot, List.length_eq_zero_iff]

/-- the documented limits (C10): more than `maxLiterals` values, or a value of `maxStrLen` or more characters -/
abbrev Overflows (c : LitCfg) (vs : List String) : Prop := Strings.Overflows c vs

theorem not_overflows_iff (c : LitCfg) (V : List String) :
    ¬ Overflows c V ↔ V.length ≤ c.maxLiterals ∧ ∀ s ∈ V, s.length < c.maxStrLen :=
  LitRule.not_overflows_iff

/-- `resolve` on the observed kinds (C09): the kinds no other observed kind replaces -/
abbrev resolved (reg : StrRegistry) (Ks : List String) : List String := LitRule.resolved reg Ks

theorem resolved_spec (reg : StrRegistry) (Ks : List String) :
    resolve reg Ks (Ks.length + 2) = .ok (resolved reg Ks) ∧ (resolved reg Ks).Nodup ∧
    ∀ k, k ∈ resolved reg Ks ↔ k ∈ Ks ∧ ∀ t2 ∈ Ks, k ≠ t2 → (k, t2) ∉ reg.replaces := by
  refine ⟨resolve_resolved reg Ks, nodup_survivors (nodup_dedupStr Ks), fun k => ?_⟩
  show k ∈ survivors reg (dedupStr Ks) ↔ _
  rw [mem_survivors]; simp only [mem_dedupStr]

/-! ## 1. `generate` on one string-valued field -/

/-- the field type, in closed form: from the plain strings `Ps` and the kinds `Ks` -/
def fieldType (cfg : GenCfg) (Ps Ks : List String) : Except PyErr Ty :=
  expectedR cfg.lit Ps Ks.isEmpty (resolved cfg.reg Ks)

/-- **`single_field_generate`** — for every non-empty list of sample strings (any order, repetitions allowed) -/
theorem single_field_generate (cfg : GenCfg) (o : GenOracles) (f : String) (l : List String) (hne : l ≠ [])
    (htot : ∀ s ∈ l, TotalOn cfg.reg o.accepts s) (hstr : NoStrKind cfg) :
    generate cfg o (samples f l) =
      (fieldType cfg (P cfg o l) (K cfg o l)).map (fun T => .obj [(f, T)]) :=
  generate_samples cfg o f l hne htot hstr

/-- `fieldType` spelled out, case by case -/
theorem fieldType_cases (cfg : GenCfg) (Ps Ks : List String) :
    -- only plain strings: the literal of the distinct strings, sorted — or `str` when that set overflows
    (Ks = [] → ¬ Overflows cfg.lit (sortUniq Ps) → fieldType cfg Ps Ks = .ok (.lit false (sortUniq Ps))) ∧
    (Ks = [] → Overflows cfg.lit (sortUniq Ps) → fieldType cfg Ps Ks = .ok .str) ∧
    -- only pseudo-typed strings: the single resolved kind, or `str` when several kinds remain
    (Ks ≠ [] → Ps = [] → ∀ k, resolved cfg.reg Ks = [k] → fieldType cfg Ps Ks = .ok (.ser k)) ∧
    (Ks ≠ [] → Ps = [] → 2 ≤ (resolved cfg.reg Ks).length → fieldType cfg Ps Ks = .ok .str) ∧
    -- mixed: the resolved kind, then the literal as LAST member …
    (Ks ≠ [] → Ps ≠ [] → ¬ Overflows cfg.lit (sortUniq Ps) → ∀ k, resolved cfg.reg Ks = [k] →
      fieldType cfg Ps Ks = .ok (.union [.ser k, .lit false (sortUniq Ps)])) ∧
    -- … `str` absorbs everything when the kinds do not resolve to one, or the literal overflows
    (Ks ≠ [] → Ps ≠ [] → ¬ Overflows cfg.lit (sortUniq Ps) → 2 ≤ (resolved cfg.reg Ks).length →
      fieldType cfg Ps Ks = .ok .str) ∧
    (Ks ≠ [] → Ps ≠ [] → Overflows cfg.lit (sortUniq Ps) → fieldType cfg Ps Ks = .ok .str) ∧
    -- a replacement cycle among the observed kinds: `next(iter(()))` raises
    (Ks ≠ [] → ¬ (Ps ≠ [] ∧ Overflows cfg.lit (sortUniq Ps)) → resolved cfg.reg Ks = [] →
      fieldType cfg Ps Ks = .error .stopIteration) := by
  unfold fieldType expectedR
  refine ⟨?_, ?_, ?_, ?_, ?_, ?_, ?_, ?_⟩
  · rintro rfl h; simp [h]
  · rintro rfl h; simp [h]
  · intro hK hP k hR
    have : Ks.isEmpty = false := by cases Ks <;> simp_all
    simp [this, hP, hR, shape3]
  · intro hK hP hR
    have : Ks.isEmpty = false := by cases Ks <;> simp_all
    rcases hr : resolved cfg.reg Ks with _ | ⟨a, _ | ⟨b, r⟩⟩ <;> rw [hr] at hR <;> simp at hR
    simp [this, hP, shape3]
  · intro hK hP hov k hR
    have : Ks.isEmpty = false := by cases Ks <;> simp_all
    simp [this, hP, hov, hR, shape3]
  · intro hK hP hov hR
    have : Ks.isEmpty = false := by cases Ks <;> simp_all
    rcases hr : resolved cfg.reg Ks with _ | ⟨a, _ | ⟨b, r⟩⟩ <;> rw [hr] at hR <;> simp at hR
    simp [this, hov, shape3]
  · intro hK hP hov
    have : Ks.isEmpty = false := by cases Ks <;> simp_all
    simp [this, hP, hov]
  · intro hK hn hR
    have : Ks.isEmpty = false := by cases Ks <;> simp_all
    simp only [this, Bool.false_eq_true, if_false, if_neg hn, hR, shape3]

/-- all observed strings are plain: no registered parser accepts any of them -/
def AllPlain (cfg : GenCfg) (o : GenOracles) (l : List String) : Prop :=
  ∀ s ∈ l, ∀ k ∈ cfg.reg.types, o.accepts k s = some false

instance (cfg : GenCfg) (o : GenOracles) (l : List String) : Decidable (AllPlain cfg o l) := by
  unfold AllPlain; infer_instance

theorem allPlain_total {cfg : GenCfg} {o : GenOracles} {l : List String} (h : AllPlain cfg o l) :
    ∀ s ∈ l, TotalOn cfg.reg o.accepts s := fun s hs k hk => ⟨false, h s hs k hk⟩

theorem allPlain_P {cfg : GenCfg} {o : GenOracles} {l : List String} (h : AllPlain cfg o l) :
    P cfg o l = l ∧ Q cfg o l = [] ∧ K cfg o l = [] := by
  have hp : ∀ s ∈ l, isPlain cfg.reg o.accepts s = true := fun s hs => isPlain_iff.2 (h s hs)
  have hQ : Q cfg o l = [] := by
    simp only [Q, pseudoStrs, List.filter_eq_nil_iff]
    intro s hs; simp [hp s hs]
  refine ⟨?_, hQ, ?_⟩
  · simp only [P, plainStrs, List.filter_eq_self]; exact hp
  · rw [K_eq, hQ]; rfl

/-- **the pure-plain case in full**: for ALL `n ≥ 1` and all plain strings `s₁ … sₙ`, whatever their order and
    multiplicity, the field is the literal of the distinct observed strings (sorted) when they are within the
    limits, and `str` otherwise -/
theorem single_field_plain (cfg : GenCfg) (o : GenOracles) (f : String) (l : List String) (hne : l ≠ [])
    (hpl : AllPlain cfg o l) (hstr : NoStrKind cfg) :
    generate cfg o (samples f l) =
      .ok (.obj [(f, if Overflows cfg.lit (sortUniq l) then .str else .lit false (sortUniq l))]) := by
  rw [single_field_generate cfg o f l hne (allPlain_total hpl) hstr]
  obtain ⟨hP, _, hK⟩ := allPlain_P hpl
  rw [hP, hK]
  by_cases hov : Overflows cfg.lit (sortUniq l)
  · rw [(fieldType_cases cfg l []).2.1 rfl hov, if_pos hov]; rfl
  · rw [(fieldType_cases cfg l []).1 rfl hov, if_neg hov]; rfl

/-- the literal's values: exactly the observed strings, each once, in increasing order -/
theorem sortUniq_spec (l : List String) :
    (sortUniq l).Pairwise (· < ·) ∧ (sortUniq l).Nodup ∧ ∀ s, s ∈ sortUniq l ↔ s ∈ l :=
  ⟨sorted_sortUniq l, nodup_sortUniq l, fun _ => mem_sortUniq⟩

/-- order and multiplicity of the samples do not matter (pure-plain case) -/
theorem single_field_plain_order (cfg : GenCfg) (o : GenOracles) (f : String) (l l' : List String)
    (hne : l ≠ []) (hpl : AllPlain cfg o l) (hstr : NoStrKind cfg) (hsame : ∀ s, s ∈ l ↔ s ∈ l') :
    generate cfg o (samples f l') = generate cfg o (samples f l) := by
  have hne' : l' ≠ [] := by
    obtain ⟨s, hs⟩ := List.exists_mem_of_ne_nil l hne
    exact List.ne_nil_of_mem ((hsame s).1 hs)
  have hpl' : AllPlain cfg o l' := fun s hs => hpl s ((hsame s).2 hs)
  rw [single_field_plain cfg o f l hne hpl hstr, single_field_plain cfg o f l' hne' hpl' hstr,
    sortUniq_congr hsame]

/-- **only pseudo-typed strings** (`P = []`): the single kind the observed kinds resolve to; `str` when several
    kinds remain; `StopIteration` when a replacement cycle removes them all -/
theorem single_field_pseudo (cfg : GenCfg) (o : GenOracles) (f : String) (l : List String) (hne : l ≠ [])
    (htot : ∀ s ∈ l, TotalOn cfg.reg o.accepts s) (hstr : NoStrKind cfg) (hP : P cfg o l = []) :
    (∀ k, resolved cfg.reg (K cfg o l) = [k] → generate cfg o (samples f l) = .ok (.obj [(f, .ser k)])) ∧
    (2 ≤ (resolved cfg.reg (K cfg o l)).length → generate cfg o (samples f l) = .ok (.obj [(f, .str)])) ∧
    (resolved cfg.reg (K cfg o l) = [] → generate cfg o (samples f l) = .error .stopIteration) := by
  have hK : K cfg o l ≠ [] := by
    rcases observed_ne htot hne with h | h
    · exact absurd hP h
    · exact h
  have hc := fieldType_cases cfg (P cfg o l) (K cfg o l)
  rw [single_field_generate cfg o f l hne htot hstr]
  refine ⟨fun k hR => ?_, fun hR => ?_, fun hR => ?_⟩
  · rw [hc.2.2.1 hK hP k hR]; rfl
  · rw [hc.2.2.2.1 hK hP hR]; rfl
  · rw [hc.2.2.2.2.2.2.2 hK (fun h => h.1 hP) hR]; rfl

/-- **mixed** (`P ≠ []`, `Q ≠ []`): a union of the resolved kind and — as last member — the literal of the
    distinct plain strings; `str` alone when the literal overflows or the kinds do not resolve to one -/
theorem single_field_mixed (cfg : GenCfg) (o : GenOracles) (f : String) (l : List String)
    (htot : ∀ s ∈ l, TotalOn cfg.reg o.accepts s) (hstr : NoStrKind cfg)
    (hP : P cfg o l ≠ []) (hQ : Q cfg o l ≠ []) :
    (¬ Overflows cfg.lit (sortUniq (P cfg o l)) → ∀ k, resolved cfg.reg (K cfg o l) = [k] →
      generate cfg o (samples f l) = .ok (.obj [(f, .union [.ser k, .lit false (sortUniq (P cfg o l))])])) ∧
    (¬ Overflows cfg.lit (sortUniq (P cfg o l)) → 2 ≤ (resolved cfg.reg (K cfg o l)).length →
      generate cfg o (samples f l) = .ok (.obj [(f, .str)])) ∧
    (Overflows cfg.lit (sortUniq (P cfg o l)) → generate cfg o (samples f l) = .ok (.obj [(f, .str)])) ∧
    (¬ Overflows cfg.lit (sortUniq (P cfg o l)) → resolved cfg.reg (K cfg o l) = [] →
      generate cfg o (samples f l) = .error .stopIteration) := by
  have hne : l ≠ [] := by rintro rfl; exact hP rfl
  have hK : K cfg o l ≠ [] := fun h => hQ ((K_nil_iff cfg o l htot).1 h)
  have hc := fieldType_cases cfg (P cfg o l) (K cfg o l)
  rw [single_field_generate cfg o f l hne htot hstr]
  refine ⟨fun hov k hR => ?_, fun hov hR => ?_, fun hov => ?_, fun hov hR => ?_⟩
  · rw [hc.2.2.2.2.1 hK hP hov k hR]; rfl
  · rw [hc.2.2.2.2.2.1 hK hP hov hR]; rfl
  · rw [hc.2.2.2.2.2.2.1 hK hP hov]; rfl
  · rw [hc.2.2.2.2.2.2.2 hK (fun h => hov h.2) hR]; rfl

/-- in every case: a literal member, if there is one, lists exactly the observed plain strings; and there is one
    only if they are within the limits -/
theorem single_field_literal_values (cfg : GenCfg) (o : GenOracles) (f : String) (l : List String) (hne : l ≠ [])
    (htot : ∀ s ∈ l, TotalOn cfg.reg o.accepts s) (hstr : NoStrKind cfg) (T : Ty)
    (h : generate cfg o (samples f l) = .ok (.obj [(f, T)])) (ov : Bool) (vs : List String)
    (hm : T = .lit ov vs ∨ ∃ ts, T = .union ts ∧ Ty.lit ov vs ∈ ts) :
    ov = false ∧ vs = sortUniq (P cfg o l) ∧ P cfg o l ≠ [] ∧ ¬ Overflows cfg.lit (sortUniq (P cfg o l)) := by
  rw [single_field_generate cfg o f l hne htot hstr] at h
  unfold fieldType expectedR at h
  have hPne : (K cfg o l).isEmpty = true → P cfg o l ≠ [] := by
    intro hk
    rcases observed_ne htot hne with h' | h'
    · exact h'
    · exact absurd (List.isEmpty_iff.1 hk) h'
  split at h
  · rename_i hk
    split at h
    · have : T = .str := by simpa [Except.map] using h.symm
      subst this; rcases hm with hm | ⟨ts, hm, _⟩ <;> cases hm
    · rename_i hov
      have : T = .lit false (sortUniq (P cfg o l)) := by simpa [Except.map] using h.symm
      subst this
      rcases hm with hm | ⟨ts, hm, _⟩
      · cases hm; exact ⟨rfl, rfl, hPne hk, hov⟩
      · cases hm
  · split at h
    · have : T = .str := by simpa [Except.map] using h.symm
      subst this; rcases hm with hm | ⟨ts, hm, _⟩ <;> cases hm
    · rename_i hn
      rcases hr : resolved cfg.reg (K cfg o l) with _ | ⟨a, _ | ⟨b, r⟩⟩ <;> rw [hr] at h
      · simp [shape3, Except.map] at h
      · simp only [shape3] at h
        split at h
        · have : T = .ser a := by simpa [Except.map] using h.symm
          subst this; rcases hm with hm | ⟨ts, hm, _⟩ <;> cases hm
        · rename_i hP
          have : T = .union [.ser a, .lit false (sortUniq (P cfg o l))] := by simpa [Except.map] using h.symm
          subst this
          rcases hm with hm | ⟨ts, hm, hin⟩
          · cases hm
          · cases hm
            have : ov = false ∧ vs = sortUniq (P cfg o l) := by simpa using hin
            exact ⟨this.1, this.2, hP, fun hov => hn ⟨hP, hov⟩⟩
      · have : T = .str := by simpa [shape3, Except.map] using h.symm
        subst this; rcases hm with hm | ⟨ts, hm, _⟩ <;> cases hm

/-! ## 2. the annotation (pure-plain case) -/

/-- the property's condition: each observed string shorter than `maxStrLen`, at most `maxLiterals` distinct ones,
    their number below the configured `max_literals`, and a style that uses literals -/
def LitCond (lc : LitCfg) (c : RenderCfg) (l : List String) : Prop :=
  (∀ s ∈ l, s.length < lc.maxStrLen) ∧ (sortUniq l).length ≤ lc.maxLiterals ∧
  ((sortUniq l).length : Int) < c.maxLiterals ∧ c.useLiterals = true

instance (lc : LitCfg) (c : RenderCfg) (l : List String) : Decidable (LitCond lc c l) := by
  unfold LitCond; infer_instance

theorem litCond_iff (lc : LitCfg) (c : RenderCfg) (l : List String) :
    LitCond lc c l ↔
      ¬ Overflows lc (sortUniq l) ∧ ((sortUniq l).length : Int) < c.maxLiterals ∧ c.useLiterals = true := by
  unfold LitCond
  rw [not_overflows_iff]
  simp only [mem_sortUniq]
  constructor
  · rintro ⟨h1, h2, h3⟩; exact ⟨⟨h2, h1⟩, h3⟩
  · rintro ⟨⟨h2, h1⟩, h3⟩; exact ⟨h1, h2, h3⟩

theorem typingCode_lit_hidden (c : RenderCfg) (e : RefEnv) (ov : Bool) (vs : List String)
    (h : ¬ (c.useLiterals = true ∧ (vs.length : Int) < c.maxLiterals)) :
    typingCode c e (.lit ov vs) = .ok ([], "str") := by
  rw [typingCode]
  by_cases h1 : c.useLiterals = true
  · have h2 : ¬ (vs.length : Int) < c.maxLiterals := fun h2 => h ⟨h1, h2⟩
    simp [h1, h2]; rfl
  · simp [h1]; rfl

theorem literal_text_ne_str (x : String) : "Literal[" ++ x ++ "]" ≠ "str" := by
  intro h
  have := congrArg String.toList h
  simp only [String.toList_append] at this
  have e1 : ("Literal[" : String).toList = ['L', 'i', 't', 'e', 'r', 'a', 'l', '['] := by decide
  have e2 : ("str" : String).toList = ['s', 't', 'r'] := by decide
  rw [e1, e2] at this
  simp at this

/-- **`single_field_annotation`**: the annotation of the field is `Literal["…", …]` listing exactly the distinct
    observed strings (sorted, each written by `json.dumps(ensure_ascii=False)`) **iff** `LitCond` holds, and is
    `str` otherwise; the emitted argument list lexes back, under the Python string-literal lexer model, to
    exactly the observed strings -/
theorem single_field_annotation (cfg : GenCfg) (o : GenOracles) (c : RenderCfg) (e : RefEnv) (f : String)
    (l : List String) (hne : l ≠ []) (hpl : AllPlain cfg o l) (hstr : NoStrKind cfg) :
    ∃ T, generate cfg o (samples f l) = .ok (.obj [(f, T)]) ∧
      (LitCond cfg.lit c l →
        typingCode c e T = .ok ([⟨c.literalModule, some ["Literal"]⟩],
          "Literal[" ++ C10b.litArgs (sortUniq l) ++ "]") ∧
        lexLiteralArgs (C10b.litArgs (sortUniq l)).toList
          = some ((sortUniq l).map (fun s => s.toList.map Char.toNat)) ∧
        ∀ s ∈ sortUniq l, pyLexStr (jsonDumps false s).toList = some (s.toList.map Char.toNat)) ∧
      (¬ LitCond cfg.lit c l → typingCode c e T = .ok ([], "str")) ∧
      ((∃ imps, typingCode c e T = .ok (imps, "Literal[" ++ C10b.litArgs (sortUniq l) ++ "]")) ↔
        LitCond cfg.lit c l) := by
  have hV : sortUniq l ≠ [] := fun h => hne (sortUniq_eq_nil.1 h)
  refine ⟨_, single_field_plain cfg o f l hne hpl hstr, ?_⟩
  have key : (LitCond cfg.lit c l →
        typingCode c e (if Overflows cfg.lit (sortUniq l) then .str else .lit false (sortUniq l)) =
          .ok ([⟨c.literalModule, some ["Literal"]⟩], "Literal[" ++ C10b.litArgs (sortUniq l) ++ "]")) ∧
      (¬ LitCond cfg.lit c l →
        typingCode c e (if Overflows cfg.lit (sortUniq l) then .str else .lit false (sortUniq l)) =
          .ok ([], "str")) := by
    rw [litCond_iff]
    by_cases hov : Overflows cfg.lit (sortUniq l)
    · rw [if_pos hov]
      exact ⟨fun h => absurd hov h.1, fun _ => rfl⟩
    · rw [if_neg hov]
      refine ⟨fun h => (C10b.literal_shown c e _ h.2.2 h.2.1 hV).2.1, fun h => ?_⟩
      exact typingCode_lit_hidden c e _ _ (fun h' => h ⟨hov, h'.2, h'.1⟩)
  refine ⟨fun hc => ⟨key.1 hc, ?_, ?_⟩, key.2, ?_⟩
  · exact C10.literal_list_split_string _ hV
  · exact fun s _ => C10.literal_roundtrip_raw_string s
  · constructor
    · rintro ⟨imps, h⟩
      by_cases hn : LitCond cfg.lit c l
      · exact hn
      · exfalso
        rw [key.2 hn] at h
        have : "str" = "Literal[" ++ C10b.litArgs (sortUniq l) ++ "]" := by
          have := Except.ok.inj h
          exact (Prod.mk.inj this).2
        exact literal_text_ne_str _ this.symm
    · exact fun hc => ⟨_, key.1 hc⟩

/-- the library's limits (extracted from the live `StringLiteral` class): 20 characters, 15 values -/
theorem single_field_annotation_lib (cfg : GenCfg) (o : GenOracles) (c : RenderCfg) (e : RefEnv) (f : String)
    (l : List String) (hne : l ≠ []) (hpl : AllPlain cfg o l) (hstr : NoStrKind cfg)
    (hlib : cfg.lit = C10.libCfg) :
    ∃ T, generate cfg o (samples f l) = .ok (.obj [(f, T)]) ∧
      ((∃ imps, typingCode c e T = .ok (imps, "Literal[" ++ C10b.litArgs (sortUniq l) ++ "]")) ↔
        ((∀ s ∈ l, s.length < 20) ∧ (sortUniq l).length ≤ 15 ∧
          ((sortUniq l).length : Int) < c.maxLiterals ∧ c.useLiterals = true)) ∧
      (¬ ((∀ s ∈ l, s.length < 20) ∧ (sortUniq l).length ≤ 15 ∧
          ((sortUniq l).length : Int) < c.maxLiterals ∧ c.useLiterals = true) →
        typingCode c e T = .ok ([], "str")) := by
  obtain ⟨T, hg, _, h2, h3⟩ := single_field_annotation cfg o c e f l hne hpl hstr
  have hc : LitCond cfg.lit c l ↔ ((∀ s ∈ l, s.length < 20) ∧ (sortUniq l).length ≤ 15 ∧
      ((sortUniq l).length : Int) < c.maxLiterals ∧ c.useLiterals = true) := by
    unfold LitCond
    rw [hlib]
    show ((∀ s ∈ l, s.length < Extracted.maxStringLength) ∧ (sortUniq l).length ≤ Extracted.maxLiterals ∧ _) ↔ _
    rw [C10.extracted_limits.1, C10.extracted_limits.2]
  exact ⟨T, hg, by rw [← hc]; exact h3, by rw [← hc]; exact h2⟩

/-! ### the mixed case: `Union[<kind>, Literal[...]]` -/

theorem tyAnn_kind_lit (c : RenderCfg) (e : RefEnv) (k : String) (V : List String) (ak : Ann)
    (hk : tyAnn c e (.ser k) = some ak) :
    tyAnn c e (.union [.ser k, .lit false V]) =
      some (.union [ak, if c.useLiterals = true ∧ (V.length : Int) < c.maxLiterals then .literal V else .str]) := by
  have hl := C10b.literal_rule c e false V
  have h2 : tyAnns c e [.ser k, .lit false V] =
      some [ak, if c.useLiterals = true ∧ (V.length : Int) < c.maxLiterals then .literal V else .str] := by
    simp only [tyAnns]
    rw [hk, hl]
  rw [tyAnn, h2]; rfl

/-- **mixed case, annotation**: when the plain strings are within the limits and the kinds resolve to `k`
    (annotated `ak`), the field is annotated `Union[ak, Literal[…]]` — the literal listing exactly the distinct
    plain strings — iff their number is below `max_literals` and the style uses literals; else `Union[ak, str]` -/
theorem single_field_annotation_mixed (cfg : GenCfg) (o : GenOracles) (c : RenderCfg) (e : RefEnv) (f : String)
    (l : List String) (htot : ∀ s ∈ l, TotalOn cfg.reg o.accepts s) (hstr : NoStrKind cfg)
    (hP : P cfg o l ≠ []) (hQ : Q cfg o l ≠ []) (hov : ¬ Overflows cfg.lit (sortUniq (P cfg o l)))
    (k : String) (hR : resolved cfg.reg (K cfg o l) = [k]) (ak : Ann) (hk : tyAnn c e (.ser k) = some ak) :
    let V := sortUniq (P cfg o l)
    let x : Ann := if c.useLiterals = true ∧ (V.length : Int) < c.maxLiterals then .literal V else .str
    ∃ T, generate cfg o (samples f l) = .ok (.obj [(f, T)]) ∧
      tyAnn c e T = some (.union [ak, x]) ∧
      typingCode c e T = .ok ((Ann.union [ak, x]).needs c.literalModule,
        "Union[" ++ ", ".intercalate [ak.print, x.print] ++ "]") ∧
      (x.print = if c.useLiterals = true ∧ (V.length : Int) < c.maxLiterals
        then "Literal[" ++ C10b.litArgs V ++ "]" else "str") := by
  intro V x
  have hg := (single_field_mixed cfg o f l htot hstr hP hQ).1 hov k hR
  have ha := tyAnn_kind_lit c e k V ak hk
  refine ⟨_, hg, ha, ?_, ?_⟩
  · rw [typingCode_complete c e _ _ ha]
    rfl
  · show x.print = _
    by_cases h : c.useLiterals = true ∧ (V.length : Int) < c.maxLiterals
    · simp only [x, if_pos h]; rfl
    · simp only [x, if_neg h]; rfl

/-! ## 3. no `Literal` at all: attrs, or `max_literals ≤ 0` -/

/-- pure-plain case: the annotation is `str` -/
theorem single_field_no_literal_plain (cfg : GenCfg) (o : GenOracles) (c : RenderCfg) (e : RefEnv) (f : String)
    (l : List String) (hne : l ≠ []) (hpl : AllPlain cfg o l) (hstr : NoStrKind cfg)
    (hc : c.fw = .attrs ∨ c.maxLiterals ≤ 0) :
    ∃ T, generate cfg o (samples f l) = .ok (.obj [(f, T)]) ∧ typingCode c e T = .ok ([], "str") := by
  obtain ⟨T, hg, _, h2, _⟩ := single_field_annotation cfg o c e f l hne hpl hstr
  refine ⟨T, hg, h2 ?_⟩
  rintro ⟨_, _, h3, h4⟩
  rcases hc with hc | hc
  · rw [RenderCfg.useLiterals, hc] at h4
    exact absurd h4 (by decide)
  · have : (0 : Int) ≤ ((sortUniq l).length : Int) := Int.natCast_nonneg _
    omega

/-- every case (plain, pseudo-typed, mixed): the annotation of the field is the print of a term without a
    `Literal[...]` node (`C10b.attrs_no_literal`, `C10b.max_literals_zero_no_literal` in this setting) -/
theorem single_field_no_literal (cfg : GenCfg) (o : GenOracles) (c : RenderCfg) (e : RefEnv) (f : String)
    (l : List String) (T : Ty) (_h : generate cfg o (samples f l) = .ok (.obj [(f, T)]))
    (hc : c.fw = .attrs ∨ c.maxLiterals ≤ 0) :
    (∀ a, tyAnn c e T = some a → a.hasLiteral = false) ∧
    (∀ imps s, typingCode c e T = .ok (imps, s) → ∃ a : Rend.Ann, s = a.print ∧ a.hasLiteral = false) := by
  refine ⟨fun a ha => ?_, fun imps s hs => C10b.no_literal_text c e T imps s hc hs⟩
  rcases hc with hc | hc
  · exact C10b.attrs_no_literal c e T a hc ha
  · exact C10b.max_literals_zero_no_literal c e T a hc ha

/-! ## 4. non-vacuity: a concrete registry, oracle and samples -/

private def reg0 : StrRegistry :=
  ⟨["IntString", "FloatString", "BooleanString"], [("IntString", "FloatString")], []⟩
/-- a finite-table oracle: "1" is an int and a float, "1.5" a float, "true" a boolean, nothing else parses -/
private def acc0 : Accepts := fun k s => some (
  (k == "IntString" && s == "1") || (k == "FloatString" && (s == "1" || s == "1.5")) ||
  (k == "BooleanString" && s == "true"))
/-- the library's limits: 15 values, 20 characters -/
private def cfg0 : GenCfg := ⟨⟨15, 20⟩, reg0, [], []⟩
private def orc0 : GenOracles := ⟨acc0, fun _ _ => some false, StrOracle.default⟩
private theorem tot0 (l : List String) : ∀ s ∈ l, TotalOn cfg0.reg orc0.accepts s := fun _ _ _ _ => ⟨_, rfl⟩

example : cfg0.lit = C10.libCfg := by
  show (⟨15, 20⟩ : LitCfg) = ⟨Extracted.maxLiterals, Extracted.maxStringLength⟩
  rw [C10.extracted_limits.1, C10.extracted_limits.2]
example : NoStrKind cfg0 := by decide
example : AllPlain cfg0 orc0 ["b", "a", "b"] := by decide

/-- three samples, two of them equal: the literal lists the two distinct strings, sorted -/
example : generate cfg0 orc0 (samples "f" ["b", "a", "b"]) = .ok (.obj [("f", .lit false ["a", "b"])]) := by
  rw [single_field_plain cfg0 orc0 "f" _ (by simp) (by decide) (by decide)]
  have h1 : sortUniq ["b", "a", "b"] = ["a", "b"] := by decide
  have h2 : ¬ Overflows cfg0.lit ["a", "b"] := by decide
  rw [h1, if_neg h2]

private def abc15 : List String := ["o","a","b","c","d","e","f","g","h","i","j","k","l","m","n"]
private def abc16 : List String := "p" :: abc15

/-- overflow by count: 16 distinct strings give `str`, 15 still give the literal -/
example : generate cfg0 orc0 (samples "f" abc16) = .ok (.obj [("f", .str)]) := by
  rw [single_field_plain cfg0 orc0 "f" _ (by simp [abc16]) (by decide) (by decide)]
  have h2 : Overflows cfg0.lit (sortUniq abc16) := by decide
  rw [if_pos h2]
example : generate cfg0 orc0 (samples "f" abc15) =
    .ok (.obj [("f", .lit false ["a","b","c","d","e","f","g","h","i","j","k","l","m","n","o"])]) := by
  rw [single_field_plain cfg0 orc0 "f" _ (by simp [abc15]) (by decide) (by decide)]
  have h1 : sortUniq abc15 = ["a","b","c","d","e","f","g","h","i","j","k","l","m","n","o"] := by decide
  have h2 : ¬ Overflows cfg0.lit (sortUniq abc15) := by decide
  rw [if_neg h2, h1]

/-- overflow by length: a 20-character string gives `str`, a 19-character one the literal -/
example : generate cfg0 orc0 (samples "f" ["a", "01234567890123456789"]) = .ok (.obj [("f", .str)]) := by
  rw [single_field_plain cfg0 orc0 "f" _ (by simp) (by decide) (by decide)]
  have h2 : Overflows cfg0.lit (sortUniq ["a", "01234567890123456789"]) := by decide
  rw [if_pos h2]
example : generate cfg0 orc0 (samples "f" ["a", "0123456789012345678"]) =
    .ok (.obj [("f", .lit false ["0123456789012345678", "a"])]) := by
  rw [single_field_plain cfg0 orc0 "f" _ (by simp) (by decide) (by decide)]
  have h1 : sortUniq ["a", "0123456789012345678"] = ["0123456789012345678", "a"] := by decide
  have h2 : ¬ Overflows cfg0.lit (sortUniq ["a", "0123456789012345678"]) := by decide
  rw [if_neg h2, h1]

/-- mixed: an int, a float and two plain strings — the kinds resolve to `FloatString`, the literal comes last -/
example : generate cfg0 orc0 (samples "f" ["a", "1", "b", "1.5"]) =
    .ok (.obj [("f", .union [.ser "FloatString", .lit false ["a", "b"]])]) := by
  have hP : P cfg0 orc0 ["a", "1", "b", "1.5"] = ["a", "b"] := by decide
  have hK : K cfg0 orc0 ["a", "1", "b", "1.5"] = ["IntString", "FloatString"] := by decide
  have hR : resolved cfg0.reg ["IntString", "FloatString"] = ["FloatString"] := by decide
  have h := (single_field_mixed cfg0 orc0 "f" _ (tot0 _) (by decide) (by rw [hP]; simp) (by decide)).1
  rw [hP, hK] at h
  have h1 : sortUniq ["a", "b"] = ["a", "b"] := by decide
  rw [h1] at h
  exact h (by decide) "FloatString" hR

/-- mixed with a boolean as well: two kinds remain, `str` absorbs everything -/
example : generate cfg0 orc0 (samples "f" ["a", "1", "true"]) = .ok (.obj [("f", .str)]) := by
  have hP : P cfg0 orc0 ["a", "1", "true"] = ["a"] := by decide
  have hK : K cfg0 orc0 ["a", "1", "true"] = ["IntString", "BooleanString"] := by decide
  have h := (single_field_mixed cfg0 orc0 "f" _ (tot0 _) (by decide) (by rw [hP]; simp) (by decide)).2.1
  rw [hP, hK] at h
  exact h (by decide) (by decide)

/-- only pseudo-typed strings -/
example : generate cfg0 orc0 (samples "f" ["1", "1.5", "1"]) = .ok (.obj [("f", .ser "FloatString")]) := by
  have hK : K cfg0 orc0 ["1", "1.5", "1"] = ["IntString", "FloatString", "IntString"] := by decide
  have h := (single_field_pseudo cfg0 orc0 "f" ["1", "1.5", "1"] (by simp) (tot0 _) (by decide) (by decide)).1
  rw [hK] at h
  exact h "FloatString" (by decide)

private def cfgP : RenderCfg where
  fw := .pydantic
  maxLiterals := 10
  postInit := false
  convertUnicode := true
  withMeta := false
  decoKwargs := []
  literalModule := "typing"
  blacklist := []
  serInfo := []
  metadataFieldName := "J2M_ORIGINAL_FIELD"
private def envP : RefEnv := ⟨[], []⟩

example : LitCond cfg0.lit cfgP ["b", "a", "b"] := by decide
example : ¬ LitCond cfg0.lit { cfgP with maxLiterals := 2 } ["b", "a", "b"] := by decide
example : ¬ LitCond cfg0.lit { cfgP with fw := .attrs } ["b", "a", "b"] := by decide
example : ¬ LitCond cfg0.lit cfgP abc16 := by decide

/-- the annotation of the three-sample example, and what Python reads back from its argument list -/
example : ∃ T, generate cfg0 orc0 (samples "f" ["b", "a", "b"]) = .ok (.obj [("f", T)]) ∧
    typingCode cfgP envP T = .ok ([⟨"typing", some ["Literal"]⟩], "Literal[\"a\", \"b\"]") ∧
    lexLiteralArgs "\"a\", \"b\"".toList = some [[97], [98]] := by
  obtain ⟨T, hg, h1, _⟩ :=
    single_field_annotation cfg0 orc0 cfgP envP "f" ["b", "a", "b"] (by simp) (by decide) (by decide)
  obtain ⟨ha, hb, _⟩ := h1 (by decide)
  have hs : sortUniq ["b", "a", "b"] = ["a", "b"] := by decide
  have hl : C10b.litArgs ["a", "b"] = "\"a\", \"b\"" := by decide
  rw [hs, hl] at ha hb
  exact ⟨T, hg, ha, hb⟩

/-- the mixed example rendered: `Union[float, Literal["a", "b"]]` (pydantic writes the actual type) -/
private def cfgS : RenderCfg := { cfgP with serInfo := [("FloatString", "float", "builtins")] }
example : ∃ T, generate cfg0 orc0 (samples "f" ["a", "1", "b", "1.5"]) = .ok (.obj [("f", T)]) ∧
    typingCode cfgS envP T = .ok ([⟨"typing", some ["Literal"]⟩, ⟨"typing", some ["Union"]⟩],
      "Union[float, Literal[\"a\", \"b\"]]") := by
  have hP : P cfg0 orc0 ["a", "1", "b", "1.5"] = ["a", "b"] := by decide
  have hK : K cfg0 orc0 ["a", "1", "b", "1.5"] = ["IntString", "FloatString"] := by decide
  have hs : sortUniq ["a", "b"] = ["a", "b"] := by decide
  obtain ⟨T, hg, _, ht, _⟩ := single_field_annotation_mixed cfg0 orc0 cfgS envP "f" ["a", "1", "b", "1.5"]
    (tot0 _) (by decide) (by rw [hP]; simp) (by decide) (by rw [hP]; decide) "FloatString"
    (by rw [hK]; decide) (.cls "builtins" "float") rfl
  refine ⟨T, hg, ?_⟩
  rw [ht, hP, hs]
  have hc : cfgS.useLiterals = true ∧ ((["a", "b"] : List String).length : Int) < cfgS.maxLiterals := by decide
  rw [if_pos hc]
  rfl

/-- the same samples under attrs, and with `max_literals = 0`: `str` -/
example : ∃ T, generate cfg0 orc0 (samples "f" ["b", "a", "b"]) = .ok (.obj [("f", T)]) ∧
    typingCode { cfgP with fw := .attrs } envP T = .ok ([], "str") :=
  single_field_no_literal_plain cfg0 orc0 _ envP "f" _ (by simp) (by decide) (by decide) (.inl rfl)
example : ∃ T, generate cfg0 orc0 (samples "f" ["b", "a", "b"]) = .ok (.obj [("f", T)]) ∧
    typingCode { cfgP with maxLiterals := 0 } envP T = .ok ([], "str") :=
  single_field_no_literal_plain cfg0 orc0 _ envP "f" _ (by simp) (by decide) (by decide) (.inr (by decide))

end J2M.C10R
