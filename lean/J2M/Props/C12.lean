/-
  Property C12 — "Flat and nested layouts describe the same models": layout facts about `sort_fields`,
  `list.insert`, `compose_models_flat`.
  Helper development: `J2M/Proofs/Layout.lean`.
-/
import J2M.Proofs.Layout
namespace J2M.C12
deriving instance DecidableEq for PtrRec
open J2M.LayoutP J2M.NamesP

/-! ### 3. `list.insert` -/

theorem listInsert_length {α} (xs : List α) (pos : Nat) (x : α) : (listInsert xs pos x).length = xs.length + 1 :=
  LayoutP.listInsert_length xs pos x

/-- `list.insert` never fails (the position is clamped) and adds exactly one element -/
theorem listInsert_perm {α} (xs : List α) (pos : Nat) (x : α) : (listInsert xs pos x).Perm (x :: xs) :=
  LayoutP.listInsert_perm xs pos x

example : listInsert ["a", "b", "c"] 1 "x" = ["a", "x", "b", "c"] ∧ listInsert ["a", "b"] 7 "x" = ["a", "b", "x"] := by
  decide

/-! ### 1. `sort_fields` -/

/-- **sortFields_partition**: "required fields are emitted before optional ones".  The two key lists returned by
    `sort_fields` are the keys of two sub-lists `R`, `O` of the field table which together are a permutation of
    it; every pair in `O` has an `Optional[…]` type and no pair in `R` has one. -/
theorem sortFields_partition (fs : Fields) (uf : Bool) :
    ∃ R O : Fields, sortFields fs uf = (R.keys, O.keys) ∧ (R ++ O).Perm fs ∧
      (∀ kv ∈ O, kv.2.isOpt = true) ∧ (∀ kv ∈ R, kv.2.isOpt = false) :=
  ⟨reqPairs fs uf, optPairs fs, sortFields_eq fs uf, req_opt_perm fs uf,
   fun _ h => (mem_optPairs.mp h).2, fun _ h => (mem_reqPairs.mp h).2⟩

/-- the same at the level of keys: `req ++ opt` is a permutation of the keys of the model; every key of `opt`
    belongs to a field of `Optional` type and every key of `req` to a field of non-`Optional` type -/
theorem sortFields_keys {fs : Fields} {uf : Bool} {req opt : List String} (h : sortFields fs uf = (req, opt)) :
    (req ++ opt).Perm fs.keys ∧
    (∀ k ∈ opt, ∃ t, (k, t) ∈ fs ∧ t.isOpt = true) ∧ (∀ k ∈ req, ∃ t, (k, t) ∈ fs ∧ t.isOpt = false) := by
  rw [sortFields_eq] at h
  injection h with h1 h2
  subst h1; subst h2
  refine ⟨?_, ?_, ?_⟩
  · have := (req_opt_perm fs uf).map (·.1)
    simpa [Fields.keys] using this
  · intro k hk
    obtain ⟨kv, hkv, e⟩ := List.mem_map.mp hk
    exact ⟨kv.2, by subst e; exact (mem_optPairs.mp hkv).1, (mem_optPairs.mp hkv).2⟩
  · intro k hk
    obtain ⟨kv, hkv, e⟩ := List.mem_map.mp hk
    exact ⟨kv.2, by subst e; exact (mem_reqPairs.mp hkv).1, (mem_reqPairs.mp hkv).2⟩

example : sortFields [("a", .opt .int), ("b", .str), ("c", .ptr "1B"), ("d", .float)] true
    = (["b", "d", "c"], ["a"]) := by decide

/-! ### 2. flat layout -/

/-- **flat_perm**: for ALL graphs on which `compose_models_flat` does not raise, its result is a permutation of
    the registry: "each inferred model is emitted exactly once". -/
theorem flat_perm {g : Graph} {l : List String} (h : composeFlat g = .ok l) : l.Perm (g.models.map (·.idx)) :=
  composeFlat_perm h

/-- with pairwise distinct indices: every model occurs exactly once, and nothing else occurs -/
theorem flat_once {g : Graph} {l : List String} (h : composeFlat g = .ok l) (hd : (g.models.map (·.idx)).Nodup) :
    l.Nodup ∧ ∀ i, i ∈ l ↔ ∃ m ∈ g.models, m.idx = i := by
  have hp := flat_perm h
  refine ⟨hp.nodup_iff.mpr hd, fun i => ?_⟩
  rw [hp.mem_iff]; simp

/-- the only way `compose_models_flat` fails: a registered model to which no pointer refers at all -/
theorem flat_error {g : Graph} {e : PyErr} (h : composeFlat g = .error e) : e = .noPointers := by
  rw [composeFlat_eq] at h
  -- some iteration failed
  have : ∀ (ms : List Model) (st : FlatState), ms.foldlM (flatStep g) st = .error e → e = .noPointers := by
    intro ms
    induction ms with
    | nil => intro st h; simp [List.foldlM, pure, Except.pure] at h
    | cons m ms ih =>
      intro st h
      rw [List.foldlM_cons] at h
      cases h1 : flatStep g st m with
      | error e' => rw [h1] at h; injection h with h; exact h ▸ (flatStep_error h1).1
      | ok st1 => rw [h1] at h; exact ih st1 h
  cases h1 : g.models.foldlM (flatStep g) ([], [], []) with
  | error e' =>
    rw [h1] at h; simp only [Except.map] at h; injection h with h; subst h; exact this _ _ h1
  | ok st => rw [h1] at h; cases h

/-- a registry with a shared model and a recursive reference: root `1A` → `1B`, `1A` → `1C`, `1B` → `1C`,
    `1C` → `1C` -/
def exGraph : Graph where
  models := [{ idx := "1A", fields := [("b", .ptr "1B"), ("c", .ptr "1C")] },
             { idx := "1B", fields := [("c", .ptr "1C")] },
             { idx := "1C", fields := [("self", .opt (.ptr "1C"))] }]
  ptrs := [⟨"1A", none, none⟩, ⟨"1B", some "1A", some "b"⟩, ⟨"1C", some "1A", some "c"⟩,
           ⟨"1C", some "1B", some "c"⟩, ⟨"1C", some "1C", some "self"⟩]
  counter := 3

example : composeFlat exGraph = .ok ["1A", "1B", "1C"] := by decide +kernel

/-- **flat_root_first**: if the first model of the registry has no parent pointers (it is only a top-level
    model), then it is the first class of the flat layout.  Holds for ALL graphs (tree-shaped or not): the
    invariant is that, once the first model has been inserted, every position stored in the `PositionsDict` is
    ≥ 1, and `update_position` preserves this. -/
theorem flat_root_first {g : Graph} {m : Model} {ms : List Model} {l : List String}
    (hm : g.models = m :: ms) (hp : filterPointers g m.idx = []) (h : composeFlat g = .ok l) :
    l.head? = some m.idx := composeFlat_head hm hp h

example : exGraph.models.head?.map (·.idx) = some "1A" ∧ (filterPointers exGraph "1A").length = 0 := by decide

/-! ### 4. nested layout -/

/-- all indices placed by `compose_models`: the top-level list followed by every `nested` list -/
abbrev placed (s : NestState) : List String := LayoutP.placed s

/-- **nested_once**: whenever `compose_models` does not raise, every model is placed exactly once — at top level
    or in exactly one `nested` list (for ALL graphs); the `nested` table has one entry per parent. -/
theorem nested_once {g : Graph} {s : NestState} (h : composeNestedState g = .ok s) :
    (s.nested.map (·.1)).Nodup ∧ (placed s).Perm (g.models.map (·.idx)) := composeNested_placed h

/-- both layouts contain the same models -/
theorem layouts_same_models {g : Graph} {l : List String} {s : NestState}
    (hf : composeFlat g = .ok l) (hn : composeNestedState g = .ok s) : l.Perm (placed s) :=
  (flat_perm hf).trans (nested_once hn).2.symm

/-- `Tree g`: every registered model is referred to by exactly one pointer: a root pointer (top-level model) or
    a field of exactly one other model.  `parentOf g i` is that pointer's parent. -/
abbrev Tree (g : Graph) : Prop := LayoutP.Tree g
abbrev parentOf (g : Graph) (i : String) : Option String := LayoutP.parentOf g i

/-- **nested_tree**: on a tree-shaped registry `compose_models` succeeds; the top-level classes are the models
    with a root pointer in registry order, the classes nested in `q` are the models whose only pointer is a field
    of `q`, in registry order, and no reference path is injected (`pathInj = []`). -/
theorem nested_tree {g : Graph} (hT : Tree g) :
    ∃ s, composeNestedState g = .ok s ∧
      s.roots = (g.models.filter (fun m => (parentOf g m.idx).isNone)).map (·.idx) ∧
      (∀ q, s.children q = (g.models.filter (fun m => parentOf g m.idx == some q)).map (·.idx)) ∧
      s.pathInj = [] := composeNested_tree hT

/-- a tree-shaped registry: `1A` (root) has fields of model types `1B`, `1C`; `1B` has a field of type `1D` -/
def exTree : Graph where
  models := [{ idx := "1A", fields := [("b", .ptr "1B"), ("c", .list (.ptr "1C"))] },
             { idx := "1B", fields := [("d", .ptr "1D")] },
             { idx := "1C", fields := [("x", .int)] },
             { idx := "1D", fields := [("y", .opt .str)] }]
  ptrs := [⟨"1A", none, none⟩, ⟨"1B", some "1A", some "b"⟩, ⟨"1D", some "1B", some "d"⟩,
           ⟨"1C", some "1A", some "c"⟩]
  counter := 4

example : Tree exTree := by
  intro m hm
  simp [exTree] at hm
  rcases hm with rfl | rfl | rfl | rfl
  · exact ⟨⟨"1A", none, none⟩, by decide⟩
  · exact ⟨⟨"1B", some "1A", some "b"⟩, by decide⟩
  · exact ⟨⟨"1C", some "1A", some "c"⟩, by decide⟩
  · exact ⟨⟨"1D", some "1B", some "d"⟩, by decide⟩

example : (composeNestedState exTree).toOption.map (fun s => (s.roots, s.children "1A", s.children "1B", s.pathInj))
    = some (["1A"], ["1B", "1C"], ["1D"], []) := by decide
example : composeFlat exTree = .ok ["1A", "1B", "1D", "1C"] := by decide +kernel

/-- outside trees the nested layout uses path injection: in `exGraph` the shared model `1C` is nested in the root
    class `1A` and referenced as `1A.1C` -/
example : (composeNestedState exGraph).toOption.map (fun s => (s.roots, s.nested, s.pathInj))
    = some (["1A"], [("1A", ["1C", "1B"])], [("1C", "1A")]) := by decide

end J2M.C12
