/-
  C08 — "Type simplification reaches a stable normal form".
  Statements, short assembling proofs, witnesses and non-vacuity examples.
  Helper developments: `J2M/Proofs/Union.lean`, `J2M/Proofs/Optimize*.lean`.
-/
import J2M.Proofs.Union
import J2M.Proofs.OptimizeIdem
import J2M.Proofs.OptimizeNF
import J2M.Proofs.OptimizeErr
import J2M.Proofs.OptimizeNFC
import J2M.Proofs.OptimizeFuel
namespace J2M.C08
open J2M J2M.C08P

/-! ## 1. `DUnion.__init__` : flat, duplicate-free, literals folded -/

/-- `_extract_nested_types` really removes every nested union. -/
theorem flattenUnion_flat (ts : List Ty) : ∀ t ∈ flattenUnion ts, t.isUnion = false :=
  C08P.flattenUnion_flat ts

/--
  For *all* member lists `ts` (no hypothesis): the members of `DUnion(*ts)`
  * contain no union,
  * have pairwise distinct hash strings (all of them, the folded literal included),
  * contain at most one string literal,
  * never contain both `str` and a string literal,
  * and a literal member is never overflowed, never empty and is stable under `StringLiteral(...)`.
-/
theorem mkUnion_flat_nodup (c : LitCfg) (ts : List Ty) :
    (∀ t ∈ mkUnionMembers c ts, t.isUnion = false) ∧
    nodupStr ((mkUnionMembers c ts).map hashStr) = true ∧
    ((mkUnionMembers c ts).filter Ty.isLit).length ≤ 1 ∧
    ¬ ((mkUnionMembers c ts).any Ty.isStr = true ∧ (mkUnionMembers c ts).any Ty.isLit = true) ∧
    (∀ o vs, Ty.lit o vs ∈ mkUnionMembers c ts → o = false ∧ vs ≠ [] ∧ mkLit c vs = .lit false vs) := by
  have h := mkUnionMembers_out c ts
  exact ⟨h.flat, (nodupStr_iff _).mpr h.nodup, h.oneLit, h.strLit, h.litOk⟩

/-- a concrete instance: nested unions, a duplicate, two literals and an overflowed literal -/
example :
    mkUnionMembers ⟨15, 20⟩
      [.union [.int, .union [.lit false ["b"], .int]], .lit false ["a"], .list .int] =
      [.int, .list .int, .lit false ["a", "b"]] := by
  simp +decide [mkUnionMembers, flattenUnion, handleType, hashStr, insertUniq, mkLit]

example :
    mkUnionMembers ⟨15, 20⟩ [.lit false ["a"], .int, .lit true [], .lit false ["b"]] = [.int, .str] := by
  simp +decide [mkUnionMembers, flattenUnion, handleType, hashStr, insertUniq]

/-! ## 2. Re-running simplification on a simplified type changes nothing and never fails

`nfc cfg` (defined in `J2M/Proofs/Optimize.lean`) is the *canonical* normal form: `nf` of `Sem.lean` and
* union members in the order in which `_optimize_union`/`DUnion` re-assemble them
  (other members, merged object, list, dict, `str`/pseudo-type, folded literal last),
* every pseudo-type registered, literal sets sorted/duplicate-free/within limits, distinct object keys,
* `Optional[None]` not used as list/dict element type.
It implies `nf` (`nfc_nf`). -/

/-- the canonical normal form is a normal form in the sense of `Sem.nf` -/
theorem nfc_nf (cfg : GenCfg) (t : Ty) (h : nfc cfg t = true) : nf t = true := C08P.nfc_nf cfg t h

/--
  `optimize_type` is the identity on canonical normal forms: whatever the comparison environment `e`
  (no `==` is ever evaluated), for every fuel `≥ 4 * size t`, the result is `.ok t` — no change, no error.
-/
theorem optimize_idem (cfg : GenCfg) (e : EqEnv) (t : Ty) (h : nfc cfg t = true)
    (fuel : Nat) (hf : 4 * t.size ≤ fuel) : optimize cfg e fuel t = .ok t :=
  optimize_idem_nfc cfg e t h fuel hf

/-- in particular with the fuel `generate` uses -/
theorem optimize_idem_fuelFor (cfg : GenCfg) (e : EqEnv) (t : Ty) (h : nfc cfg t = true) :
    optimize cfg e (Ty.fuelFor t) t = .ok t :=
  optimize_idem cfg e t h _ (by unfold Ty.fuelFor; omega)

/-- `registry.resolve(k)` of a single kind is that kind (proved, used inside `optimize_idem`) -/
theorem resolve_single (reg : StrRegistry) (k : String) (n : Nat) : resolve reg [k] (n + 1) = .ok [k] :=
  C08P.resolve_single reg k n

/-- a registry with `IntString ⊂ FloatString` -/
def exCfg : GenCfg :=
  ⟨⟨15, 20⟩, ⟨["IntString", "FloatString"], [("IntString", "FloatString")], []⟩, [], []⟩

/-- a non-trivial canonical normal form: every member category, `Optional[Unknown]`, `Optional[None]` -/
def exNF : Ty :=
  .obj [("a", .opt (.union [.int, .obj [("k", .bool)], .list (.union [.float, .str]),
                            .dict (.opt .int), .ser "IntString", .lit false ["x", "y"]])),
        ("b", .list .unknown), ("c", .opt .null), ("d", .dict (.opt .unknown)),
        ("e", .union [.bool, .str])]

set_option linter.unusedSimpArgs false in
theorem exNF_nfc : nfc exCfg exNF = true := by
  simp +decide [nfc, nfcFields, nfcList, exNF, exCfg, nfUnionMembers, canonOrder, Ty.cls, nodupStr,
    hashStr, hashStrs, hashFields, litStable, insertUniq, Ty.isOptNull, Ty.isOpt]

example (e : EqEnv) : optimize exCfg e (Ty.fuelFor exNF) exNF = .ok exNF :=
  optimize_idem_fuelFor exCfg e exNF exNF_nfc

/-- the order matters: the same union with the literal first is *not* a fixed point (it is re-ordered) -/
example : nfc exCfg (.union [.lit false ["x"], .int]) = false := by decide

/-! ## 3. Every inferred type is in normal form

`Raw cfg` (defined in `J2M/Proofs/OptimizeRaw.lean`) describes what `_detect_type` and `merge_field_sets`
hand to `optimize_type`:
* `rawD` (detect level): no `Optional`/tuple/pointer; pseudo-types registered; a `StringLiteral` is either
  overflowed-and-emptied or non-empty within the limits; unions have the shape `DUnion.__init__` guarantees
  (`unionShape`: non-empty, flat, no overflowed/empty literal member, distinct hash strings, ≤ 1 literal).
  `unknown` is accepted anywhere (more liberal than `detect`, which only produces it under list/dict).
* `rawF` (field of a merged model): `rawD`, possibly under one `Optional`.
* `Raw`: a field dict whose fields are `rawF`, or a `rawF` type.
The normal form is `nf` of `Sem.lean`; note that it accepts `Optional[Unknown]` (`.opt .unknown`), the
result of the repaired `_optimize_union` for "only empty containers and nulls" (see the example below). -/

/-- `_detect_type` only produces raw metadata -/
theorem detect_raw (cfg : GenCfg) (o : GenOracles) (cd : Bool) (v : Json) (t : Ty)
    (h : detect cfg o cd v = .ok t) : Raw cfg t = true :=
  rawD_Raw (detect_rawD cfg o cd v t h)

/-- oracles for a concrete run: no pseudo-type parser accepts, no key regex matches -/
def exOr : GenOracles := ⟨fun _ _ => some false, fun _ _ => some false, StrOracle.default⟩
def exJson : Json := .obj [("a", .arr [.int 1, .str "x", .null]), ("b", .arr [])]

set_option linter.unusedSimpArgs false in
/-- a concrete `_detect_type` run … -/
theorem exDetect : detect exCfg exOr true exJson =
    .ok (.obj [("a", .list (.union [.int, .null, .lit false ["x"]])), ("b", .list .unknown)]) := by
  simp +decide [exJson, detect, detectList, convertFields, anyRegexMatches, allKeysMatch, exCfg, exOr, detectStr,
    detectStr.go, wrapElems, mkLit, mkUnionMembers, flattenUnion, handleType, hashStr, insertUniq, bind,
    Except.bind, pure, Except.pure, List.foldlM]

/-- … whose result is `Raw` (non-vacuity of `Raw` on a term actually built by `detect`) -/
example : Raw exCfg (.obj [("a", .list (.union [.int, .null, .lit false ["x"]])), ("b", .list .unknown)]) = true :=
  detect_raw exCfg exOr true exJson _ exDetect

/-- `merge_field_sets` of detected field sets is raw -/
theorem merge_raw (cfg : GenCfg) (e : EqEnv) (sets : List Fields) (fields : Fields)
    (hsets : ∀ m ∈ sets, ∀ kv ∈ m, rawD cfg kv.2 = true)
    (h : mergeFieldSets cfg.lit e sets = .ok fields) : Raw cfg (.obj fields) = true :=
  (mergeFieldSets_rawF hsets h).Raw

/-- why `Raw` excludes the (never built) empty non-overflowed literal: `DUnion(StringLiteral(set()))` would be an
    empty union. Every `DUnion` of raw members is non-empty (`C08P.mkUM_ne_nil`, used in `merge_raw`). -/
example : mkUnionMembers ⟨15, 20⟩ [.lit false []] = [] := by
  simp +decide [mkUnionMembers, flattenUnion, handleType]

/-- **C08, main part**: whatever the fuel and the comparison environment, if `optimize_type` returns on raw
    metadata, the result is in normal form. -/
theorem optimize_nf (cfg : GenCfg) (e : EqEnv) (fuel : Nat) (t t' : Ty)
    (hr : Raw cfg t = true) (h : optimize cfg e fuel t = .ok t') : nf t' = true :=
  (optimize_nf_all cfg e fuel).1 t t' hr h

/-- and so is every result of `MetadataGenerator.generate` -/
theorem generate_nf (cfg : GenCfg) (o : GenOracles) (samples : List Json) (t : Ty)
    (h : generate cfg o samples = .ok t) : nf t = true :=
  generate_nf_aux h

/-- non-vacuity of `Raw`: a merged model with every kind of field -/
def exRaw : Ty :=
  .obj [("a", .opt (.union [.list .unknown, .list .null])),
        ("b", .union [.int, .float, .obj [("k", .lit false ["x"])], .obj [("k", .ser "IntString")],
                      .ser "IntString", .ser "FloatString", .lit false ["u", "v"]]),
        ("c", .opt .null), ("d", .lit true []), ("e", .dict (.union [.null, .str]))]

set_option linter.unusedSimpArgs false in
theorem exRaw_raw : Raw exCfg exRaw = true := by
  simp +decide [Raw, rawF, rawD, rawDList, rawDFields, exRaw, exCfg, unionShape, nodupStr, hashStr, hashStrs,
    hashFields, litRawOk, Ty.isBadLit, Ty.isUnion, Ty.isLit]

/-! ## 4. "never fails" for the first pass

The full statement `Raw t → ∃ t', optimize cfg e (Ty.fuelFor t) t = .ok t'` is FALSE for the model:
with a registry whose `replaces` relation has a cycle, `resolve` returns the empty set and
`next(iter(str_types))` raises `StopIteration`. -/

/-- the full "never fails" statement (false, see the witness below) -/
def optimize_total_Statement : Prop :=
  ∀ (cfg : GenCfg) (e : EqEnv) (t : Ty), Raw cfg t = true → ∃ t', optimize cfg e (Ty.fuelFor t) t = .ok t'

/-- a registry where `A` replaces `B` and `B` replaces `A` -/
def cycCfg : GenCfg := ⟨⟨15, 20⟩, ⟨["A", "B"], [("A", "B"), ("B", "A")], []⟩, [], []⟩
def anyEnv : EqEnv := ⟨StrOracle.default, fun i => i, fun _ => none, 10⟩

set_option linter.unusedSimpArgs false in
theorem cyc_raw : Raw cycCfg (.union [.ser "A", .ser "B"]) = true := by
  simp +decide [Raw, rawF, rawD, rawDList, cycCfg, unionShape, nodupStr, hashStr, Ty.isBadLit, Ty.isUnion,
    Ty.isLit]

set_option linter.unusedSimpArgs false in
theorem cyc_fails (n : Nat) :
    optimize cycCfg anyEnv (n + 2) (.union [.ser "A", .ser "B"]) = .error .stopIteration := by
  rw [optimize, optimizeUnion_eq, SplitW.splitMembers_eq_fold_of_all (by decide)]
  simp +decide [SplitW.splitFold, cycCfg, stageMerge, stageInt, stageStr, stageList, stageDict, resolve, dedupStr,
    replacedIn, Ty.isStr, bind, Except.bind, pure, Except.pure]

theorem optimize_total_false : ¬ optimize_total_Statement := by
  intro h
  obtain ⟨t', ht'⟩ := h cycCfg anyEnv _ cyc_raw
  have : Ty.fuelFor (.union [.ser "A", .ser "B"]) = 38 + 2 := by
    simp [Ty.fuelFor, Ty.size, Ty.sizeList]
  rw [this, cyc_fails] at ht'
  cases ht'

/-- the `replaces` relation of the registry is acyclic (true for the library's default registry) -/
abbrev RegRanked := C08P.RegRanked

/-- `optimize_total_partial`, part 1: on raw metadata the only possible failures are running out of fuel,
    a `RecursionError` raised by `==` inside `merge_field_sets`, or the `StopIteration` above;
    in particular never `IndexError` (no empty union is ever indexed). -/
theorem optimize_total_partial (cfg : GenCfg) (e : EqEnv) (fuel : Nat) (t : Ty) (err : PyErr)
    (hr : Raw cfg t = true) (h : optimize cfg e fuel t = .error err) :
    err = .outOfFuel ∨ err = .recursion ∨ err = .stopIteration :=
  optimize_errors_raw cfg e fuel t err hr h

/-- part 2: with an acyclic registry `StopIteration` is impossible too (`resolve` terminates within its fuel
    and returns a non-empty set — both proved). -/
theorem optimize_total_partial_ranked (cfg : GenCfg) (e : EqEnv) (hreg : RegRanked cfg.reg) (fuel : Nat)
    (t : Ty) (err : PyErr) (hr : Raw cfg t = true) (h : optimize cfg e fuel t = .error err) :
    err = .outOfFuel ∨ err = .recursion :=
  optimize_errors_ranked cfg e hreg fuel t err hr h

/-- part 3: the fuel `generate` passes (`Ty.fuelFor t = 10 * size t + 10`; anything `≥ 4 * size t + 4`) is
    always enough on raw metadata: `optimize` never reports out-of-fuel (no hypothesis on the registry or `e`). -/
theorem optimize_fuel_ok (cfg : GenCfg) (e : EqEnv) (t : Ty) (hr : Raw cfg t = true) (fuel : Nat)
    (hf : 4 * t.size + 4 ≤ fuel) : optimize cfg e fuel t ≠ .error .outOfFuel :=
  C08P.optimize_fuel_ok cfg e t hr fuel hf

/-- `optimize_total_partial`, assembled: with an acyclic registry the first pass on raw metadata either returns
    a type (which is then in normal form by `optimize_nf`) or fails with the `RecursionError` that `==` on deep
    metadata raises inside `merge_field_sets` (it depends on the environment's `==` fuel, i.e. on Python's
    recursion limit). That last alternative is all that separates this from `optimize_total_Statement`. -/
theorem optimize_total_partial_assembled (cfg : GenCfg) (e : EqEnv) (hreg : RegRanked cfg.reg) (t : Ty)
    (hr : Raw cfg t = true) :
    (∃ t', optimize cfg e (Ty.fuelFor t) t = .ok t') ∨
      optimize cfg e (Ty.fuelFor t) t = .error .recursion :=
  optimize_total_ranked cfg e hreg t hr

/-- non-vacuity: the example registry is ranked -/
example : RegRanked exCfg.reg :=
  ⟨fun s => if s = "IntString" then 0 else 1, by
    intro a b h; simp [exCfg] at h; obtain ⟨rfl, rfl⟩ := h; simp⟩

/-! ## 5. The first pass lands in the *canonical* normal form, so the second pass is the identity

Extra input conditions `rawK` (all true for what the Python code builds): a non-overflowed `StringLiteral`
is sorted and duplicate-free (`litStable`: the model keeps a Python `set` as a sorted list), and dict keys
are distinct. `keysOk` is the corresponding condition on the JSON sample. -/

/-- `_detect_type` on a JSON value with distinct keys gives `rawK` metadata -/
theorem detect_rawK (cfg : GenCfg) (o : GenOracles) (cd : Bool) (v : Json) (t : Ty)
    (hv : keysOk v = true) (h : detect cfg o cd v = .ok t) : rawK cfg t = true :=
  C08P.detect_rawK cfg o cd v t hv h

/-- **C08, canonical version**: the result of `optimize_type` on raw metadata is a canonical normal form -/
theorem optimize_nfc (cfg : GenCfg) (e : EqEnv) (fuel : Nat) (t t' : Ty)
    (hr : Raw cfg t = true) (hk : rawK cfg t = true) (h : optimize cfg e fuel t = .ok t') :
    nfc cfg t' = true :=
  optimize_nfc_raw cfg e fuel t t' hr hk h

/-- **C08, stability**: whatever the first pass returns on raw metadata, every further pass (with any
    comparison environment, any sufficient fuel) returns exactly the same term and does not fail. -/
theorem optimize_twice (cfg : GenCfg) (e e' : EqEnv) (fuel fuel' : Nat) (t t' : Ty)
    (hr : Raw cfg t = true) (hk : rawK cfg t = true) (h : optimize cfg e fuel t = .ok t')
    (hf : 4 * t'.size ≤ fuel') : optimize cfg e' fuel' t' = .ok t' :=
  optimize_idem cfg e' t' (optimize_nfc cfg e fuel t t' hr hk h) fuel' hf

/-- for the whole generator stage: the metadata `generate` returns for JSON samples (with distinct keys)
    is a canonical normal form … -/
theorem generate_nfc (cfg : GenCfg) (o : GenOracles) (samples : List Json) (t : Ty)
    (hs : ∀ v ∈ samples, keysOk v = true) (h : generate cfg o samples = .ok t) : nfc cfg t = true :=
  generate_nfc_aux hs h

/-- … and simplifying it again changes nothing and never fails -/
theorem generate_second_pass (cfg : GenCfg) (o : GenOracles) (e : EqEnv) (samples : List Json) (t : Ty)
    (hs : ∀ v ∈ samples, keysOk v = true) (h : generate cfg o samples = .ok t) :
    optimize cfg e (Ty.fuelFor t) t = .ok t :=
  optimize_idem_fuelFor cfg e t (generate_nfc cfg o samples t hs h)

set_option linter.unusedSimpArgs false in
theorem exRaw_rawK : rawK exCfg exRaw = true := by
  simp +decide [rawK, rawKList, rawKFields, exRaw, exCfg, nodupStr, litStable, insertUniq]

/-- non-vacuity of `keysOk` -/
example : keysOk (.obj [("a", .arr [.obj [("x", .int 1)], .obj [("x", .null), ("y", .str "s")]]),
                        ("b", .obj [])]) = true := by decide

/-- the corner case of the task description: `[{"a": []}, {"a": [null]}]`-like data. The merged field is
    `Union[List[Unknown], List[None]]`; the repaired `_optimize_union` gives `List[Optional[Unknown]]`
    (the original code produced `Optional[Union[]]` here), which `nf`/`nfc` accept: `unknown` directly under
    `Optional` is allowed exactly for this result. -/
def exEmptyNull : Ty := .union [.list .unknown, .list .null]

set_option linter.unusedSimpArgs false in
example : Raw exCfg exEmptyNull = true ∧ rawK exCfg exEmptyNull = true := by
  simp +decide [Raw, rawF, rawD, rawDList, rawK, rawKList, exEmptyNull, exCfg, unionShape, nodupStr, hashStr,
    Ty.isBadLit, Ty.isUnion, Ty.isLit]

set_option linter.unusedSimpArgs false in
/-- the model's first pass on it (any environment would do, `anyEnv` is a concrete one) -/
example : optimize exCfg anyEnv 6 exEmptyNull = .ok (.list (.opt .unknown)) := by
  have h1 : splitMembers exCfg.reg [Ty.list .unknown, .list .null] = SplitW.splitFold exCfg.reg [.list .unknown, .list .null] :=
    SplitW.splitMembers_eq_fold_of_all (by decide)
  have h2 : splitMembers exCfg.reg [Ty.unknown, .null] = SplitW.splitFold exCfg.reg [.unknown, .null] :=
    SplitW.splitMembers_eq_fold_of_all (by decide)
  simp only [exCfg] at h1 h2
  simp +decide [exEmptyNull, optimize, optimizeUnion_eq, h1, h2, SplitW.splitFold, exCfg, stageMerge, stageInt, stageStr,
    stageList, stageDict, finishOpt, mkUnion, mkUnionMembers, flattenUnion, handleType, hashStr, removeFirst,
    Ty.isStr, Ty.isInt, Ty.isFloat, Ty.isUnknown, Ty.isNull, bind, Except.bind, pure, Except.pure]

example : nfc exCfg (.list (.opt .unknown)) = true := by decide

end J2M.C08
