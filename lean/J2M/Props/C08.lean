/-
  C08 — "Type simplification reaches a stable normal form".
  Statements, short assembling proofs, witnesses and non-vacuity examples.
  Helper developments: `J2M/Proofs/Union.lean`, `J2M/Proofs/Optimize*.lean`.
-/
import J2M.Proofs.Union
import J2M.Proofs.OptimizeIdem
namespace J2M.C08
open J2M

/-! ## 1. `DUnion.__init__` : flat, duplicate-free, literals folded -/

/-- `_extract_nested_types` really removes every nested union. -/
theorem flattenUnion_flat (ts : List Ty) : ∀ t ∈ flattenUnion ts, t.isUnion = false :=
  J2M.flattenUnion_flat ts

/--
  For *all* member lists `ts` (no hypothesis): the members of `DUnion(*ts)`
  * contain no union,
  * have pairwise distinct hash strings (all of them, the folded literal included),
  * contain at most one string literal,
  * never contain both `str` and a string literal,
  * and a literal member is never overflowed, never empty and is stable under `StringLiteral(...)`.
-/
theorem mkUnion_flat_nodup (c : LitCfg) (ts : List Ty) :
    (∀ t ∈ mkUnionMembers c ts, t.isUnion = false) ∧
    nodupStr ((mkUnionMembers c ts).map hashStr) = true ∧
    ((mkUnionMembers c ts).filter Ty.isLit).length ≤ 1 ∧
    ¬ ((mkUnionMembers c ts).any Ty.isStr = true ∧ (mkUnionMembers c ts).any Ty.isLit = true) ∧
    (∀ o vs, Ty.lit o vs ∈ mkUnionMembers c ts → o = false ∧ vs ≠ [] ∧ mkLit c vs = .lit false vs) := by
  have h := mkUnionMembers_out c ts
  exact ⟨h.flat, (nodupStr_iff _).mpr h.nodup, h.oneLit, h.strLit, h.litOk⟩

/-- a concrete instance: nested unions, a duplicate, two literals and an overflowed literal -/
example :
    mkUnionMembers ⟨15, 20⟩
      [.union [.int, .union [.lit false ["b"], .int]], .lit false ["a"], .list .int] =
      [.int, .list .int, .lit false ["a", "b"]] := by
  simp +decide [mkUnionMembers, flattenUnion, handleType, hashStr, insertUniq, mkLit]

example :
    mkUnionMembers ⟨15, 20⟩ [.lit false ["a"], .int, .lit true [], .lit false ["b"]] = [.int, .str] := by
  simp +decide [mkUnionMembers, flattenUnion, handleType, hashStr, insertUniq]

/-! ## 2. Re-running simplification on a simplified type changes nothing and never fails

`nfc cfg` (defined in `J2M/Proofs/Optimize.lean`) is the *canonical* normal form: `nf` of `Sem.lean` and
* union members in the order in which `_optimize_union`/`DUnion` re-assemble them
  (other members, merged object, list, dict, `str`/pseudo-type, folded literal last),
* every pseudo-type registered, literal sets sorted/duplicate-free/within limits, distinct object keys,
* `Optional[None]` not used as list/dict element type.
It implies `nf` (`nfc_nf`). -/

/-- the canonical normal form is a normal form in the sense of `Sem.nf` -/
theorem nfc_nf (cfg : GenCfg) (t : Ty) (h : nfc cfg t = true) : nf t = true := J2M.nfc_nf cfg t h

/--
  `optimize_type` is the identity on canonical normal forms: whatever the comparison environment `e`
  (no `==` is ever evaluated), for every fuel `≥ 4 * size t`, the result is `.ok t` — no change, no error.
-/
theorem optimize_idem (cfg : GenCfg) (e : EqEnv) (t : Ty) (h : nfc cfg t = true)
    (fuel : Nat) (hf : 4 * t.size ≤ fuel) : optimize cfg e fuel t = .ok t :=
  optimize_idem_nfc cfg e t h fuel hf

/-- in particular with the fuel `generate` uses -/
theorem optimize_idem_fuelFor (cfg : GenCfg) (e : EqEnv) (t : Ty) (h : nfc cfg t = true) :
    optimize cfg e (Ty.fuelFor t) t = .ok t :=
  optimize_idem cfg e t h _ (by unfold Ty.fuelFor; omega)

/-- `registry.resolve(k)` of a single kind is that kind (proved, used inside `optimize_idem`) -/
theorem resolve_single (reg : StrRegistry) (k : String) (n : Nat) : resolve reg [k] (n + 1) = .ok [k] :=
  J2M.resolve_single reg k n

/-- a registry with `IntString ⊂ FloatString` -/
def exCfg : GenCfg :=
  ⟨⟨15, 20⟩, ⟨["IntString", "FloatString"], [("IntString", "FloatString")], []⟩, [], []⟩

/-- a non-trivial canonical normal form: every member category, `Optional[Unknown]`, `Optional[None]` -/
def exNF : Ty :=
  .obj [("a", .opt (.union [.int, .obj [("k", .bool)], .list (.union [.float, .str]),
                            .dict (.opt .int), .ser "IntString", .lit false ["x", "y"]])),
        ("b", .list .unknown), ("c", .opt .null), ("d", .dict (.opt .unknown)),
        ("e", .union [.bool, .str])]

set_option linter.unusedSimpArgs false in
theorem exNF_nfc : nfc exCfg exNF = true := by
  simp +decide [nfc, nfcFields, nfcList, exNF, exCfg, nfUnionMembers, canonOrder, Ty.cls, nodupStr,
    hashStr, hashStrs, hashFields, litStable, insertUniq, Ty.isOptNull, Ty.isOpt]

example (e : EqEnv) : optimize exCfg e (Ty.fuelFor exNF) exNF = .ok exNF :=
  optimize_idem_fuelFor exCfg e exNF exNF_nfc

/-- the order matters: the same union with the literal first is *not* a fixed point (it is re-ordered) -/
example : nfc exCfg (.union [.lit false ["x"], .int]) = false := by decide

end J2M.C08
