/-
  C16 (option mapping, `Cli.set_args` part) — what `Cli.set_args` (cli.py:236-254) stores for
  `--dict-keys-regex`, `--dict-keys-fields`, `--preamble`, `--disable-unicode-conversion` and
  `--code-generator-kwargs`, and how the stored values act downstream:

  * `pyStrip` = Python `str.strip()` on `List Char` (`pyIsSpace` = `str.isspace`),
  * `setArgs` = the stored record,
  * the preamble reaches `generate_code` (`Header.generateCodeText`, C19) stripped and otherwise verbatim,
  * the patterns reach the generator's dict-vs-model rule (`detect`, C13) one per expression, anchored, never joined.

  Helper development: `J2M/Proofs/SetArgs.lean`.
-/
import J2M.Proofs.SetArgs
import J2M.Props.C19
import J2M.Props.C13
namespace J2M.C16S
open J2M J2M.CliArgs J2M.SetArgsP

/-! ## 1. `str.strip()` -/

/-- the result neither starts nor ends with a whitespace character -/
theorem pyStrip_no_outer_space (s : List Char) :
    (∀ c, (pyStrip s).head? = some c → pyIsSpace c = false) ∧
    (∀ c, (pyStrip s).getLast? = some c → pyIsSpace c = false) :=
  ⟨pyStrip_head s, pyStrip_last s⟩

example : (pyStrip " \n a b \t".toList).head? = some 'a' ∧ (pyStrip " \n a b \t".toList).getLast? = some 'b' := by
  decide

/-- stripping twice is stripping once -/
theorem pyStrip_idem (s : List Char) : pyStrip (pyStrip s) = pyStrip s :=
  pyStrip_eq_self _ (pyStrip_head s) (pyStrip_last s)

example : pyStrip (pyStrip "  x ".toList) = ['x'] := by decide

/-- the result is a contiguous piece of the input and what is cut off on both sides is whitespace only -/
theorem pyStrip_infix (s : List Char) :
    ∃ a b, s = a ++ pyStrip s ++ b ∧ a.all pyIsSpace = true ∧ b.all pyIsSpace = true :=
  ⟨s.takeWhile pyIsSpace, ((s.dropWhile pyIsSpace).reverse.takeWhile pyIsSpace).reverse, pyStrip_split s,
    List.all_takeWhile, by rw [List.all_reverse]; exact List.all_takeWhile⟩

theorem pyStrip_sublist (s : List Char) : pyStrip s <:+: s := by
  obtain ⟨a, b, h, _, _⟩ := pyStrip_infix s
  exact ⟨a, b, h.symm⟩

example : " \n a b \t".toList = " \n ".toList ++ pyStrip " \n a b \t".toList ++ " \t".toList := by decide

/-- the result is empty exactly for the empty and the all-whitespace strings -/
theorem pyStrip_nil_iff (s : List Char) : pyStrip s = [] ↔ s.all pyIsSpace = true := by
  constructor
  · intro h
    obtain ⟨a, b, hs, ha, hb⟩ := pyStrip_infix s
    rw [h] at hs
    rw [hs]
    simp only [List.append_nil, List.all_append, ha, hb, Bool.and_self]
  · exact pyStrip_of_all s

example : pyStrip " \t \u3000\n".toList = [] ∧ pyStrip "".toList = [] ∧ pyStrip " . ".toList ≠ [] := by decide

/-- uniqueness of the decomposition: whenever the input is whitespace, then a block `t` that neither starts nor ends
    with whitespace, then whitespace, the result is exactly `t` -/
theorem pyStrip_unique (a t b : List Char) (ha : a.all pyIsSpace = true) (hb : b.all pyIsSpace = true)
    (hh : ∀ c, t.head? = some c → pyIsSpace c = false)
    (hl : ∀ c, t.getLast? = some c → pyIsSpace c = false) : pyStrip (a ++ t ++ b) = t :=
  SetArgsP.pyStrip_unique a t b ha hb hh hl

/-- everything from the first to the last non-whitespace character is kept, in order, whatever lies between them
    (`m` is arbitrary: whitespace and line separators inside are not touched) -/
theorem pyStrip_inner_untouched (a m b : List Char) (x y : Char)
    (ha : a.all pyIsSpace = true) (hb : b.all pyIsSpace = true)
    (hx : pyIsSpace x = false) (hy : pyIsSpace y = false) :
    pyStrip (a ++ (x :: m ++ [y]) ++ b) = x :: m ++ [y] := by
  apply SetArgsP.pyStrip_unique a _ b ha hb
  · intro c hc
    simp only [List.cons_append, List.head?_cons, Option.some.injEq] at hc
    subst hc; exact hx
  · intro c hc
    have hl : (x :: m ++ [y]).getLast? = some y := by
      rw [show x :: m ++ [y] = (x :: m) ++ [y] from rfl, List.getLast?_append]; simp
    rw [hl, Option.some.injEq] at hc
    subst hc; exact hy

/-- … and with a single non-whitespace character -/
theorem pyStrip_single (a b : List Char) (x : Char)
    (ha : a.all pyIsSpace = true) (hb : b.all pyIsSpace = true) (hx : pyIsSpace x = false) :
    pyStrip (a ++ [x] ++ b) = [x] := by
  apply SetArgsP.pyStrip_unique a _ b ha hb <;>
  · intro c hc
    simp only [List.head?_cons, List.getLast?_singleton, Option.some.injEq] at hc
    subst hc; exact hx

/-- U+2028 LINE SEPARATOR is whitespace for `strip`: removed at the ends, and strictly inside the text it stays -/
example : pyIsSpace '\u2028' = true ∧
    pyStrip "\u2028 a\u2028b \u2028".toList = "a\u2028b".toList ∧
    "a\u2028b".toList = ['a', '\u2028', 'b'] := by decide

example : pyStrip ("\n ".toList ++ ('a' :: "  \n".toList ++ ['b']) ++ "  ".toList) = "a  \nb".toList := by
  decide

/-! ## 2. `--preamble` -/

/-- the stored preamble, exactly -/
theorem setArgs_preamble_eq {kw dkr dkf : List String} {dis : Bool} {pre : Option String} {r : SetArgs}
    (h : setArgs kw dkr dkf dis pre = .ok r) :
    r.preamble =
      match pre with
      | none => none
      | some p => if pyStrip p.toList = [] then none else some (String.ofList (pyStrip p.toList)) := by
  obtain ⟨k, _, hr⟩ := (setArgs_ok_iff ..).1 h
  subst hr
  simp only [cliPreamble_pyStrip]
  cases pre with
  | none => rfl
  | some p =>
    simp only [Option.map_some]
    split <;> rfl

/-- no preamble is stored iff the option is absent or its text is empty / all whitespace -/
theorem setArgs_preamble_none {kw dkr dkf : List String} {dis : Bool} {pre : Option String} {r : SetArgs}
    (h : setArgs kw dkr dkf dis pre = .ok r) :
    r.preamble = none ↔
      match pre with
      | none => True
      | some p => ∀ c ∈ p.toList, pyIsSpace c = true := by
  rw [setArgs_preamble_eq h]
  cases pre with
  | none => simp
  | some p =>
    simp only
    rw [← List.all_eq_true, ← pyStrip_nil_iff]
    split <;> simp_all

/-- a stored preamble is the stripped option text: non-empty, a contiguous piece of the option text, and only
    whitespace was cut off -/
theorem setArgs_preamble_some {kw dkr dkf : List String} {dis : Bool} {pre : Option String} {r : SetArgs} {q : String}
    (h : setArgs kw dkr dkf dis pre = .ok r) (hq : r.preamble = some q) :
    ∃ p, pre = some p ∧ q.toList = pyStrip p.toList ∧ q ≠ "" ∧ q.toList <:+: p.toList ∧
      ∃ a b, p.toList = a ++ q.toList ++ b ∧ a.all pyIsSpace = true ∧ b.all pyIsSpace = true := by
  rw [setArgs_preamble_eq h] at hq
  cases pre with
  | none => simp at hq
  | some p =>
    simp only at hq
    split at hq
    · simp at hq
    · rename_i hne
      simp only [Option.some.injEq] at hq
      subst hq
      refine ⟨p, rfl, String.toList_ofList, ?_, ?_, ?_⟩
      · simpa [String.ofList_eq_empty_iff] using hne
      · rw [String.toList_ofList]; exact pyStrip_sublist _
      · rw [String.toList_ofList]; exact pyStrip_infix _

/-- conversely: an option text with a non-whitespace character is stored (stripped) -/
theorem setArgs_preamble_kept {kw dkr dkf : List String} {dis : Bool} {p : String} {r : SetArgs}
    (h : setArgs kw dkr dkf dis (some p) = .ok r) (hp : ∃ c ∈ p.toList, pyIsSpace c = false) :
    r.preamble = some (String.ofList (pyStrip p.toList)) := by
  rw [setArgs_preamble_eq h]
  simp only
  rw [if_neg]
  rw [pyStrip_nil_iff, List.all_eq_true]
  obtain ⟨c, hc, hs⟩ := hp
  intro hall
  rw [hall c hc] at hs
  cases hs

example : (setArgs ["a=1"] [] [] false (some "\n  X = 1  ")).toOption.map (·.preamble) = some (some "X = 1") := by
  decide
example : (setArgs [] [] [] false (some " \n\t")).toOption.map (·.preamble) = some none ∧
    (setArgs [] [] [] false (some "")).toOption.map (·.preamble) = some none ∧
    (setArgs [] [] [] false none).toOption.map (·.preamble) = some none := by
  decide

/-- **cli_preamble_verbatim** — the module text `generate_code` assembles with the preamble stored by the CLI:
    the import block, then the option text stripped with `str.strip()` and otherwise verbatim, then the delimiter
    `"\n\n\n"`, then the classes; without a stored preamble the import block is followed by the classes directly
    (`C19.preamble_placement` composed with `setArgs_preamble_eq`). -/
theorem cli_preamble_verbatim {kw dkr dkf : List String} {dis : Bool} {pre : Option String} {r : SetArgs}
    (h : setArgs kw dkr dkf dis pre = .ok r) (imports : Option (List Char)) (classes : List (List Char)) :
    (∀ q, r.preamble = some q →
      ∃ p, pre = some p ∧ q.toList = pyStrip p.toList ∧
        Header.generateCodeText imports (r.preamble.map String.toList) classes
          = Header.importsPart imports ++ pyStrip p.toList ++ Header.delim ++ Header.classesPart classes) ∧
    (r.preamble = none →
        Header.generateCodeText imports (r.preamble.map String.toList) classes
          = Header.importsPart imports ++ Header.classesPart classes) := by
  constructor
  · intro q hq
    obtain ⟨p, hp, hqs, hne, _, _⟩ := setArgs_preamble_some h hq
    refine ⟨p, hp, hqs, ?_⟩
    have hqne : pyStrip p.toList ≠ [] := by
      rw [← hqs]; simpa [String.toList_eq_nil_iff] using hne
    have hpne : p.toList ≠ [] := by
      intro h0; rw [h0] at hqne; exact hqne rfl
    have hpl := (C19.preamble_placement pyStrip imports p.toList (pyStrip p.toList) classes hpne rfl hqne).1
    rw [← hpl, hq, cliPreamble_pyStrip]
    simp only [Option.map_some, hqs, if_neg hqne]
  · intro hn
    rw [hn]
    exact (C19.preamble_placement pyStrip imports ['x'] ['x'] classes (by simp) (by decide) (by simp)).2

example : ∃ r, setArgs [] [] [] false (some "\n X = 1 \u2028b  ") = .ok r ∧ r.preamble = some "X = 1 \u2028b" ∧
    Header.generateCodeText (some "import a".toList) (r.preamble.map String.toList) ["class A: pass".toList]
      = "import a\n\n\nX = 1 \u2028b\n\n\nclass A: pass\n".toList :=
  ⟨_, rfl, by decide, by decide⟩

/-! ## 3. the other stored options -/

/-- one pattern per expression, anchored with `^…$`, in the order given; nothing is merged or dropped -/
theorem setArgs_dkr {kw dkr dkf : List String} {dis : Bool} {pre : Option String} {r : SetArgs}
    (h : setArgs kw dkr dkf dis pre = .ok r) :
    r.dictKeysRegex = dkr.map (fun e => "^" ++ e ++ "$") ∧
    r.dictKeysRegex.length = dkr.length ∧
    ∀ i : Nat, r.dictKeysRegex[i]? = (dkr[i]?).map (fun e => "^" ++ e ++ "$") := by
  obtain ⟨k, _, hr⟩ := (setArgs_ok_iff ..).1 h
  subst hr
  simp

theorem setArgs_dkf {kw dkr dkf : List String} {dis : Bool} {pre : Option String} {r : SetArgs}
    (h : setArgs kw dkr dkf dis pre = .ok r) : r.dictKeysFields = dkf := by
  obtain ⟨k, _, hr⟩ := (setArgs_ok_iff ..).1 h
  subst hr; rfl

theorem setArgs_unicode {kw dkr dkf : List String} {dis : Bool} {pre : Option String} {r : SetArgs}
    (h : setArgs kw dkr dkf dis pre = .ok r) : r.convertUnicode = !dis := by
  obtain ⟨k, _, hr⟩ := (setArgs_ok_iff ..).1 h
  subst hr; rfl

theorem setArgs_kwargs {kw dkr dkf : List String} {dis : Bool} {pre : Option String} {r : SetArgs}
    (h : setArgs kw dkr dkf dis pre = .ok r) : parseKwargs kw = .ok r.kwargs := by
  obtain ⟨k, hk, hr⟩ := (setArgs_ok_iff ..).1 h
  subst hr; exact hk

/-- `set_args` fails exactly when the `--code-generator-kwargs` items fail to parse, with that error -/
theorem setArgs_error_iff (kw dkr dkf : List String) (dis : Bool) (pre : Option String) (e : PyErr) :
    setArgs kw dkr dkf dis pre = .error e ↔ parseKwargs kw = .error e :=
  SetArgsP.setArgs_error_iff kw dkr dkf dis pre e

/-- … and succeeds exactly when they parse -/
theorem setArgs_ok_of_kwargs {kw : List String} {k : List (String × String)} (hk : parseKwargs kw = .ok k)
    (dkr dkf : List String) (dis : Bool) (pre : Option String) :
    ∃ r, setArgs kw dkr dkf dis pre = .ok r ∧ r.kwargs = k :=
  ⟨_, (setArgs_ok_iff ..).2 ⟨k, hk, rfl⟩, rfl⟩

example : (setArgs ["\"a=1\"", "b=x=y", "a=2"] ["\\d+", "[a-z]+"] ["f"] true none).toOption.map
      (fun r => (r.dictKeysRegex, r.dictKeysFields, r.convertUnicode, r.kwargs)) =
    some (["^\\d+$", "^[a-z]+$"], ["f"], false, [("a", "2"), ("b", "x=y")]) := by decide
example : setArgs ["a=1", "novalue"] ["x"] [] false none = .error .valueError ∧
    setArgs ["a=1", ""] ["x"] [] false none = .error .indexError := ⟨rfl, rfl⟩

/-! ## 4. the patterns in the generator's dict-vs-model rule (C13) -/

/-- a generator configuration carries the CLI's patterns and field names -/
def UsesCliArgs (cfg : GenCfg) (r : SetArgs) : Prop :=
  cfg.dictRegex = r.dictKeysRegex ∧ cfg.dictFields = r.dictKeysFields

/-- an oracle given by a total match table `m pattern key` -/
def tableOracle (m : String → String → Bool) : GenOracles :=
  ⟨fun _ _ => some false, fun p k => some (m p k), StrOracle.default⟩

/-- "some configured pattern matches every key", for the CLI's patterns: SOME expression `e` of
    `--dict-keys-regex` whose own anchored pattern `^e$` matches ALL keys -/
theorem cli_regex_hit {kw dkr dkf : List String} {dis : Bool} {pre : Option String} {r : SetArgs}
    (h : setArgs kw dkr dkf dis pre = .ok r) {cfg : GenCfg} (hc : UsesCliArgs cfg r) (o : GenOracles)
    (keys : List String) :
    C13.RegexHit cfg o keys ↔ ∃ e ∈ dkr, ∀ k ∈ keys, o.reMatch ("^" ++ e ++ "$") k = some true := by
  unfold C13.RegexHit
  rw [hc.1, (setArgs_dkr h).1]
  simp only [List.mem_map]
  constructor
  · rintro ⟨p, ⟨e, he, rfl⟩, hk⟩; exact ⟨e, he, hk⟩
  · rintro ⟨e, he, hk⟩; exact ⟨_, ⟨e, he, rfl⟩, hk⟩

/-- **cli_dict_rule** — `C13.dict_iff` with the CLI's options: a non-empty object reached with flag `cd`
    (`cd = false` exactly for the direct value of a key listed in `--dict-keys-fields`, `C13.field_flag`) is detected
    as a mapping iff `cd = false` or some single expression's anchored pattern matches all of its keys; otherwise it is
    a model with exactly the object's keys. -/
theorem cli_dict_rule {kw dkr dkf : List String} {dis : Bool} {pre : Option String} {r : SetArgs}
    (h : setArgs kw dkr dkf dis pre = .ok r) {cfg : GenCfg} (hc : UsesCliArgs cfg r) {o : GenOracles}
    {cd : Bool} {kv : String × Json} {kvs : List (String × Json)} {t : Ty}
    (hd : detect cfg o cd (.obj (kv :: kvs)) = .ok t) :
    (t.isDict = true ↔
      cd = false ∨ ∃ e ∈ dkr, ∀ k ∈ (kv :: kvs).map (·.1), o.reMatch ("^" ++ e ++ "$") k = some true) ∧
    (t.isDict = false → ∃ fs, t = .obj fs ∧ Fields.keys fs = (kv :: kvs).map (·.1)) := by
  obtain ⟨h1, _, h3⟩ := C13.dict_iff hd
  have e := cli_regex_hit h hc o ((kv :: kvs).map (·.1))
  constructor
  · rw [h1, C13.DictLike, e]
  · intro hf
    have : ¬ C13.DictLike cfg o cd ((kv :: kvs).map (·.1)) := by
      rw [← h1, hf]; simp
    obtain ⟨fs, _, ht, hk⟩ := h3 this
    exact ⟨fs, ht, hk⟩

/-- the same for the value of a model's key `k` (the flag is `k ∉ --dict-keys-fields`) -/
theorem cli_field_dict_rule {kw dkr dkf : List String} {dis : Bool} {pre : Option String} {r : SetArgs}
    (h : setArgs kw dkr dkf dis pre = .ok r) {cfg : GenCfg} (hc : UsesCliArgs cfg r) {o : GenOracles}
    {k : String} {kvs : List (String × Json)} {t : Ty}
    (hd : detect cfg o (!cfg.dictFields.contains k) (.obj kvs) = .ok t) :
    (t.isDict = true ↔ kvs = [] ∨ k ∈ dkf ∨
      ∃ e ∈ dkr, ∀ key ∈ kvs.map (·.1), o.reMatch ("^" ++ e ++ "$") key = some true) := by
  rw [(C13.field_dict_iff hd).1, cli_regex_hit h hc, hc.2, setArgs_dkf h]

/-- with a total match table the regex loop of the generator returns, and its value is
    `any expression (all keys (match))` -/
theorem cli_regex_loop {kw dkr dkf : List String} {dis : Bool} {pre : Option String} {r : SetArgs}
    (h : setArgs kw dkr dkf dis pre = .ok r) (m : String → String → Bool) (keys : List String) :
    anyRegexMatches (tableOracle m) r.dictKeysRegex keys =
      .ok (dkr.any (fun e => keys.all (fun k => m ("^" ++ e ++ "$") k))) := by
  obtain ⟨b, hb⟩ := anyRegexMatches_total (o := tableOracle m) (ps := r.dictKeysRegex) (keys := keys)
    (by intros; rfl)
  rw [hb]
  congr 1
  have hiff := anyRegexMatches_ok hb
  rw [(setArgs_dkr h).1] at hiff
  rw [Bool.eq_iff_iff, hiff]
  simp only [tableOracle, List.mem_map, Option.some.injEq, List.any_eq_true, List.all_eq_true]
  constructor
  · rintro ⟨p, ⟨e, he, rfl⟩, hk⟩; exact ⟨e, he, hk⟩
  · rintro ⟨e, he, hk⟩; exact ⟨_, ⟨e, he, rfl⟩, hk⟩

/-- the match table of the counterexample: `^\d+$` matches `7` only, `^[a-z]+$` matches `seven` only, and the single
    pattern `^(\d+|[a-z]+)$` (the joined-alternation reading of the two expressions) matches both -/
def mAlt (p k : String) : Bool :=
  (p == "^\\d+$" && k == "7") || (p == "^[a-z]+$" && k == "seven") ||
  (p == "^(\\d+|[a-z]+)$" && (k == "7" || k == "seven"))

def cfgAlt (ps : List String) : GenCfg :=
  { lit := ⟨10, 50⟩, reg := ⟨[], [], []⟩, dictFields := [], dictRegex := ps }

/-- **alternation_differs** — `--dict-keys-regex '\d+' '[a-z]+'` is NOT `--dict-keys-regex '(\d+|[a-z]+)'`:
    the object `{"7": 1, "seven": 2}` is a model under the patterns `set_args` stores (no single expression matches
    both keys), and a mapping under one pattern that matches both keys. -/
theorem alternation_differs {r : SetArgs}
    (h : setArgs [] ["\\d+", "[a-z]+"] [] false none = .ok r) :
    r.dictKeysRegex = ["^\\d+$", "^[a-z]+$"] ∧
    ¬ C13.RegexHit (cfgAlt r.dictKeysRegex) (tableOracle mAlt) ["7", "seven"] ∧
    detect (cfgAlt r.dictKeysRegex) (tableOracle mAlt) true (.obj [("7", .int 1), ("seven", .int 2)])
      = .ok (.obj [("7", .int), ("seven", .int)]) ∧
    C13.RegexHit (cfgAlt ["^(\\d+|[a-z]+)$"]) (tableOracle mAlt) ["7", "seven"] ∧
    detect (cfgAlt ["^(\\d+|[a-z]+)$"]) (tableOracle mAlt) true (.obj [("7", .int 1), ("seven", .int 2)])
      = .ok (.dict .int) := by
  have hr : r.dictKeysRegex = ["^\\d+$", "^[a-z]+$"] := by
    rw [(setArgs_dkr h).1]; decide
  rw [hr]
  refine ⟨rfl, ?_, ?_, ?_, ?_⟩
  · simp [C13.RegexHit, cfgAlt, tableOracle, mAlt]
  · simp [detect, convertFields, anyRegexMatches, allKeysMatch, cfgAlt, tableOracle, mAlt, bind, Except.bind,
      pure, Except.pure]
  · simp [C13.RegexHit, cfgAlt, tableOracle, mAlt]
  · simp [detect, detectVals, anyRegexMatches, allKeysMatch, cfgAlt, tableOracle, mAlt, wrapElems, bind, Except.bind,
      pure, Except.pure, mkUnionMembers, flattenUnion, handleType, hashStr, Ty.isStr]

/-- the hypothesis of `alternation_differs` is satisfiable -/
example : ∃ r, setArgs [] ["\\d+", "[a-z]+"] [] false none = .ok r := ⟨_, rfl⟩

/-- non-vacuity of `cli_dict_rule`: a configuration using the CLI's arguments and a successful detection -/
example : ∃ r, setArgs [] ["\\d+", "[a-z]+"] ["f"] false none = .ok r ∧
    UsesCliArgs { lit := ⟨10, 50⟩, reg := ⟨[], [], []⟩, dictFields := ["f"], dictRegex := ["^\\d+$", "^[a-z]+$"] } r :=
  ⟨_, rfl, by decide, rfl⟩

end J2M.C16S

#print axioms J2M.C16S.pyStrip_no_outer_space
#print axioms J2M.C16S.pyStrip_idem
#print axioms J2M.C16S.pyStrip_infix
#print axioms J2M.C16S.pyStrip_sublist
#print axioms J2M.C16S.pyStrip_nil_iff
#print axioms J2M.C16S.pyStrip_unique
#print axioms J2M.C16S.pyStrip_inner_untouched
#print axioms J2M.C16S.pyStrip_single
#print axioms J2M.C16S.setArgs_preamble_eq
#print axioms J2M.C16S.setArgs_preamble_none
#print axioms J2M.C16S.setArgs_preamble_some
#print axioms J2M.C16S.setArgs_preamble_kept
#print axioms J2M.C16S.cli_preamble_verbatim
#print axioms J2M.C16S.setArgs_dkr
#print axioms J2M.C16S.setArgs_dkf
#print axioms J2M.C16S.setArgs_unicode
#print axioms J2M.C16S.setArgs_kwargs
#print axioms J2M.C16S.setArgs_error_iff
#print axioms J2M.C16S.setArgs_ok_of_kwargs
#print axioms J2M.C16S.cli_regex_hit
#print axioms J2M.C16S.cli_dict_rule
#print axioms J2M.C16S.cli_field_dict_rule
#print axioms J2M.C16S.cli_regex_loop
#print axioms J2M.C16S.alternation_differs
