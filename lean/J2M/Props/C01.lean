/-
  C01 — "Generated models accept every sample they were inferred from", at the level of the
  metadata generator (`MetadataGenerator.generate`).

  `Inh acc g t v` (Sem.lean) is strict inhabitation.  `InhR = InhX true` (Proofs/Inh.lean) is the *raw*
  relation used between the stages: `Inh` plus "an overflowed literal `.lit true _` holds every string"
  (that is how `DUnion.__init__` and `optimize_type` read it).  `InhX false` is `Inh` (`inhX_false_iff`).
-/
import J2M.Proofs.InhGenerate
import J2M.Proofs.InhHash
namespace J2M.C01
open J2M

/-! ## 1. `_detect_type` -/

/-- The full statement for the strict relation.  It is FALSE (see `detect_inh_false`). -/
def detect_inh_Statement : Prop :=
  ∀ (cfg : GenCfg) (o : GenOracles) (g : ModelLookup) (cd : Bool) (v : Json) (t : Ty),
    Json.WF v → detect cfg o cd v = .ok t → Inh o.accepts g t v

def cfgW : GenCfg := ⟨⟨15, 3⟩, ⟨[], [], []⟩, [], []⟩
def oW : GenOracles := ⟨fun _ _ => some false, fun _ _ => some false, StrOracle.default⟩

/-- a string of `MAX_STRING_LENGTH` characters is detected as an overflowed literal … -/
theorem detect_long_string : detect cfgW oW true (.str "abc") = .ok (.lit true []) := by
  simp [detect, detectStr, detectStr.go, cfgW, mkLit, bind, Except.bind, pure, Except.pure]
  decide

/-- … which has no inhabitants under the strict relation: the per-stage statement needs the raw relation. -/
theorem detect_inh_false : ¬ detect_inh_Statement := by
  intro h
  have := h cfgW oW (fun _ => none) true (.str "abc") _ (by simp [Json.WF]) detect_long_string
  cases this

/-- **C01.1 (partial: raw relation instead of the strict one).**
    Every well-formed JSON value lies in the type detected for it, for every configuration and oracle;
    an overflowed literal is read as "any string".  Hypothesis: hash strings are sound on generator-stage
    types (a list with more than one element is de-duplicated by hash string). -/
theorem detect_inh_partial {cfg : GenCfg} {o : GenOracles} {g : ModelLookup} {K : String → Prop}
    (hK : ∀ k ∈ cfg.reg.types, K k) (hs : HashSoundOn true o.accepts g (Ty.Good K))
    {cd : Bool} {v : Json} {t : Ty} (wf : Json.WF v) (h : detect cfg o cd v = .ok t) :
    InhR o.accepts g t v :=
  (detect_spec_all cfg o g K hK hs cd v t wf h).1

/-- **C01.1, strict form**: whenever the detected type contains no overflowed literal
    (no string of `MAX_STRING_LENGTH` or more characters was seen), the value lies in it strictly. -/
theorem detect_inh_strict {cfg : GenCfg} {o : GenOracles} {K : String → Prop}
    (hK : ∀ k ∈ cfg.reg.types, K k) (hs : HashSoundOn true o.accepts (fun _ => none) (Ty.Good K))
    {cd : Bool} {v : Json} {t : Ty} (wf : Json.WF v) (h : detect cfg o cd v = .ok t) (hn : Ty.NoOv t) :
    Inh o.accepts (fun _ => none) t v :=
  inhX_false_iff.1 (InhX.strict (by simp) (detect_inh_partial hK hs wf h) hn)

/-- what `detect` returns is a generator-stage type (`Ty.Raw`: `Good`, no `DOptional`, not a `DUnion`) -/
theorem detect_raw {cfg : GenCfg} {o : GenOracles} {g : ModelLookup} {K : String → Prop}
    (hK : ∀ k ∈ cfg.reg.types, K k) (hs : HashSoundOn true o.accepts g (Ty.Good K))
    {cd : Bool} {v : Json} {t : Ty} (wf : Json.WF v) (h : detect cfg o cd v = .ok t) : Ty.Raw K t :=
  (detect_spec_all cfg o g K hK hs cd v t wf h).2

/-- non-vacuity of `Json.WF` -/
example : Json.WF (.obj [("a", .arr [.int 1, .null]), ("b", .str "x")]) := by
  simp [Json.WF, Json.WFKvs, Json.WFList]

/-- `Json.WF` is needed: with a repeated key (impossible after `json.load`) the field list keeps both
    entries and the second value is checked against the first field. -/
theorem detect_dup_keys :
    detect cfgW oW true (.obj [("a", .int 1), ("a", .null)]) = .ok (.obj [("a", .int), ("a", .null)]) ∧
    ¬ InhR oW.accepts (fun _ => none) (.obj [("a", .int), ("a", .null)]) (.obj [("a", .int 1), ("a", .null)]) := by
  refine ⟨rfl, ?_⟩
  intro h
  cases h with
  | obj a b c =>
    have := b ("a", .null) (by simp) .int (by simp [Fields.get?_consI])
    cases this

/-! ## 2. `DUnion.__init__` -/

/-- **C01.2** Every inhabitant of a (flattened) argument of `DUnion(*ts)` is an inhabitant of the union.
    `HashSoundX acc g ts` : equal hash strings ⇒ same inhabitants, for `str` and the flattened arguments. -/
theorem mkUnion_sound {acc : Accepts} {g : ModelLookup} {c : LitCfg} {ts : List Ty} {t : Ty} {v : Json}
    (hs : HashSoundX false acc g ts) (ht : t ∈ flattenUnion ts) (hi : Inh acc g t v) :
    Inh acc g (.union (mkUnionMembers c ts)) v :=
  inhX_false_iff.1 (J2M.mkUnion_sound hs ht (inhX_false_iff.2 hi))

/-- the same for the raw relation (an overflowed literal argument makes `str` a member) -/
theorem mkUnion_sound_raw {acc : Accepts} {g : ModelLookup} {c : LitCfg} {ts : List Ty} {t : Ty} {v : Json}
    (hs : HashSoundX true acc g ts) (ht : t ∈ flattenUnion ts) (hi : InhR acc g t v) :
    InhR acc g (.union (mkUnionMembers c ts)) v :=
  J2M.mkUnion_sound hs ht hi

/-- corollary: injectivity of `hashStr` on `str` and the members discharges `HashSoundX` -/
theorem mkUnion_sound_of_inj {acc : Accepts} {g : ModelLookup} {c : LitCfg} {ts : List Ty} {t : Ty} {v : Json}
    (inj : ∀ a b, a ∈ Ty.str :: flattenUnion ts → b ∈ Ty.str :: flattenUnion ts → hashStr a = hashStr b → a = b)
    (ht : t ∈ flattenUnion ts) (hi : Inh acc g t v) :
    Inh acc g (.union (mkUnionMembers c ts)) v :=
  mkUnion_sound (fun a b ha hb e v => by rw [inj a b ha hb e]) ht hi

/-- non-vacuity: a concrete member list on which `HashSoundX` holds and literals are folded -/
example : HashSoundX false (fun _ _ => some false) (fun _ => none)
    [.lit false ["a"], .int, .union [.lit false ["b"], .int]] := by
  intro a b ha hb e v
  simp [flattenUnion] at ha hb
  rcases ha with rfl | rfl | rfl | rfl | rfl <;> rcases hb with rfl | rfl | rfl | rfl | rfl <;>
    first | rfl | (exfalso; revert e; simp [hashStr, litRepr]; try decide)

/-! ## 3. `merge_field_sets`

History: before the repair of generator.py:155 (`field_original == field.type → continue`), merging
`{a: int}` with `{a: Optional[int]}` (in this order) gave `{a: int}`, so `{"a": null}` was lost — that was the
old `mergeFieldSets_witness`.  With the repaired `mergeOne` both orders give `{a: Optional[int]}`
(examples below) and **every value of every object of every input set is kept** (`mergeFieldSets_sound`).

What is still not true is the *strict* statement about required fields: `{a: int}` then `{a: Optional[str]}`
gives `{a: Union[Optional[str], int]}`, which is not a `DOptional` at the top (it is one after
`optimize_type`), so the object `{}` of the second set is not *strictly* in the merge
(`mergeFieldSets_witness`).  The full theorem therefore reads required fields laxly (`InhFieldsLax`: a field
may be absent when its type is `Ty.optLike`, i.e. a `DOptional` or a `DUnion` with a `DOptional` member). -/

/-- The full statement with the strict reading of required fields.
    It is STILL FALSE after the repair (for another reason than before): see `mergeFieldSets_witness` /
    `mergeFieldSets_sound_false`.  The true full statement is `mergeFieldSets_sound`. -/
def mergeFieldSets_sound_Statement : Prop :=
  ∀ (acc : Accepts) (g : ModelLookup) (K : String → Prop) (c : LitCfg) (e : EqEnv)
    (sets : List Fields) (F fs : Fields) (kvs : List (String × Json)),
    HashSoundOn false acc g (Ty.Good K) → EqSoundOn false acc g e (Ty.Good K) →
    (∀ m ∈ sets, Ty.Good K (.obj m)) →
    mergeFieldSets c e sets = .ok F → fs ∈ sets → InhFields acc g fs kvs → InhFields acc g F kvs

def eW : EqEnv := ⟨StrOracle.default, fun i => i, fun _ => none, 10⟩
/-- the same with one level of comparison (enough when the top-level classes differ; keeps `simp` cheap) -/
def eW1 : EqEnv := ⟨StrOracle.default, fun i => i, fun _ => none, 1⟩

/-- NEW behaviour (repaired generator.py:155): `{a: int}` then `{a: Optional[int]}` gives
    `{a: Optional[int]}` … -/
example : mergeFieldSets ⟨15, 20⟩ eW [[("a", .int)], [("a", .opt .int)]] = .ok [("a", .opt .int)] := by rfl

/-- … and so does the other order. -/
example : mergeFieldSets ⟨15, 20⟩ eW [[("a", .opt .int)], [("a", .int)]] = .ok [("a", .opt .int)] := by rfl

/-- Merging `{a: int}` with `{a: Optional[str]}` (in this order) gives `{a: Union[Optional[str], int]}`:
    the incoming `DOptional` becomes a *member* of the union (generator.py:157-160), the field is not a
    `DOptional`.  The object `{}` lies in the second set and not (strictly) in the result.
    (`optimize_type` turns the field into `Optional[Union[int, str]]` afterwards.) -/
theorem mergeFieldSets_witness (acc : Accepts) (g : ModelLookup) :
    mergeFieldSets ⟨15, 20⟩ eW1 [[("a", .int)], [("a", .opt .str)]] = .ok [("a", .union [.opt .str, .int])] ∧
    InhFields acc g [("a", .opt .str)] [] ∧
    ¬ InhFields acc g [("a", .union [.opt .str, .int])] [] := by
  refine ⟨?_, ⟨by simp, by simp, ?_⟩, ?_⟩
  · simp [mergeFieldSets, mergeFieldSets.go, mergeStep, mergeOne, Fields.get?, Fields.set, Fields.keys,
      Fields.has, Ty.isOpt, EqEnv.eq, eW1, pyEq, bind, Except.bind, pure, Except.pure, Ty.unionMembers,
      mkUnionMembers, flattenUnion, handleType, hashStr, Ty.isStr]
  · intro ft hft hno; simp at hft; subst hft; simp [Ty.isOpt] at hno
  · rintro ⟨_, _, h3⟩
    obtain ⟨kv, hkv, _⟩ := h3 ("a", .union [.opt .str, .int]) (by simp) rfl
    simp at hkv

/-- `==` is sound for pointer-free generator-stage types when no model lookup is available -/
theorem pyEq_sound {acc : Accepts} {g : ModelLookup} {K : String → Prop} (e : EqEnv)
    (he : e.look = fun _ => none) : EqSoundOn false acc g e (Ty.Good K) := J2M.pyEq_sound e he

theorem mergeFieldSets_sound_false
    (hash : ∃ (acc : Accepts) (g : ModelLookup) (K : String → Prop), HashSoundOn false acc g (Ty.Good K)) :
    ¬ mergeFieldSets_sound_Statement := by
  obtain ⟨acc, g, K, hs⟩ := hash
  intro h
  obtain ⟨hm, hin, hnot⟩ := mergeFieldSets_witness acc g
  refine hnot (h acc g K ⟨15, 20⟩ eW1 _ _ _ _ hs (pyEq_sound eW1 rfl) ?_ hm (List.mem_cons_of_mem _ List.mem_cons_self) hin)
  intro m hm'
  simp at hm'
  rcases hm' with rfl | rfl <;> simp

/-- "object `kvs` lies in field dict `fs`", lax reading of required fields: as `InhFields`, but a field may
    also be absent when its type is a `DUnion` with a `DOptional` member (`Ty.optLike`;
    `Union[Optional[str], int]` *is* `Optional[Union[str, int]]` for Python's `typing`, and `optimize_type`
    rewrites it so). -/
def InhFieldsLax (acc : Accepts) (g : ModelLookup) (fs : Fields) (kvs : List (String × Json)) : Prop :=
  (∀ kv ∈ kvs, (Fields.get? fs kv.1).isSome = true) ∧
  (∀ kv ∈ kvs, ∀ t, Fields.get? fs kv.1 = some t → Inh acc g t kv.2) ∧
  (∀ ft ∈ fs, ft.2.optLike = false → ∃ kv ∈ kvs, kv.1 = ft.1)

theorem inhFieldsLX_false_iff {acc g fs kvs} : InhFieldsLX false acc g fs kvs ↔ InhFieldsLax acc g fs kvs := by
  simp [InhFieldsLX, InhFieldsLax, inhX_false_iff]

/-- the strict reading implies the lax one -/
theorem inhFields_toLax {acc g fs kvs} (h : InhFields acc g fs kvs) : InhFieldsLax acc g fs kvs :=
  ⟨h.1, h.2.1, fun ft hft hno => h.2.2 ft hft (Ty.isOpt_false_of_optLike hno)⟩

/-- the two readings agree on a field dict in which no field is a non-optional union with a `DOptional` member -/
theorem inhFieldsLax_toStrict {acc g fs kvs} (hopt : ∀ f ∈ fs, f.2.optLike = true → f.2.isOpt = true)
    (h : InhFieldsLax acc g fs kvs) : InhFields acc g fs kvs :=
  inhFieldsX_false_iff.1 ((inhFieldsLX_false_iff.2 h).toStrict hopt)

/-- **C01.3 (full).**  For field sets of generator-stage types — `DOptional` fields allowed, which is what
    `ModelRegistry._merge` passes —: if an object lies in one of the field sets, it lies in the merged set:
    every key of the object is a field of the merge, every value lies in the merged field's type, and every
    field of the merge that is not optional-like is present.  The hypothesis and the conclusion use the lax
    reading (`InhFieldsLax`), so the statement also covers input sets that contain
    `Union[Optional[..], ..]` fields; `inhFields_toLax` gives the hypothesis from the strict reading.
    Hypotheses: hash strings and `==` are sound on generator-stage types, the sets are such types. -/
theorem mergeFieldSets_sound {acc : Accepts} {g : ModelLookup} {K : String → Prop} {c : LitCfg}
    {e : EqEnv} {sets : List Fields} {F fs : Fields} {kvs : List (String × Json)}
    (hs : HashSoundOn false acc g (Ty.Good K)) (he : EqSoundOn false acc g e (Ty.Good K))
    (hgood : ∀ m ∈ sets, Ty.Good K (.obj m))
    (h : mergeFieldSets c e sets = .ok F) (hfs : fs ∈ sets) (hi : InhFieldsLax acc g fs kvs) :
    InhFieldsLax acc g F kvs := by
  have hsets : ∀ m ∈ sets, ∀ f ∈ m, Ty.Good K f.2 := fun m hm f hf => (Ty.good_obj.1 (hgood m hm)).2 f hf
  exact inhFieldsLX_false_iff.1
    ((mergeFieldSets_spec_lax mergeClosed_good hs he hsets h).2.2 fs hfs kvs (inhFieldsLX_false_iff.2 hi))

/-- **C01.3, strict conclusion** under a condition on the *result*: no merged field is a non-optional
    `DUnion` with a `DOptional` member (as in `mergeFieldSets_witness`).  No restriction on the input sets. -/
theorem mergeFieldSets_sound_strict {acc : Accepts} {g : ModelLookup} {K : String → Prop} {c : LitCfg}
    {e : EqEnv} {sets : List Fields} {F fs : Fields} {kvs : List (String × Json)}
    (hs : HashSoundOn false acc g (Ty.Good K)) (he : EqSoundOn false acc g e (Ty.Good K))
    (hgood : ∀ m ∈ sets, Ty.Good K (.obj m))
    (h : mergeFieldSets c e sets = .ok F) (hF : ∀ f ∈ F, f.2.optLike = true → f.2.isOpt = true)
    (hfs : fs ∈ sets) (hi : InhFields acc g fs kvs) : InhFields acc g F kvs :=
  inhFieldsLax_toStrict hF (mergeFieldSets_sound hs he hgood h hfs (inhFields_toLax hi))

/-- the values part alone, with the strict hypothesis: every key of the object is a field of the merge and
    its value lies in the merged field's type -/
theorem mergeFieldSets_sound_values {acc : Accepts} {g : ModelLookup} {K : String → Prop} {c : LitCfg}
    {e : EqEnv} {sets : List Fields} {F fs : Fields} {kvs : List (String × Json)}
    (hs : HashSoundOn false acc g (Ty.Good K)) (he : EqSoundOn false acc g e (Ty.Good K))
    (hgood : ∀ m ∈ sets, Ty.Good K (.obj m))
    (h : mergeFieldSets c e sets = .ok F) (hfs : fs ∈ sets) (hi : InhFields acc g fs kvs) :
    ∀ kv ∈ kvs, ∃ t, Fields.get? F kv.1 = some t ∧ Inh acc g t kv.2 := by
  obtain ⟨h1, h2, _⟩ := mergeFieldSets_sound hs he hgood h hfs (inhFields_toLax hi)
  intro kv hkv
  cases hg : Fields.get? F kv.1 with
  | none => have := h1 kv hkv; simp [hg] at this
  | some t => exact ⟨t, rfl, h2 kv hkv t hg⟩

/-- non-vacuity of `mergeFieldSets_sound` with `DOptional` fields in the input, on the witness above:
    `{}` lies laxly in the merge `{a: Union[Optional[str], int]}` -/
example (acc : Accepts) (g : ModelLookup) :
    (∀ m ∈ [[("a", Ty.int)], [("a", Ty.opt .str)]], Ty.Good (fun _ => True) (.obj m)) ∧
    InhFieldsLax acc g [("a", .union [.opt .str, .int])] [] := by
  refine ⟨?_, by simp, by simp, ?_⟩
  · intro m hm; simp at hm; rcases hm with rfl | rfl <;> simp
  · intro ft hft hno; simp at hft; subst hft
    simp [Ty.optLike, Ty.unionMembers, Ty.isOpt] at hno

/-! ### the refined lax reading

Since `_optimize_union` splices the unions hidden under `Optional` members, `Ty.optLike` is too coarse a test
for "`optimize_type` makes this field a `DOptional`": `Union[Optional[Union[]]]` is `Ty.optLike` and is
optimised to `Null` (`optimize_optLike_isOpt_false`).  `Ty.optLikeS` (Proofs/MergeRho.lean: a `DOptional`, or a
`DUnion` with a `DOptional` member, at least two members and no `DUnion` member — what `merge_field_sets`
builds) is the test that `optimize_type` honours; `merge_field_sets` is sound for the lax reading with
this test as well (`mergeFieldSets_soundS`), which is what "merge, then optimise" uses. -/

/-- as `InhFieldsLax`, with the refined test `Ty.optLikeS` for "this field may be absent" -/
def InhFieldsLaxS (acc : Accepts) (g : ModelLookup) (fs : Fields) (kvs : List (String × Json)) : Prop :=
  (∀ kv ∈ kvs, (Fields.get? fs kv.1).isSome = true) ∧
  (∀ kv ∈ kvs, ∀ t, Fields.get? fs kv.1 = some t → Inh acc g t kv.2) ∧
  (∀ ft ∈ fs, ft.2.optLikeS = false → ∃ kv ∈ kvs, kv.1 = ft.1)

theorem inhFieldsLXS_false_iff {acc g fs kvs} : InhFieldsLXS false acc g fs kvs ↔ InhFieldsLaxS acc g fs kvs := by
  simp [InhFieldsLXS, InhFieldsLaxS, inhX_false_iff]

/-- the strict reading implies the refined lax one … -/
theorem inhFields_toLaxS {acc g fs kvs} (h : InhFields acc g fs kvs) : InhFieldsLaxS acc g fs kvs :=
  ⟨h.1, h.2.1, fun ft hft hno => h.2.2 ft hft (Ty.isOpt_false_of_optLikeS hno)⟩

/-- … which implies the lax one -/
theorem inhFieldsLaxS_toLax {acc g fs kvs} (h : InhFieldsLaxS acc g fs kvs) : InhFieldsLax acc g fs kvs :=
  inhFieldsLX_false_iff.1 (inhFieldsLXS_false_iff.2 h).toLX

/-- **C01.3 (full), refined lax reading**: as `mergeFieldSets_sound`, with `Ty.optLikeS` as the test for "may be
    absent" in hypothesis and conclusion. -/
theorem mergeFieldSets_soundS {acc : Accepts} {g : ModelLookup} {K : String → Prop} {c : LitCfg}
    {e : EqEnv} {sets : List Fields} {F fs : Fields} {kvs : List (String × Json)}
    (hs : HashSoundOn false acc g (Ty.Good K)) (he : EqSoundOn false acc g e (Ty.Good K))
    (hgood : ∀ m ∈ sets, Ty.Good K (.obj m))
    (h : mergeFieldSets c e sets = .ok F) (hfs : fs ∈ sets) (hi : InhFieldsLaxS acc g fs kvs) :
    InhFieldsLaxS acc g F kvs := by
  have hsets : ∀ m ∈ sets, ∀ f ∈ m, Ty.Good K f.2 := fun m hm f hf => (Ty.good_obj.1 (hgood m hm)).2 f hf
  exact inhFieldsLXS_false_iff.1
    ((mergeFieldSets_spec_laxS mergeClosed_good hs he hsets h).2.2 fs hfs kvs (inhFieldsLXS_false_iff.2 hi))

/-- non-vacuity on the witness above: `{}` lies in the merge `{a: Union[Optional[str], int]}` under the refined
    lax reading too -/
example (acc : Accepts) (g : ModelLookup) : InhFieldsLaxS acc g [("a", .union [.opt .str, .int])] [] := by
  refine ⟨by simp, by simp, ?_⟩
  intro ft hft hno; simp at hft; subst hft
  revert hno; decide

/-- **C01.3 (partial: no field of an input set is a `DOptional`; strict reading).**
    If an object lies in one of the field sets, it lies in the merged set.
    Hypotheses: hash strings and `==` are sound on generator-stage types, the sets are such types. -/
theorem mergeFieldSets_sound_partial {acc : Accepts} {g : ModelLookup} {K : String → Prop} {c : LitCfg}
    {e : EqEnv} {sets : List Fields} {F fs : Fields} {kvs : List (String × Json)}
    (hs : HashSoundOn false acc g (Ty.Good K)) (he : EqSoundOn false acc g e (Ty.Good K))
    (hgood : ∀ m ∈ sets, Ty.Good K (.obj m))
    (hnoopt : ∀ m ∈ sets, ∀ f ∈ m, f.2.isOpt = false)
    (h : mergeFieldSets c e sets = .ok F) (hfs : fs ∈ sets) (hi : InhFields acc g fs kvs) :
    InhFields acc g F kvs := by
  have hsets : ∀ m ∈ sets, ∀ f ∈ m, Ty.Good K f.2 ∧ f.2.isOpt = false :=
    fun m hm f hf => ⟨(Ty.good_obj.1 (hgood m hm)).2 f hf, hnoopt m hm f hf⟩
  exact inhFieldsX_false_iff.1
    ((mergeFieldSets_spec mergeClosed_good hs he hsets h).2.2 fs hfs kvs (inhFieldsX_false_iff.2 hi))

/-- the merged field dict is again a generator-stage type (input sets may contain `DOptional` fields) -/
theorem mergeFieldSets_good_opt {acc : Accepts} {g : ModelLookup} {K : String → Prop} {c : LitCfg}
    {e : EqEnv} {sets : List Fields} {F : Fields}
    (hs : HashSoundOn false acc g (Ty.Good K)) (he : EqSoundOn false acc g e (Ty.Good K))
    (hgood : ∀ m ∈ sets, Ty.Good K (.obj m))
    (h : mergeFieldSets c e sets = .ok F) : Ty.Good K (.obj F) := by
  have hsets : ∀ m ∈ sets, ∀ f ∈ m, Ty.Good K f.2 := fun m hm f hf => (Ty.good_obj.1 (hgood m hm)).2 f hf
  obtain ⟨nd, hP, _⟩ := mergeFieldSets_spec_lax mergeClosed_good hs he hsets h
  exact Ty.good_obj.2 ⟨nd, hP⟩

/-- the merged field dict is again a generator-stage type -/
theorem mergeFieldSets_good {acc : Accepts} {g : ModelLookup} {K : String → Prop} {c : LitCfg}
    {e : EqEnv} {sets : List Fields} {F : Fields}
    (hs : HashSoundOn false acc g (Ty.Good K)) (he : EqSoundOn false acc g e (Ty.Good K))
    (hgood : ∀ m ∈ sets, Ty.Good K (.obj m)) (_hnoopt : ∀ m ∈ sets, ∀ f ∈ m, f.2.isOpt = false)
    (h : mergeFieldSets c e sets = .ok F) : Ty.Good K (.obj F) :=
  mergeFieldSets_good_opt hs he hgood h

/-- non-vacuity of the structural hypotheses (a key missing from one set becomes optional) -/
example : (∀ m ∈ [[("a", Ty.int), ("b", Ty.str)], [("a", Ty.float)]], Ty.Good (fun _ => True) (.obj m)) ∧
    (∀ m ∈ [[("a", Ty.int), ("b", Ty.str)], [("a", Ty.float)]], ∀ f ∈ m, f.2.isOpt = false) ∧
    mergeFieldSets ⟨15, 20⟩ eW [[("a", Ty.int), ("b", Ty.str)], [("a", Ty.float)]] =
      .ok [("a", .union [.float, .int]), ("b", .opt .str)] := by
  refine ⟨?_, ?_, ?_⟩
  · intro m hm; simp at hm; rcases hm with rfl | rfl <;> simp
  · intro m hm f hf; simp at hm
    rcases hm with rfl | rfl <;> simp at hf
    · rcases hf with rfl | rfl <;> rfl
    · subst hf; rfl
  · simp [mergeFieldSets, mergeFieldSets.go, mergeStep, mergeOne, Fields.get?, Fields.set, Fields.keys,
      Fields.has, EqEnv.eq, eW, pyEq, Ty.isOpt, Ty.unionMembers, bind, Except.bind, pure, Except.pure,
      List.foldlM, mkUnionMembers, flattenUnion, handleType, hashStr, Ty.isStr]

/-! ## 4. `optimize_type` -/

/-- **`resolve_covers`**: every input kind reaches, through `replaces` steps, a kind of the result.
    Needs an acyclic `replaces` relation (`ReplacesRanked`). -/
theorem resolve_covers {reg : StrRegistry} (hrank : ReplacesRanked reg) {fuel : Nat} {ts r : List String}
    (h : resolve reg ts fuel = .ok r) {k : String} (hk : k ∈ ts) : ∃ k' ∈ r, ReplStar reg k k' :=
  J2M.resolve_covers hrank fuel ts r h k hk

/-- with a `replaces` cycle both kinds of the cycle are dropped and nothing covers them -/
example : resolve ⟨["a", "b", "c"], [("a", "b"), ("b", "a")], []⟩ ["a", "b", "c"] 5 = .ok ["c"] := by rfl

/-- The full statement.  Before the repair of generator.py:155 it was FALSE (the old `optimize_witness`: the
    union of `{a: int}` and `{a: Optional[int]}` was optimised to `{a: int}`, losing `{"a": null}`).
    It is now TRUE: `optimize_sound` / `optimize_sound_Statement_true`. -/
def optimize_sound_Statement : Prop :=
  ∀ (acc : Accepts) (g : ModelLookup) (K : String → Prop) (cfg : GenCfg) (e : EqEnv) (fuel : Nat)
    (t t' : Ty) (v : Json),
    HashSoundOn false acc g (Ty.Good K) → EqSoundOn false acc g e (Ty.Good K) →
    ReplacesSound acc cfg.reg → ReplacesRanked cfg.reg → Ty.Good K t →
    optimize cfg e fuel t = .ok t' → Inh acc g t v → Inh acc g t' v

/-- NEW behaviour (repaired generator.py:155): the union of `{a: int}` and `{a: Optional[int]}` is optimised
    to `{a: Optional[int]}` (it was `{a: int}`). -/
example : optimize cfgW eW 5 (.union [.obj [("a", .int)], .obj [("a", .opt .int)]]) =
    .ok (.obj [("a", .opt .int)]) := by rfl

/-- **C01.4 (full).** `optimize_type` keeps every inhabitant of every generator-stage type — inline objects
    below a union may have `DOptional` fields (no `Ty.MergeSafe` restriction any more).
    Inside, `_optimize_union` merges the inline objects (`mergeFieldSets_sound`, lax reading) and optimises the
    merged object's fields, which turns every optional-like field (`Union[Optional[str], int]`) into a
    `DOptional` (`optimize_optLike_isOpt_partial`), restoring the strict reading. -/
theorem optimize_sound {acc : Accepts} {g : ModelLookup} {K : String → Prop} {cfg : GenCfg}
    {e : EqEnv} {fuel : Nat} {t t' : Ty} {v : Json}
    (hs : HashSoundOn false acc g (Ty.Good K)) (he : EqSoundOn false acc g e (Ty.Good K))
    (hrep : ReplacesSound acc cfg.reg) (hrank : ReplacesRanked cfg.reg)
    (hg : Ty.Good K t)
    (h : optimize cfg e fuel t = .ok t') (hi : Inh acc g t v) : Inh acc g t' v :=
  inhX_false_iff.1
    (((optimize_spec_all hs he hrep hrank fuel).1 t t' hg h).2.2.covers v (inhX_false_iff.2 hi))

theorem optimize_sound_Statement_true : optimize_sound_Statement :=
  fun _ _ _ _ _ _ _ _ _ hs he hrep hrank hg h hi => optimize_sound hs he hrep hrank hg h hi

/-- The former statement of `optimize_sound_lax` (lax reading with `Ty.optLike`).  It was true for the old
    category split; it is FALSE since `_optimize_union` splices hidden unions: `optimize_sound_lax_false`. -/
def optimize_sound_lax_Statement : Prop :=
  ∀ (acc : Accepts) (g : ModelLookup) (K : String → Prop) (cfg : GenCfg) (e : EqEnv) (fuel : Nat)
    (fs : Fields) (t' : Ty) (kvs : List (String × Json)),
    HashSoundOn false acc g (Ty.Good K) → EqSoundOn false acc g e (Ty.Good K) →
    ReplacesSound acc cfg.reg → ReplacesRanked cfg.reg → Ty.Good K (.obj fs) →
    optimize cfg e fuel (.obj fs) = .ok t' → InhFieldsLax acc g fs kvs → Inh acc g t' (.obj kvs)

/-- The former statement of `optimize_optLike_isOpt` (with `Ty.optLike`): FALSE now, `optimize_optLike_isOpt_false`. -/
def optimize_optLike_isOpt_Statement : Prop :=
  ∀ (acc : Accepts) (g : ModelLookup) (K : String → Prop) (cfg : GenCfg) (e : EqEnv) (fuel : Nat) (t t' : Ty),
    HashSoundOn false acc g (Ty.Good K) → EqSoundOn false acc g e (Ty.Good K) →
    ReplacesSound acc cfg.reg → ReplacesRanked cfg.reg → Ty.Good K t →
    optimize cfg e fuel t = .ok t' → t.optLike = true → t'.isOpt = true

/-- the witness: `Union[Optional[Union[]]]` (a `DUnion` with a `DOptional` member) is optimised to `Null` — the
    empty union under the `Optional` is spliced away and `Null` is the only entry left —, and
    `{a: Union[Optional[Union[]]]}` to `{a: Null}` -/
theorem optimize_degenerate_witness :
    optimize cfgW eW1 4 (.union [.opt (.union [])]) = .ok .null ∧
    optimize cfgW eW1 4 (.obj [("a", .union [.opt (.union [])])]) = .ok (.obj [("a", .null)]) := by
  constructor <;>
  simp [optimize, optimizeUnion, splitMembers, splitMembersAux, Ty.size, Ty.sizeList, Ty.isInt, Ty.isFloat,
    bind, Except.bind, pure, Except.pure]

theorem replacesSound_cfgW (acc : Accepts) : ReplacesSound acc cfgW.reg := by
  intro a b hab; simp [cfgW] at hab

theorem replacesRanked_cfgW : ReplacesRanked cfgW.reg :=
  ⟨fun _ => 0, by intro p hp; simp [cfgW] at hp⟩

theorem optimize_optLike_isOpt_false
    (hash : ∃ (acc : Accepts) (g : ModelLookup) (K : String → Prop), HashSoundOn false acc g (Ty.Good K)) :
    ¬ optimize_optLike_isOpt_Statement := by
  obtain ⟨acc, g, K, hs⟩ := hash
  intro h
  have := h acc g K cfgW eW1 4 _ _ hs (pyEq_sound eW1 rfl) (replacesSound_cfgW acc) replacesRanked_cfgW
    (by simp) optimize_degenerate_witness.1 (by decide)
  simp [Ty.isOpt] at this

theorem optimize_sound_lax_false
    (hash : ∃ (acc : Accepts) (g : ModelLookup) (K : String → Prop), HashSoundOn false acc g (Ty.Good K)) :
    ¬ optimize_sound_lax_Statement := by
  obtain ⟨acc, g, K, hs⟩ := hash
  intro h
  have := h acc g K cfgW eW1 4 _ _ [] hs (pyEq_sound eW1 rfl) (replacesSound_cfgW acc) replacesRanked_cfgW
    (by simp) optimize_degenerate_witness.2 ⟨by simp, by simp, ?_⟩
  · -- `{}` does not lie in `{a: Null}`
    cases this with
    | obj _ _ h3 =>
      obtain ⟨kv, hkv, _⟩ := h3 ("a", .null) (by simp) rfl
      simp at hkv
  · intro ft hft hno; simp at hft; subst hft
    revert hno; decide

/-- `optimize_type` of an object also accepts the objects that lie in it *laxly* (refined lax reading: a field
    whose type is a `DUnion` with a `DOptional` member, a second member and no `DUnion` member may be absent):
    this is what makes "merge, then optimise" sound.
    (PARTIAL with respect to `optimize_sound_lax_Statement`: objects that omit a field whose type is
    `Ty.optLike` but not `Ty.optLikeS` — a degenerate `DUnion` such as `Union[Optional[Union[]]]` — are excluded;
    for them the statement is false, `optimize_sound_lax_false`.) -/
theorem optimize_sound_lax_partial {acc : Accepts} {g : ModelLookup} {K : String → Prop} {cfg : GenCfg}
    {e : EqEnv} {fuel : Nat} {fs : Fields} {t' : Ty} {kvs : List (String × Json)}
    (hs : HashSoundOn false acc g (Ty.Good K)) (he : EqSoundOn false acc g e (Ty.Good K))
    (hrep : ReplacesSound acc cfg.reg) (hrank : ReplacesRanked cfg.reg)
    (hg : Ty.Good K (.obj fs))
    (h : optimize cfg e fuel (.obj fs) = .ok t') (hi : InhFieldsLaxS acc g fs kvs) :
    Inh acc g t' (.obj kvs) :=
  inhX_false_iff.1
    (((optimize_spec_all hs he hrep hrank fuel).1 _ t' hg h).2.2 _ ⟨kvs, rfl, inhFieldsLXS_false_iff.2 hi⟩)

/-- a `DOptional`, or a `DUnion` with a `DOptional` member, a second member and no `DUnion` member
    (`Ty.optLikeS`) is optimised to a `DOptional`
    (PARTIAL with respect to `optimize_optLike_isOpt_Statement`, which is false for degenerate unions). -/
theorem optimize_optLike_isOpt_partial {acc : Accepts} {g : ModelLookup} {K : String → Prop} {cfg : GenCfg}
    {e : EqEnv} {fuel : Nat} {t t' : Ty}
    (hs : HashSoundOn false acc g (Ty.Good K)) (he : EqSoundOn false acc g e (Ty.Good K))
    (hrep : ReplacesSound acc cfg.reg) (hrank : ReplacesRanked cfg.reg)
    (hg : Ty.Good K t) (h : optimize cfg e fuel t = .ok t') (hl : t.optLikeS = true) : t'.isOpt = true :=
  ((optimize_spec_all hs he hrep hrank fuel).1 t t' hg h).2.1 hl

/-- non-vacuity of the hypothesis of `optimize_optLike_isOpt_partial` -/
example : (Ty.union [.opt .str, .int]).optLikeS = true ∧ Ty.Good (fun _ => True) (.union [.opt .str, .int]) := by
  exact ⟨by decide, by simp⟩

/-- **C01.3 + C01.4: "merge, then optimise" is sound, strictly** — what `ModelRegistry._merge` followed by
    `optimize_type(model_meta)` does with the field dicts of the merged models (which do contain `DOptional`
    fields): an object that lies (strictly) in one of the field sets lies (strictly) in the optimised merge. -/
theorem merge_then_optimize_sound {acc : Accepts} {g : ModelLookup} {K : String → Prop} {cfg : GenCfg}
    {e : EqEnv} {fuel : Nat} {sets : List Fields} {F fs : Fields} {t' : Ty} {kvs : List (String × Json)}
    (hs : HashSoundOn false acc g (Ty.Good K)) (he : EqSoundOn false acc g e (Ty.Good K))
    (hrep : ReplacesSound acc cfg.reg) (hrank : ReplacesRanked cfg.reg)
    (hgood : ∀ m ∈ sets, Ty.Good K (.obj m))
    (hm : mergeFieldSets cfg.lit e sets = .ok F) (ho : optimize cfg e fuel (.obj F) = .ok t')
    (hfs : fs ∈ sets) (hi : InhFields acc g fs kvs) : Inh acc g t' (.obj kvs) :=
  optimize_sound_lax_partial hs he hrep hrank (mergeFieldSets_good_opt hs he hgood hm) ho
    (mergeFieldSets_soundS hs he hgood hm hfs (inhFields_toLaxS hi))

/-- non-vacuity of `merge_then_optimize_sound` on the witness of `mergeFieldSets_witness`: the merge of
    `{a: int}` and `{a: Optional[str]}` is optimised to `{a: Optional[Union[int, str]]}`, which holds `{}` -/
example : optimize cfgW eW1 6 (.obj [("a", .union [.opt .str, .int])]) =
    .ok (.obj [("a", .opt (.union [.int, .str]))]) := by
  simp [optimize, optimizeUnion, splitMembers, splitMembersAux, Ty.size, Ty.isInt, Ty.isFloat,
    Ty.isStr, Ty.isUnknown,
    Ty.isNull, bind, Except.bind, pure, Except.pure, mkUnionMembers, flattenUnion, handleType, hashStr,
    cfgW]

/-- **C01.4 (the former partial form, kept as a corollary; the `Ty.MergeSafe` hypothesis is no longer used).** -/
theorem optimize_sound_partial {acc : Accepts} {g : ModelLookup} {K : String → Prop} {cfg : GenCfg}
    {e : EqEnv} {fuel : Nat} {t t' : Ty} {v : Json}
    (hs : HashSoundOn false acc g (Ty.Good K)) (he : EqSoundOn false acc g e (Ty.Good K))
    (hrep : ReplacesSound acc cfg.reg) (hrank : ReplacesRanked cfg.reg)
    (hg : Ty.Good K t) (_hm : Ty.MergeSafe false t)
    (h : optimize cfg e fuel t = .ok t') (hi : Inh acc g t v) : Inh acc g t' v :=
  optimize_sound hs he hrep hrank hg h hi

/-- the raw form: an overflowed literal in the input is read as "any string"; the result has none -/
theorem optimize_sound_raw_full {acc : Accepts} {g : ModelLookup} {K : String → Prop} {cfg : GenCfg}
    {e : EqEnv} {fuel : Nat} {t t' : Ty} {v : Json}
    (hs : HashSoundOn true acc g (Ty.Good K)) (he : EqSoundOn true acc g e (Ty.Good K))
    (hrep : ReplacesSound acc cfg.reg) (hrank : ReplacesRanked cfg.reg)
    (hg : Ty.Good K t)
    (h : optimize cfg e fuel t = .ok t') (hi : InhR acc g t v) :
    InhR acc g t' v ∧ Ty.NoOv t' ∧ Ty.Good K t' := by
  obtain ⟨hout, _, hcov⟩ := (optimize_spec_all hs he hrep hrank fuel).1 t t' hg h
  exact ⟨hcov.covers v hi, hout.2, hout.1⟩

/-- the raw form with the former `Ty.MergeSafe` hypothesis (unused) -/
theorem optimize_sound_raw {acc : Accepts} {g : ModelLookup} {K : String → Prop} {cfg : GenCfg}
    {e : EqEnv} {fuel : Nat} {t t' : Ty} {v : Json}
    (hs : HashSoundOn true acc g (Ty.Good K)) (he : EqSoundOn true acc g e (Ty.Good K))
    (hrep : ReplacesSound acc cfg.reg) (hrank : ReplacesRanked cfg.reg)
    (hg : Ty.Good K t) (_hm : Ty.MergeSafe false t)
    (h : optimize cfg e fuel t = .ok t') (hi : InhR acc g t v) :
    InhR acc g t' v ∧ Ty.NoOv t' ∧ Ty.Good K t' :=
  optimize_sound_raw_full hs he hrep hrank hg h hi

/-! ## 5. `generate` -/

/-- **C01 at generator level.** Every sample lies (strictly) in the type `generate` infers.
    * `Json.WF`: objects have distinct keys (what `json.load` yields);
    * `HashSoundOn true …`: equal hash strings ⇒ same (raw) inhabitants on generator-stage types
      — follows from injectivity of `hashStr` there (`HashSoundOn.of_inj`);
    * `ReplacesSound`: a replaced pseudo-type's strings are accepted by the replacing one;
    * `ReplacesRanked`: `replaces` is acyclic. -/
theorem generate_sound {cfg : GenCfg} {o : GenOracles} {K : String → Prop} {samples : List Json} {t : Ty}
    (wf : ∀ s ∈ samples, Json.WF s) (hK : ∀ k ∈ cfg.reg.types, K k)
    (hs : HashSoundOn true o.accepts (fun _ => none) (Ty.Good K))
    (hrep : ReplacesSound o.accepts cfg.reg) (hrank : ReplacesRanked cfg.reg)
    (h : generate cfg o samples = .ok t) {s : Json} (hmem : s ∈ samples) :
    Inh o.accepts (fun _ => none) t s := by
  obtain ⟨_, hno, hin⟩ := generate_spec wf hK hs hrep hrank h
  exact inhX_false_iff.1 (InhX.strict (by simp) (hin s hmem) hno)

/-- corollary with injectivity of the hash string on generator-stage types -/
theorem generate_sound_of_inj {cfg : GenCfg} {o : GenOracles} {K : String → Prop} {samples : List Json} {t : Ty}
    (wf : ∀ s ∈ samples, Json.WF s) (hK : ∀ k ∈ cfg.reg.types, K k)
    (inj : ∀ a b, Ty.Good K a → Ty.Good K b → hashStr a = hashStr b → a = b)
    (hrep : ReplacesSound o.accepts cfg.reg) (hrank : ReplacesRanked cfg.reg)
    (h : generate cfg o samples = .ok t) {s : Json} (hmem : s ∈ samples) :
    Inh o.accepts (fun _ => none) t s :=
  generate_sound wf hK (HashSoundOn.of_inj inj) hrep hrank h hmem

/-- `HashSoundOn` discharged by the injectivity theorem (`J2M/Proofs/HashInj.lean`): generator-stage types
    whose kind names are well-formed class names (`wfSerName`: non-empty, identifier characters, not
    `int/float/bool/str`) are `Ty.WFHash`, and `hashStr` is injective there. -/
theorem hashSoundOn_good {ov : Bool} {acc : Accepts} {g : ModelLookup} {K : String → Prop}
    (hK : ∀ k, K k → wfSerName k = true) : HashSoundOn ov acc g (Ty.Good K) := J2M.hashSoundOn_good hK

theorem good_wfHash {K : String → Prop} (hK : ∀ k, K k → wfSerName k = true) {t : Ty}
    (h : Ty.Good K t) : t.WFHash := h.toWFHash hK

/-- **C01 at generator level, no abstract hash hypothesis.**
    For every configuration whose registered pseudo-type class names are well-formed, every oracle with
    sound and acyclic `replaces`, and every list of well-formed JSON samples: if `generate` returns a type,
    every sample inhabits it (strict relation). -/
theorem generate_sound_names {cfg : GenCfg} {o : GenOracles} {samples : List Json} {t : Ty}
    (wf : ∀ s ∈ samples, Json.WF s)
    (hnames : ∀ k ∈ cfg.reg.types, wfSerName k = true)
    (hrep : ReplacesSound o.accepts cfg.reg) (hrank : ReplacesRanked cfg.reg)
    (h : generate cfg o samples = .ok t) {s : Json} (hmem : s ∈ samples) :
    Inh o.accepts (fun _ => none) t s :=
  generate_sound (K := fun k => k ∈ cfg.reg.types) wf (fun _ hk => hk) (hashSoundOn_good hnames)
    hrep hrank h hmem

/-- the generated type is a generator-stage type without overflowed literals -/
theorem generate_good {cfg : GenCfg} {o : GenOracles} {samples : List Json} {t : Ty}
    (wf : ∀ s ∈ samples, Json.WF s)
    (hnames : ∀ k ∈ cfg.reg.types, wfSerName k = true)
    (hrep : ReplacesSound o.accepts cfg.reg) (hrank : ReplacesRanked cfg.reg)
    (h : generate cfg o samples = .ok t) :
    Ty.Good (fun k => k ∈ cfg.reg.types) t ∧ Ty.NoOv t := by
  obtain ⟨hg, hno, _⟩ := generate_spec (K := fun k => k ∈ cfg.reg.types) wf (fun _ hk => hk)
    (hashSoundOn_good hnames) hrep hrank h
  exact ⟨hg, hno⟩

/-- **C01.1 without abstract hash hypothesis** (raw relation; see `detect_inh_false` for why not strict) -/
theorem detect_inh_names {cfg : GenCfg} {o : GenOracles} {g : ModelLookup}
    (hnames : ∀ k ∈ cfg.reg.types, wfSerName k = true)
    {cd : Bool} {v : Json} {t : Ty} (wf : Json.WF v) (h : detect cfg o cd v = .ok t) :
    InhR o.accepts g t v :=
  detect_inh_partial (K := fun k => k ∈ cfg.reg.types) (fun _ hk => hk) (hashSoundOn_good hnames) wf h

/-- **C01.1, strict form, without abstract hash hypothesis** -/
theorem detect_inh_strict_names {cfg : GenCfg} {o : GenOracles}
    (hnames : ∀ k ∈ cfg.reg.types, wfSerName k = true)
    {cd : Bool} {v : Json} {t : Ty} (wf : Json.WF v) (h : detect cfg o cd v = .ok t) (hn : Ty.NoOv t) :
    Inh o.accepts (fun _ => none) t v :=
  detect_inh_strict (K := fun k => k ∈ cfg.reg.types) (fun _ hk => hk) (hashSoundOn_good hnames) wf h hn

/-- **C01.2 without hash hypothesis**: for well-formed member types -/
theorem mkUnion_sound_wf {acc : Accepts} {g : ModelLookup} {c : LitCfg} {ts : List Ty} {t : Ty} {v : Json}
    (hwf : ∀ a ∈ flattenUnion ts, a.WFHash) (ht : t ∈ flattenUnion ts) (hi : Inh acc g t v) :
    Inh acc g (.union (mkUnionMembers c ts)) v := by
  refine mkUnion_sound_of_inj (fun a b ha hb e => ?_) ht hi
  have hw : ∀ x ∈ Ty.str :: flattenUnion ts, x.WFHash := by
    intro x hx
    rcases List.mem_cons.1 hx with rfl | hx
    · decide
    · exact hwf x hx
  exact HashInj.hashStr_inj_core a b (hw a ha) (hw b hb) e

/-- **C01.3 (partial) without hash / `==` hypotheses**: comparison without model lookup -/
theorem mergeFieldSets_sound_names {acc : Accepts} {g : ModelLookup} {K : String → Prop} {c : LitCfg}
    {e : EqEnv} {sets : List Fields} {F fs : Fields} {kvs : List (String × Json)}
    (hK : ∀ k, K k → wfSerName k = true) (he : e.look = fun _ => none)
    (hgood : ∀ m ∈ sets, Ty.Good K (.obj m))
    (hnoopt : ∀ m ∈ sets, ∀ f ∈ m, f.2.isOpt = false)
    (h : mergeFieldSets c e sets = .ok F) (hfs : fs ∈ sets) (hi : InhFields acc g fs kvs) :
    InhFields acc g F kvs :=
  mergeFieldSets_sound_partial (hashSoundOn_good hK) (pyEq_sound e he) hgood hnoopt h hfs hi

/-- **C01.3 (full) without hash / `==` hypotheses**: comparison without model lookup -/
theorem mergeFieldSets_sound_full_names {acc : Accepts} {g : ModelLookup} {K : String → Prop} {c : LitCfg}
    {e : EqEnv} {sets : List Fields} {F fs : Fields} {kvs : List (String × Json)}
    (hK : ∀ k, K k → wfSerName k = true) (he : e.look = fun _ => none)
    (hgood : ∀ m ∈ sets, Ty.Good K (.obj m))
    (h : mergeFieldSets c e sets = .ok F) (hfs : fs ∈ sets) (hi : InhFieldsLax acc g fs kvs) :
    InhFieldsLax acc g F kvs :=
  mergeFieldSets_sound (hashSoundOn_good hK) (pyEq_sound e he) hgood h hfs hi

/-- **C01.4 (full) without hash / `==` hypotheses** -/
theorem optimize_sound_full_names {acc : Accepts} {g : ModelLookup} {K : String → Prop} {cfg : GenCfg}
    {e : EqEnv} {fuel : Nat} {t t' : Ty} {v : Json}
    (hK : ∀ k, K k → wfSerName k = true) (he : e.look = fun _ => none)
    (hrep : ReplacesSound acc cfg.reg) (hrank : ReplacesRanked cfg.reg)
    (hg : Ty.Good K t)
    (h : optimize cfg e fuel t = .ok t') (hi : Inh acc g t v) : Inh acc g t' v :=
  optimize_sound (hashSoundOn_good hK) (pyEq_sound e he) hrep hrank hg h hi

/-- **"merge, then optimise" without hash / `==` hypotheses** -/
theorem merge_then_optimize_sound_names {acc : Accepts} {g : ModelLookup} {K : String → Prop} {cfg : GenCfg}
    {e : EqEnv} {fuel : Nat} {sets : List Fields} {F fs : Fields} {t' : Ty} {kvs : List (String × Json)}
    (hK : ∀ k, K k → wfSerName k = true) (he : e.look = fun _ => none)
    (hrep : ReplacesSound acc cfg.reg) (hrank : ReplacesRanked cfg.reg)
    (hgood : ∀ m ∈ sets, Ty.Good K (.obj m))
    (hm : mergeFieldSets cfg.lit e sets = .ok F) (ho : optimize cfg e fuel (.obj F) = .ok t')
    (hfs : fs ∈ sets) (hi : InhFields acc g fs kvs) : Inh acc g t' (.obj kvs) :=
  merge_then_optimize_sound (hashSoundOn_good hK) (pyEq_sound e he) hrep hrank hgood hm ho hfs hi

/-- **C01.4 (former partial form) without hash / `==` hypotheses** -/
theorem optimize_sound_names {acc : Accepts} {g : ModelLookup} {K : String → Prop} {cfg : GenCfg}
    {e : EqEnv} {fuel : Nat} {t t' : Ty} {v : Json}
    (hK : ∀ k, K k → wfSerName k = true) (he : e.look = fun _ => none)
    (hrep : ReplacesSound acc cfg.reg) (hrank : ReplacesRanked cfg.reg)
    (hg : Ty.Good K t) (hm : Ty.MergeSafe false t)
    (h : optimize cfg e fuel t = .ok t') (hi : Inh acc g t v) : Inh acc g t' v :=
  optimize_sound_partial (hashSoundOn_good hK) (pyEq_sound e he) hrep hrank hg hm h hi

/-- the two statements refuted above are false outright (hash soundness is available) -/
theorem mergeFieldSets_sound_Statement_false : ¬ mergeFieldSets_sound_Statement :=
  mergeFieldSets_sound_false ⟨fun _ _ => none, fun _ => none, fun _ => False,
    hashSoundOn_good (fun _ h => h.elim)⟩

theorem optimize_sound_lax_Statement_false : ¬ optimize_sound_lax_Statement :=
  optimize_sound_lax_false ⟨fun _ _ => none, fun _ => none, fun _ => False,
    hashSoundOn_good (fun _ h => h.elim)⟩

theorem optimize_optLike_isOpt_Statement_false : ¬ optimize_optLike_isOpt_Statement :=
  optimize_optLike_isOpt_false ⟨fun _ _ => none, fun _ => none, fun _ => False,
    hashSoundOn_good (fun _ h => h.elim)⟩

/-! ### non-vacuity: a concrete configuration, oracle and two samples

`"1"` is an `IntString`, `"1.5"` only a `FloatString` (resolved to `FloatString`); `[1, null]` and `[0.0]`
give `List[Optional[float]]`; `"hello"` and a 38-character string (overflowed literal) give `str`. -/

def regE : StrRegistry := ⟨["IntString", "FloatString"], [("IntString", "FloatString")], []⟩
def cfgE : GenCfg := ⟨⟨15, 20⟩, regE, [], []⟩
def accE : Accepts := fun k s =>
  if k == "IntString" then some (s == "1")
  else if k == "FloatString" then some (s == "1" || s == "1.5") else some false
def oE : GenOracles := ⟨accE, fun _ _ => some false, StrOracle.default⟩
def r1 : Json := .obj [("a", .str "1"), ("b", .arr [.int 1, .null]), ("d", .str "hello")]
def r2 : Json := .obj [("a", .str "1.5"), ("b", .arr [.float 0]),
  ("d", .str "a very long string, longer than twenty")]
def setsR : List Fields :=
  [[("a", .ser "IntString"), ("b", .list (.union [.int, .null])), ("d", .lit false ["hello"])],
   [("a", .ser "FloatString"), ("b", .list .float), ("d", .lit true [])]]
def fieldsR : Fields :=
  [("a", .union [.ser "FloatString", .ser "IntString"]),
   ("b", .union [.list .float, .list (.union [.int, .null])]),
   ("d", .str)]
def tyR : Ty := .obj [("a", .ser "FloatString"), ("b", .list (.opt .float)), ("d", .str)]

set_option maxRecDepth 4000 in
theorem ex_convert : List.mapM (convert cfgE oE) [r1, r2] = .ok setsR := by
  simp [r1, r2, setsR, cfgE, oE, regE, accE, convert, convertFields, detect, detectList, detectStr, detectStr.go,
    wrapElems, mkLit, mkUnionMembers, flattenUnion, handleType, hashStr, Ty.isStr,
    bind, Except.bind, pure, Except.pure]
  decide

set_option maxRecDepth 4000 in
theorem ex_merge : mergeFieldSets cfgE.lit (genEnv oE) setsR = .ok fieldsR := by
  simp [setsR, fieldsR, cfgE, genEnv,
    mergeFieldSets, mergeFieldSets.go, mergeStep, mergeOne, Fields.get?, Fields.set, Fields.keys, Fields.has,
    EqEnv.eq, pyEq, Ty.isOpt, Ty.unionMembers, bind, Except.bind, pure, Except.pure, List.foldlM,
    mkUnionMembers, flattenUnion, handleType, hashStr, hashStrs, Ty.isStr]

set_option maxRecDepth 8000 in
theorem ex_opt_a (n : Nat) : optimize cfgE (genEnv oE) (n + 5) (.union [.ser "FloatString", .ser "IntString"]) =
    .ok (.ser "FloatString") := by
  simp [cfgE, regE, genEnv, optimize, optimizeUnion, splitMembers, splitMembersAux, Ty.size,
    resolve, dedupStr, replacedIn, mkUnion,
    Ty.isInt, Ty.isFloat, Ty.isNull, Ty.isUnknown, Ty.isStr, bind, Except.bind, pure, Except.pure]

set_option maxRecDepth 8000 in
theorem ex_opt_b (n : Nat) :
    optimize cfgE (genEnv oE) (n + 6) (.union [.list .float, .list (.union [.int, .null])]) =
      .ok (.list (.opt .float)) := by
  simp [cfgE, regE, genEnv, optimize, optimizeUnion, splitMembers, splitMembersAux, Ty.size, Ty.sizeList,
    removeFirst, resolve, dedupStr, replacedIn,
    mkUnion, Ty.isInt, Ty.isFloat, Ty.isNull, Ty.isUnknown, Ty.isStr, bind, Except.bind, pure, Except.pure,
    mkUnionMembers, flattenUnion, handleType, hashStr]

theorem ex_optimize (n : Nat) : optimize cfgE (genEnv oE) (n + 7) (.obj fieldsR) = .ok tyR := by
  rw [optimize.eq_2]
  simp only [fieldsR, List.mapM_cons, List.mapM_nil, ex_opt_a (n + 1), ex_opt_b n]
  rfl

theorem ex_fuel : Ty.fuelFor (.obj fieldsR) = 123 + 7 := by
  simp [Ty.fuelFor, fieldsR, Ty.size, Ty.sizeFields, Ty.sizeList]

theorem ex_generate : generate cfgE oE [r1, r2] = .ok tyR := by
  rw [generate_eq, ex_convert]
  simp only [bind, Except.bind]
  rw [ex_merge]
  simp only [ex_fuel]
  exact ex_optimize 123

theorem ex_wf : ∀ s ∈ [r1, r2], Json.WF s := by
  intro s hs; simp at hs
  rcases hs with rfl | rfl <;> simp [r1, r2, Json.WF, Json.WFKvs, Json.WFList]

theorem ex_names : ∀ k ∈ cfgE.reg.types, wfSerName k = true := by decide

theorem ex_replacesSound : ReplacesSound oE.accepts cfgE.reg := by
  intro a b hab s
  simp [cfgE, regE] at hab
  obtain ⟨rfl, rfl⟩ := hab
  simp only [oE, accE]
  intro h
  have : s = "1" := by simpa using h
  subst this; rfl

theorem ex_replacesRanked : ReplacesRanked cfgE.reg :=
  ⟨fun k => if k == "IntString" then 0 else 1, by
    intro p hp; simp [cfgE, regE] at hp; subst hp; decide⟩

/-- all hypotheses of `generate_sound_names` hold for the instance, so both samples lie in `tyR` -/
example : Inh oE.accepts (fun _ => none) tyR r1 ∧ Inh oE.accepts (fun _ => none) tyR r2 :=
  ⟨generate_sound_names ex_wf ex_names ex_replacesSound ex_replacesRanked ex_generate (by simp),
   generate_sound_names ex_wf ex_names ex_replacesSound ex_replacesRanked ex_generate (by simp)⟩

/-- a second instance, checked by `rfl`: a key missing from the first sample becomes optional -/
example : generate cfgE oE
    [.obj [("a", .str "1"), ("b", .arr [.int 1]), ("c", .obj [("x", .int 1)])],
     .obj [("a", .str "1"), ("b", .arr [.int 2]), ("c", .obj [("x", .int 3)]), ("d", .null)]] =
    .ok (.obj [("a", .ser "IntString"), ("b", .list .int), ("c", .obj [("x", .int)]), ("d", .opt .null)]) := by
  rfl

end J2M.C01

#print axioms J2M.C01.detect_inh_false
#print axioms J2M.C01.detect_inh_partial
#print axioms J2M.C01.detect_inh_strict
#print axioms J2M.C01.mkUnion_sound
#print axioms J2M.C01.mkUnion_sound_of_inj
#print axioms J2M.C01.mergeFieldSets_witness
#print axioms J2M.C01.mergeFieldSets_sound_false
#print axioms J2M.C01.mergeFieldSets_sound_partial
#print axioms J2M.C01.mergeFieldSets_sound
#print axioms J2M.C01.mergeFieldSets_sound_strict
#print axioms J2M.C01.mergeFieldSets_sound_values
#print axioms J2M.C01.mergeFieldSets_good_opt
#print axioms J2M.C01.optimize_sound
#print axioms J2M.C01.optimize_sound_Statement_true
#print axioms J2M.C01.optimize_sound_lax_partial
#print axioms J2M.C01.optimize_sound_lax_false
#print axioms J2M.C01.optimize_optLike_isOpt_partial
#print axioms J2M.C01.optimize_optLike_isOpt_false
#print axioms J2M.C01.optimize_degenerate_witness
#print axioms J2M.C01.optimize_sound_lax_Statement_false
#print axioms J2M.C01.optimize_optLike_isOpt_Statement_false
#print axioms J2M.C01.mergeFieldSets_soundS
#print axioms J2M.C01.merge_then_optimize_sound
#print axioms J2M.C01.optimize_sound_raw_full
#print axioms J2M.C01.mergeFieldSets_sound_full_names
#print axioms J2M.C01.optimize_sound_full_names
#print axioms J2M.C01.merge_then_optimize_sound_names
#print axioms J2M.C01.pyEq_sound
#print axioms J2M.C01.resolve_covers
#print axioms J2M.C01.optimize_sound_partial
#print axioms J2M.C01.optimize_sound_raw
#print axioms J2M.C01.generate_sound
#print axioms J2M.C01.generate_sound_of_inj
#print axioms J2M.C01.generate_sound_names
#print axioms J2M.C01.detect_inh_names
#print axioms J2M.C01.mkUnion_sound_wf
#print axioms J2M.C01.mergeFieldSets_sound_names
#print axioms J2M.C01.optimize_sound_names
#print axioms J2M.C01.mergeFieldSets_sound_Statement_false
#print axioms J2M.C01.detect_inh_strict_names
#print axioms J2M.C01.detect_dup_keys
#print axioms J2M.C01.ex_generate
