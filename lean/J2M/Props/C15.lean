/-
  C15 — "Generation works from any thread and concurrent runs do not interfere"   (DESIGN §8.15)

  Model: `J2M.Runtime` — `CtxState` is the per-thread slot of `AbsoluteModelRef.Context.data.context`;
  a schedule is an interleaving of atomic steps, each touching only its own thread's slot
  (the private heap of a run — graph, generators, caches — is created inside the run and not shared).
  This is a theorem about that footprint discipline; that the code has no other shared mutable state is
  what the site inventory and the concurrent differential runs check.
  States are compared through `CtxState.get` (two states with the same slots in a different list order
  are the same store).
-/
import J2M.Proofs.Runtime
namespace J2M.C15
open J2M J2M.Runtime

/-! ## 1. `worker_thread_ok` -/

/--
  **C15.1** In the initial state every thread reads `none` — the class-level default — so no thread raises
  for a missing attribute.
  NOTE: the model follows the *repaired* code (`class _Local(threading.local): context = None`, a class-level
  default visible in every thread). Before the repair (`data = threading.local(); data.context = None`,
  executed once at import) only the importing thread had the attribute and `self.data.context` raised
  `AttributeError` in every other thread (§10-D11); in a model of that code the slot of a non-importing
  thread would be "unset" and this statement would be false.
-/
theorem worker_thread_ok (t : ThreadId) : ({} : CtxState).get t = none := rfl

/-- hence, in a fresh process, a render in *any* thread observes exactly `observe none body`,
    and leaves the slot at `none` -/
theorem worker_thread_render (t : ThreadId) (body : Body) :
    (exec t body {}).2 = observe none body ∧ (exec t body {}).1.get t = none := by
  refine ⟨by rw [exec_snd]; rfl, by rw [exec_get]; rfl⟩

/-! ## 2. `noninterference` -/

/--
  **C15.2** For every schedule and every thread `t`, the slot of `t` after the schedule is its slot after
  running only its own steps.
-/
theorem noninterference (s : CtxState) (steps : List Step) (t : ThreadId) :
    (runSchedule s steps).get t = (runSchedule s (steps.filter (·.thread == t))).get t :=
  runSchedule_get_filter steps t s s rfl

/-- the two start states need only agree on `t` -/
theorem noninterference' (s s' : CtxState) (steps : List Step) (t : ThreadId) (h : s.get t = s'.get t) :
    (runSchedule s steps).get t = (runSchedule s' (steps.filter (·.thread == t))).get t :=
  runSchedule_get_filter steps t s s' h

/-- closed form: the slot of `t` is `t`'s own last write, else its initial value -/
theorem slot_is_own_last_write (s : CtxState) (steps : List Step) (t : ThreadId) :
    (runSchedule s steps).get t
      = (((steps.filter (·.thread == t)).filterMap (·.write)).getLast?).getD (s.get t) :=
  runSchedule_get steps t s

/-- two schedules are interleavings of the same per-thread step lists -/
def SameProjections (a b : List Step) : Prop :=
  ∀ t, a.filter (·.thread == t) = b.filter (·.thread == t)

/-- **C15.2 corollary** Two interleavings of the same per-thread step lists leave every thread with the
    same slot. -/
theorem interleaving_irrelevant (s : CtxState) (a b : List Step) (h : SameProjections a b) (t : ThreadId) :
    (runSchedule s a).get t = (runSchedule s b).get t := by
  rw [noninterference s a t, noninterference s b t, h t]

/-- steps of different threads commute -/
theorem steps_commute (s : CtxState) (x y : Step) (h : x.thread ≠ y.thread) (t : ThreadId) :
    (applyStep (applyStep s x) y).get t = (applyStep (applyStep s y) x).get t := by
  have := interleaving_irrelevant s [x, y] [y, x] (by
    intro t'
    by_cases hx : x.thread = t' <;> by_cases hy : y.thread = t' <;>
      simp_all) t
  simpa [runSchedule] using this

/-- a 3-thread schedule and another interleaving of the same per-thread lists -/
def sched₁ : List Step :=
  [⟨1, some (some [("A", "P")])⟩, ⟨2, some (some [("B", "Q")])⟩, ⟨3, none⟩, ⟨1, some none⟩,
   ⟨3, some (some [("C", "R")])⟩, ⟨2, some (some [("B", "Q2")])⟩]
def sched₂ : List Step :=
  [⟨3, none⟩, ⟨3, some (some [("C", "R")])⟩, ⟨2, some (some [("B", "Q")])⟩, ⟨2, some (some [("B", "Q2")])⟩,
   ⟨1, some (some [("A", "P")])⟩, ⟨1, some none⟩]

example : (runSchedule {} sched₁).get 1 = none := by rfl
example : (runSchedule {} sched₁).get 2 = some [("B", "Q2")] := by rfl
example : (runSchedule {} sched₁).get 3 = some [("C", "R")] := by rfl
example : (runSchedule {} sched₁).get 4 = none := by rfl
example : (runSchedule {} (sched₁.filter (·.thread == 2))).get 2 = some [("B", "Q2")] := by rfl
example : (runSchedule {} sched₂).get 2 = some [("B", "Q2")] := by rfl

/-! ## 3. `exec_other_threads` -/

/--
  **C15.3** Running a body in thread `t` never changes what another thread reads (nor, by C14.1, what `t`
  itself reads afterwards): concurrent independent renders do not interfere through the context.
-/
theorem exec_other_threads (t t' : ThreadId) (body : Body) (s : CtxState) (_h : t' ≠ t) :
    (exec t body s).1.get t' = s.get t' :=
  exec_get t body s t'

/-- whole-body interleaving: whatever other threads rendered in between, a body observes what it
    observes alone -/
theorem render_after_others (hist : List (ThreadId × Body)) (t : ThreadId) (b : Body) (s : CtxState) :
    (exec t b (hist.foldl (fun s x => (exec x.1 x.2 s).1) s)).2 = (exec t b s).2 := by
  rw [exec_snd, exec_snd, history_get]

example : (exec 2 (.inject [("A", "B")] (.seq .read .raise)) ((({} : CtxState).set 1 (some [("K", "V")])))).1.get 1
    = some [("K", "V")] := by rfl

end J2M.C15
