/-
  C13 (structure part) — "a class is generated exactly for each non-dict-like object"   (DESIGN §8.13, theorem 4
  `no_class_for_dict`).

  `process_meta_data` (`processTy`) walks a type, registers one model for every inline field dict (`.obj` node,
  nested ones included) and replaces the node by a pointer.  Nothing else registers models before merging, and
  `detect` produces an `.obj` node exactly for the objects that are not dict-like (`C13.dict_iff`), so:
  number of models registered for a type = number of its `.obj` nodes = number of non-dict-like object positions.

  Vocabulary (`J2M/Proofs/RSoundProcess.lean`):
  * `objCount t` — number of `.obj` constructors of `t`, nested ones included;
  * `hasObj t`   — `t` contains an `.obj` constructor;
  * `objKeys t`  — the key lists of the `.obj` nodes of `t` in pre-order (a dict before the dicts below it, fields left
                   to right): the order in which `process_meta_data` registers them;
  * `newIdxs k n` — the `n` values `Index` hands out from counter value `k` on;
  * `Reg.Bounded g` — every registered index was handed out by the graph's own counter (true for every graph the
                   pipeline builds, `Reg.WF.bound`).
-/
import J2M.Proofs.RSoundProcess
import J2M.Props.C13
namespace J2M.C13S
open J2M J2M.Reg J2M.RSound

/-! ## 1. how many models -/

/-- **processTy_count** — for EVERY graph, parent and type: `process_meta_data` registers exactly `objCount t` new
    models (and advances the counter by as much), and the processed type contains no inline field dict. -/
theorem processTy_models_count (g : Graph) (pm : Option (String × String)) (t : Ty) :
    (processTy g pm t).1.models.length = g.models.length + objCount t ∧
    (processTy g pm t).1.counter = g.counter + objCount t ∧
    hasObj (processTy g pm t).2 = false :=
  processTy_count t g pm

/-- a type without inline field dicts registers nothing … -/
theorem no_obj_no_model (g : Graph) (pm : Option (String × String)) (t : Ty) (h : hasObj t = false) :
    (processTy g pm t).1.models.length = g.models.length := by
  rw [(processTy_count t g pm).1, (hasObj_iff t).1 h]; rfl

/-- … and a type with one registers at least one -/
theorem obj_some_model (g : Graph) (pm : Option (String × String)) (t : Ty) (h : hasObj t = true) :
    g.models.length < (processTy g pm t).1.models.length := by
  rw [(processTy_count t g pm).1]
  have : objCount t ≠ 0 := fun e => by rw [(hasObj_iff t).2 e] at h; cases h
  omega

/-- the top-level call `process_meta_data(meta, model_name)`: one model for the top-level dict (always a model,
    `C13.toplevel_always_model`) plus one per inline field dict below it -/
theorem processMetaData_models_count (g : Graph) (fields : Fields) (name : Option String) :
    (processMetaData g fields name).1.models.length = g.models.length + 1 + objCountFields fields := by
  rw [processMetaData_fst]
  have := (processTy_count (.obj fields) g none).1
  cases name with
  | none => simp only [this, objCount]; omega
  | some n => simp only [List.length_map, this, objCount]; omega

/-! ## 2. which models: the bijection between the new models and the `.obj` nodes -/

/-- **processTy_models** — for a graph whose indices come from its counter: the models after `process_meta_data` are
    the old ones followed by new ones, which are in bijection with the `.obj` nodes of `t` enumerated in pre-order:
    the `j`-th new model has index `indexOf (g.counter + j)` and its key list is the key list of the `j`-th node
    (`new.map idx = newIdxs …`, `new.map keys = objKeys t`, both of length `objCount t`). -/
theorem processTy_models {g : Graph} (hb : Bounded g) (pm : Option (String × String)) (t : Ty) :
    ∃ new : List Model, (processTy g pm t).1.models = g.models ++ new ∧
      new.length = objCount t ∧
      new.map (·.idx) = newIdxs g.counter (objCount t) ∧
      new.map (fun m => m.fields.map (·.1)) = objKeys t ∧
      (objKeys t).length = objCount t ∧
      hasObj (processTy g pm t).2 = false := by
  obtain ⟨new, hm, _, hn⟩ := processTy_new t g pm hb
  refine ⟨new, hm, ?_, hn.idx, hn.keys, objKeys_length t, (processTy_count t g pm).2.2⟩
  have := congrArg List.length hn.keys
  rw [List.length_map, objKeys_length] at this
  exact this

/-- the new indices are pairwise distinct and different from every old one: the correspondence is one-to-one -/
theorem processTy_models_distinct {g : Graph} (hb : Bounded g) (n : Nat) :
    (newIdxs g.counter n).Nodup ∧ ∀ i ∈ newIdxs g.counter n, i ∉ idxs g := by
  refine ⟨newIdxs_nodup _ _, fun i hi => ?_⟩
  obtain ⟨j, _, rfl⟩ := mem_newIdxs.1 hi
  exact hb.fresh (by omega)

/-- pointwise reading: the `j`-th `.obj` node (pre-order) with key list `ks` ↦ the model `indexOf (g.counter + j)`,
    which is registered and has exactly the keys `ks` -/
theorem processTy_model_of_node {g : Graph} (hb : Bounded g) (pm : Option (String × String)) (t : Ty)
    {j : Nat} {ks : List String} (h : (objKeys t)[j]? = some ks) :
    ∃ m ∈ (processTy g pm t).1.models, m.idx = indexOf (g.counter + j) ∧ m.fields.map (·.1) = ks := by
  obtain ⟨new, hm, hl, hi, hk, _, _⟩ := processTy_models hb pm t
  have hj : j < new.length := by
    have := (List.getElem?_eq_some_iff.1 h).1
    rw [objKeys_length] at this; omega
  refine ⟨new[j], by rw [hm]; exact List.mem_append_right _ (List.getElem_mem hj), ?_, ?_⟩
  · have := congrArg (fun l => l[j]?) hi
    simp only [List.getElem?_map, List.getElem?_eq_getElem hj, Option.map_some, newIdxs] at this
    rw [List.getElem?_eq_getElem (by simpa using (hl ▸ hj))] at this
    simpa using this
  · have := congrArg (fun l => l[j]?) hk
    simp only [List.getElem?_map, List.getElem?_eq_getElem hj, Option.map_some, h] at this
    simpa using this

/-! ## 3. with `C13.dict_iff`: a dict-like object contributes no model -/

/-- **dictlike_no_model**: a non-empty object that `detect` treats as dict-like becomes `Dict[str, T]`; processing it
    registers models only for the `.obj` nodes of the value type `T` — none for the object itself. -/
theorem dictlike_no_model {cfg : GenCfg} {o : GenOracles} {cd : Bool} {kv : String × Json}
    {kvs : List (String × Json)} {t : Ty}
    (h : detect cfg o cd (.obj (kv :: kvs)) = .ok t)
    (hd : C13.DictLike cfg o cd ((kv :: kvs).map (·.1))) (g : Graph) (pm : Option (String × String)) :
    ∃ T, t = .dict T ∧ (processTy g pm t).1.models.length = g.models.length + objCount T := by
  obtain ⟨_, h2, _⟩ := C13.dict_iff h
  obtain ⟨_, _, _, T, hT⟩ := h2 hd
  refine ⟨T, hT, ?_⟩
  rw [(processTy_count t g pm).1, hT]; rfl

/-- the empty object: `Dict[str, Any]`, no model -/
theorem empty_no_model (cfg : GenCfg) (o : GenOracles) (cd : Bool) (g : Graph) (pm : Option (String × String)) :
    ∃ t, detect cfg o cd (.obj []) = .ok t ∧ (processTy g pm t).1.models = g.models :=
  ⟨_, C13.dict_empty cfg o cd, by simp [processTy]⟩

/-- **model_iff_not_dictlike**: a non-empty object that is NOT dict-like becomes a field dict with the object's keys;
    processing registers one model for it — the first new one, index `indexOf g.counter`, whose keys are exactly the
    object's keys in order — plus the models of its fields. -/
theorem not_dictlike_one_model {cfg : GenCfg} {o : GenOracles} {cd : Bool} {kv : String × Json}
    {kvs : List (String × Json)} {t : Ty}
    (h : detect cfg o cd (.obj (kv :: kvs)) = .ok t)
    (hd : ¬ C13.DictLike cfg o cd ((kv :: kvs).map (·.1))) {g : Graph} (hb : Bounded g)
    (pm : Option (String × String)) :
    ∃ fs, t = .obj fs ∧
      (processTy g pm t).1.models.length = g.models.length + 1 + objCountFields fs ∧
      (processTy g pm t).2 = .ptr (indexOf g.counter) ∧
      ∃ m ∈ (processTy g pm t).1.models, m.idx = indexOf g.counter ∧ m.fields.map (·.1) = (kv :: kvs).map (·.1) := by
  obtain ⟨_, _, h3⟩ := C13.dict_iff h
  obtain ⟨fs, _, ht, hk⟩ := h3 hd
  subst ht
  refine ⟨fs, rfl, ?_, by rw [processTy_obj], ?_⟩
  · rw [(processTy_count _ g pm).1]; simp [objCount]; omega
  · have := processTy_model_of_node hb pm (.obj fs) (j := 0) (ks := fs.map (·.1)) (by simp [objKeys])
    rw [← hk]; simpa [Fields.keys] using this

/-- the detected type of a non-empty object is a mapping iff it is dict-like, so: the object gets a class of its own
    iff it is not dict-like -/
theorem own_model_iff {cfg : GenCfg} {o : GenOracles} {cd : Bool} {kv : String × Json}
    {kvs : List (String × Json)} {t : Ty}
    (h : detect cfg o cd (.obj (kv :: kvs)) = .ok t) (g : Graph) (pm : Option (String × String)) :
    (∃ i, (processTy g pm t).2 = .ptr i) ↔ ¬ C13.DictLike cfg o cd ((kv :: kvs).map (·.1)) := by
  obtain ⟨_, h2, h3⟩ := C13.dict_iff h
  constructor
  · rintro ⟨i, hi⟩ hd
    obtain ⟨_, _, _, T, hT⟩ := h2 hd
    rw [hT] at hi
    simp [processTy] at hi
  · intro hd
    obtain ⟨fs, _, ht, _⟩ := h3 hd
    exact ⟨indexOf g.counter, by rw [ht, processTy_obj]⟩

/-! ## non-vacuity -/

/-- `{"a": {"x": 1}, "d": {"1": {"y": 2}}, "l": [{"z": 3}]}`-shaped type: the value of `d` is a mapping whose values are
    objects — 4 `.obj` nodes, none for the mapping -/
def tyEx : Ty :=
  .obj [("a", .obj [("x", .int)]), ("d", .dict (.obj [("y", .int)])), ("l", .list (.obj [("z", .int)]))]

example : objCount tyEx = 4 ∧ objKeys tyEx = [["a", "d", "l"], ["x"], ["y"], ["z"]] := by decide

example : Bounded ({} : Graph) := by simp [Bounded]
-- … and a non-empty instance: the registry after one `process_meta_data` (so the theorem applies to the next call)
example : Bounded (processTy {} none tyEx).1 ∧ (processTy {} none tyEx).1.models.length = 4 :=
  ⟨(processTy_new tyEx {} none (by simp [Bounded])).choose_spec.2.1, rfl⟩

example : (processTy {} none tyEx).1.models.map (fun m => (m.idx, m.fields)) =
    [("1A", [("a", .ptr "1B"), ("d", .dict (.ptr "1C")), ("l", .list (.ptr "1D"))]),
     ("1B", [("x", .int)]), ("1C", [("y", .int)]), ("1D", [("z", .int)])] ∧
    (processTy {} none tyEx).2 = .ptr "1A" := by
  constructor <;> rfl

example : newIdxs 0 4 = ["1A", "1B", "1C", "1D"] := by decide +kernel

-- with the configuration of `Props/C13.lean`: numeric keys → mapping → no model for it
example : detect C13.cfgEx C13.oEx true (.obj [("1", .obj [("y", .int 2)])]) = .ok (.dict (.obj [("y", .int)])) ∧
    (processTy {} none (.dict (.obj [("y", .int)]))).1.models.map (·.idx) = ["1A"] := by
  constructor
  · simp [detect, detectVals, convertFields, anyRegexMatches, allKeysMatch, C13.cfgEx, C13.oEx, wrapElems, bind,
      Except.bind, pure, Except.pure]
  · rfl

end J2M.C13S

#print axioms J2M.C13S.processTy_models_count
#print axioms J2M.C13S.processTy_models
#print axioms J2M.C13S.processTy_models_distinct
#print axioms J2M.C13S.processTy_model_of_node
#print axioms J2M.C13S.dictlike_no_model
#print axioms J2M.C13S.not_dictlike_one_model
#print axioms J2M.C13S.own_model_iff
#print axioms J2M.C13S.no_obj_no_model
#print axioms J2M.C13S.obj_some_model
#print axioms J2M.C13S.processMetaData_models_count
