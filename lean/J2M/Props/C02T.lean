/-
  C02 — "Inferred types are tight: nothing is admitted that no sample exhibited" (DESIGN §8.2-5), the COMPOSED
  statement for the generator stage (`MetadataGenerator.generate`), position-wise.

  `Wit acc a u t vs` (defined in `J2M/Proofs/TightDef.lean`, restated clause by clause below as theorems
  `clause_*`) reads "the JSON values `vs` routed to one position justify the type `t` inferred there".
  `vs` is the multiset of values at the position: the samples at the root; `fieldVals k vs` (the values bound to
  key `k` in the objects among `vs`) at a field; `elemsOf vs` (the elements of the arrays among `vs`) below a
  `DList`; `valsOf vs` (the values of the objects among `vs`) below a `DDict`; the same `vs` below `DOptional`
  and for every `DUnion` member.  The flags are licences handed down by the enclosing constructor:
  `a` = "some object lacked this key", `u` = "the enclosing container was observed empty"; both are `False`
  at the root and for union members.

  Property text ↦ clause:
    * "a field is optional only if some object of its model lacked it or held null"      ↦ `clause_obj` + `clause_opt`
    * "a union member … appears only if some sample value at that position inhabits it"  ↦ `clause_union` (+ atoms)
    * "a list/dict element type appears only if …"                                       ↦ `clause_list`, `clause_dict`
    * "a Literal lists only strings that occurred there"                                 ↦ `clause_lit`
    * "Any appears only as the element type of a container that was observed empty (or holding only
       nulls)"                                                                           ↦ `clause_unknown`, `wit_list_any`,
                                                                                            `wit_list_opt_any`, `wit_union_no_any`
    * documented widenings: "int is absorbed by float" — `float` still needs an observed float (`clause_float`),
      only the `int` member disappears; "string literals overflow to str", "pseudo-types collapse to their common
      type or str" — `str` needs an observed string (`clause_str`), a pseudo-type needs an observed string that
      *its own* parser accepts (`clause_ser`: `resolve` returns one of the given kinds).

  Main theorem: `generate_tight` — for all samples (non-empty list), options and oracles, with no further
  hypothesis (no key-distinctness, no oracle totality, no acyclicity: when an oracle is missing or `resolve`
  fails, `generate` does not return `.ok`).
-/
import J2M.Proofs.TightGenerate
import J2M.Proofs.TightFits
import J2M.Props.C01
namespace J2M.C02T
open J2M J2M.Tight

variable {acc : Accepts} {a u : Prop} {vs : List Json}

/-! ## 1. The definition, clause by clause -/

/-- `int` needs an observed integer -/
theorem clause_int : Wit acc a u .int vs ↔ ∃ i, Json.int i ∈ vs := by simp only [Wit]
/-- `float` needs an observed float (an `int` next to it is absorbed — the `int` *member* disappears) -/
theorem clause_float : Wit acc a u .float vs ↔ ∃ x, Json.float x ∈ vs := by simp only [Wit]
theorem clause_bool : Wit acc a u .bool vs ↔ ∃ b, Json.bool b ∈ vs := by simp only [Wit]
/-- `Null` needs an observed `null` -/
theorem clause_null : Wit acc a u .null vs ↔ Json.null ∈ vs := by simp only [Wit]
/-- `str` (plain, overflowed literal, or several pseudo-types widened) needs an observed string -/
theorem clause_str : Wit acc a u .str vs ↔ ∃ s, Json.str s ∈ vs := by simp only [Wit]
/-- a pseudo-type needs an observed string that its parser accepts -/
theorem clause_ser {k : String} : Wit acc a u (.ser k) vs ↔ ∃ s, Json.str s ∈ vs ∧ acc k s = some true := by
  simp only [Wit]
/-- a `Literal` lists only strings that occurred (and at least one) -/
theorem clause_lit {ws : List String} :
    Wit acc a u (.lit false ws) vs ↔ ws ≠ [] ∧ ∀ w ∈ ws, Json.str w ∈ vs := by simp only [Wit]
/-- an overflowed `StringLiteral` (intermediate only: `optimize_type` turns it into `str`) is read as `str` -/
theorem clause_lit_overflowed {ws : List String} : Wit acc a u (.lit true ws) vs ↔ ∃ s, Json.str s ∈ vs := by
  simp only [Wit]
/-- `Unknown` (`Any`) is never witnessed by values: it needs the licence `u` of an enclosing empty container -/
theorem clause_unknown : Wit acc a u .unknown vs ↔ u := by simp only [Wit]
/-- `Optional[t]` needs an observed `null` (or, at a field, the licence `a`: a missing key), and `t` witnessed -/
theorem clause_opt {t : Ty} : Wit acc a u (.opt t) vs ↔ (a ∨ Json.null ∈ vs) ∧ Wit acc a u t vs := by
  simp only [Wit]
/-- every member of a (non-empty) `Union` is witnessed by the values at the position, without any licence -/
theorem clause_union {ts : List Ty} :
    Wit acc a u (.union ts) vs ↔ ts ≠ [] ∧ ∀ t ∈ ts, Wit acc False False t vs := wit_union
/-- the element type of a `List` is witnessed by the elements of the observed arrays; `Any` is licensed by an
    observed empty array -/
theorem clause_list {t : Ty} :
    Wit acc a u (.list t) vs ↔ Wit acc False (Json.arr [] ∈ vs) t (elemsOf vs) := by simp only [Wit]
/-- the same for `Dict` and the values of the observed objects -/
theorem clause_dict {t : Ty} :
    Wit acc a u (.dict t) vs ↔ Wit acc False (Json.obj [] ∈ vs) t (valsOf vs) := by simp only [Wit]
/-- a model (field dict): some observed object has only keys of the model, and every field type is witnessed by
    the values at its key — `Optional` being licensed there by an object lacking the key -/
theorem clause_obj {fs : List (String × Ty)} :
    Wit acc a u (.obj fs) vs ↔ HasObjWithin (fs.map (·.1)) vs ∧
      ∀ kv ∈ fs, Wit acc (LacksKey kv.1 vs) False kv.2 (fieldVals kv.1 vs) := wit_obj
/-- tuples and model pointers do not occur at the generator stage -/
theorem clause_tuple {ts : List Ty} : ¬ Wit acc a u (.tuple ts) vs := by simp only [Wit, not_false_eq_true]
theorem clause_ptr {i : String} : ¬ Wit acc a u (.ptr i) vs := by simp only [Wit, not_false_eq_true]

/-- the routing functions, by membership -/
theorem mem_elemsOf_iff {x : Json} : x ∈ elemsOf vs ↔ ∃ xs, Json.arr xs ∈ vs ∧ x ∈ xs := mem_elemsOf
theorem mem_valsOf_iff {x : Json} : x ∈ valsOf vs ↔ ∃ kvs, Json.obj kvs ∈ vs ∧ ∃ kv ∈ kvs, kv.2 = x := mem_valsOf
theorem mem_fieldVals_iff {k : String} {x : Json} :
    x ∈ fieldVals k vs ↔ ∃ kvs, Json.obj kvs ∈ vs ∧ (k, x) ∈ kvs := mem_fieldVals

/-! ### consequences for `Any` -/

/-- `List[Any]` needs an observed empty array -/
theorem wit_list_any : Wit acc a u (.list .unknown) vs ↔ Json.arr [] ∈ vs := by simp only [Wit]

/-- `List[Optional[Any]]` needs an observed empty array and a `null` element -/
theorem wit_list_opt_any :
    Wit acc a u (.list (.opt .unknown)) vs ↔ Json.null ∈ elemsOf vs ∧ Json.arr [] ∈ vs := by
  simp only [Wit, false_or]

/-- `Dict[str, Any]` needs an observed empty object -/
theorem wit_dict_any : Wit acc a u (.dict .unknown) vs ↔ Json.obj [] ∈ vs := by simp only [Wit]

/-- `Any` is never a union member, … -/
theorem wit_union_no_any {ts : List Ty} (h : Wit acc a u (.union ts) vs) : Ty.unknown ∉ ts := by
  intro hm
  have := (wit_union.1 h).2 _ hm
  simp only [Wit] at this

/-- … never a field type, and never below `Optional` at a field or at the root -/
theorem wit_field_no_any {fs : List (String × Ty)} {k : String} (h : Wit acc a u (.obj fs) vs) :
    (k, Ty.unknown) ∉ fs ∧ (k, Ty.opt .unknown) ∉ fs := by
  refine ⟨fun hm => ?_, fun hm => ?_⟩
  · have := (wit_obj.1 h).2 _ hm
    simp only [Wit] at this
  · have := (wit_obj.1 h).2 _ hm
    simp only [Wit] at this
    exact this.2

/-- (what turns "an empty container was observed" into "every container routed there was empty" is soundness,
    C01: `Unknown` admits nothing, so a value that lies in `List[Any]` is an empty array) -/
theorem inh_list_any {g : ModelLookup} {v : Json} (h : Inh acc g (.list .unknown) v) : v = .arr [] := by
  cases h with
  | list hx =>
    rename_i xs
    cases xs with
    | nil => rfl
    | cons x xs => exact nomatch hx x (List.mem_cons_self ..)

theorem inh_dict_any {g : ModelLookup} {v : Json} (h : Inh acc g (.dict .unknown) v) : v = .obj [] := by
  cases h with
  | dict hx =>
    rename_i kvs
    cases kvs with
    | nil => rfl
    | cons kv kvs => exact nomatch hx kv (List.mem_cons_self ..)

/-! ### routing: a witness only looks at the values its type structurally fits

`fits t v` (`J2M/Proofs/TightFits.lean`): `int`/`float`/`bool`/`Null` by JSON kind (an `int` does *not* fit
`float`), `str`/pseudo-types/literals for strings, `DList` for arrays, `DDict`/models for objects,
`Optional[t]` for `null` and what fits `t`, a union for what fits a member, `Unknown` for nothing. -/

/-- `Wit` is insensitive to the values that do not fit the type -/
theorem wit_routed {t : Ty} : Wit acc a u t vs ↔ Wit acc a u t (vs.filter (fits t)) := wit_fits

/-- every union member is witnessed by the sub-list of the values that the member itself accepts structurally -/
theorem clause_union_routed {ts : List Ty} (h : Wit acc a u (.union ts) vs) :
    ∀ m ∈ ts, Wit acc False False m (vs.filter (fits m)) := wit_union_routed h

/-- below `Optional`, a type that does not itself fit `null` (anything but `Null`, `Optional`, a union with such a
    member) is witnessed by the non-null values -/
theorem clause_opt_nonnull {t : Ty} (h : Wit acc a u (.opt t) vs) (hn : fits t .null = false) :
    Wit acc a u t (vs.filter (fun v => match v with | .null => false | _ => true)) := wit_opt_nonnull h hn

example : fits (.union [.int, .list .str]) (.arr []) = true ∧ fits .float (.int 1) = false ∧
    fits (.opt .int) .null = true ∧ fits (.lit false ["a"]) .null = false := by decide

/-! ## 2. Monotonicity: more values (and weaker licences) keep a witness -/

theorem wit_mono {t : Ty} {a' u' : Prop} {vs' : List Json} (ha : a → a') (hu : u → u')
    (hs : ∀ v ∈ vs, v ∈ vs') (h : Wit acc a u t vs) : Wit acc a' u' t vs' := Wit.mono t ha hu hs h

theorem wit_append {t : Ty} (ws : List Json) (h : Wit acc a u t vs) :
    Wit acc a u t (vs ++ ws) ∧ Wit acc a u t (ws ++ vs) := ⟨h.append_right ws, h.append_left ws⟩

/-! ## 3. The per-function lemmas -/

/-- **`detect_wit`**: a value witnesses its own detected type (`_detect_type`), for every option and oracle. -/
theorem detect_tight {cfg : GenCfg} {o : GenOracles} {cd : Bool} {v : Json} {t : Ty}
    (h : detect cfg o cd v = .ok t) : Wit o.accepts False False t [v] := detect_wit cfg o cd v t h

/-- **`mkUnion_wit`**: `DUnion(*ts)` of types witnessed by `vs` has only witnessed members (and at least one):
    folding keeps exactly observed literal values, overflow / `str` is witnessed by some observed string. -/
theorem mkUnion_tight {c : LitCfg} {ts : List Ty} (hne : ts ≠ [])
    (h : ∀ t ∈ ts, Wit acc False False t vs) :
    mkUnionMembers c ts ≠ [] ∧ ∀ m ∈ mkUnionMembers c ts, Wit acc False False m vs := mkUnion_wit hne h

/-- the same over appended value lists (the members of `as` seen on `vs`, those of `bs` on `ws`), collapsed as
    `merge_field_sets` does -/
theorem mkUnion_tight_append {c : LitCfg} {as bs : List Ty} {ws : List Json} (hne : as ++ bs ≠ [])
    (ha : ∀ t ∈ as, Wit acc False False t vs) (hb : ∀ t ∈ bs, Wit acc False False t ws) :
    Wit acc False False (J2M.collapse (mkUnionMembers c (as ++ bs))) (vs ++ ws) := mkUnion_wit_append hne ha hb

/-- the general form with an `Unknown` argument licensed by `u` (the element type of an observed empty list) -/
theorem mkUnion_tight_any {c : LitCfg} {ts : List Ty} (h : ∀ t ∈ ts, WitM acc u t vs) :
    ∀ m ∈ mkUnionMembers c ts, WitM acc u m vs := mkUnion_witM h

/-- **`mergeFieldSets_wit`**: for field sets each of which (`SetOK`) comes with an object among `vs` having only
    its keys, carries no `DOptional` at the top of a field (what `_convert` produces), and has every field type
    witnessed by the values at its key: the merged field dict is a witnessed model — in particular a field is
    `Optional` only if some object among `vs` lacks the key. -/
theorem mergeFieldSets_tight {c : LitCfg} {e : EqEnv} {sets : List Fields} {r : Fields}
    (h : mergeFieldSets c e sets = .ok r) (hne : sets ≠ []) (hs : ∀ fs ∈ sets, SetOK acc vs fs) :
    Wit acc a u (.obj r) vs := mergeFieldSets_wit h hne hs

/-- **`optimize_wit`**: on raw metadata (`C08P.Raw`: what `_detect_type` and `merge_field_sets` build),
    `optimize_type` keeps a witnessed type witnessed — same values, same licences, any fuel, any `==`. -/
theorem optimize_tight {cfg : GenCfg} {e : EqEnv} {fuel : Nat} {t t' : Ty}
    (hr : C08P.Raw cfg t = true) (hw : Wit acc a u t vs) (h : optimize cfg e fuel t = .ok t') :
    Wit acc a u t' vs := optimize_wit hr hw h

/-- `_optimize_union` on raw members that are witnessed, except possibly an `Unknown` licensed by `u` -/
theorem optimizeUnion_tight {cfg : GenCfg} {e : EqEnv} {fuel : Nat} {ms : List Ty} {t' : Ty}
    (hr : C08P.rawD cfg (.union ms) = true) (hw : ∀ m ∈ ms, WitM acc u m vs)
    (h : optimizeUnion cfg e fuel ms = .ok t') : Wit acc False u t' vs := optimizeUnion_wit hr hw h

/-! ## 4. The composed theorem -/

/-- **C02, composed (generator stage).**  Whatever the samples (at least one), the options and the oracles:
    the metadata `generate` returns is witnessed by the samples — position by position nothing is admitted
    that no routed sample value exhibited, up to the documented widenings. -/
theorem generate_tight {cfg : GenCfg} {o : GenOracles} {samples : List Json} {t : Ty}
    (hne : samples ≠ []) (h : generate cfg o samples = .ok t) : Wit o.accepts False False t samples :=
  generate_wit hne h

/-- the full statement of DESIGN §8.2-5 in its `Wit` form, as a proposition … -/
def C02_Tight : Prop :=
  ∀ (cfg : GenCfg) (o : GenOracles) (samples : List Json) (t : Ty),
    samples ≠ [] → generate cfg o samples = .ok t → Wit o.accepts False False t samples

/-- … which holds -/
theorem C02_tight : C02_Tight := fun _ _ _ _ hne h => generate_tight hne h

/-- read at one root field: the field type is witnessed by the values the samples hold at that key, and
    `Optional` is licensed only by a sample lacking the key -/
theorem generate_tight_field {cfg : GenCfg} {o : GenOracles} {samples : List Json} {fs : Fields}
    (hne : samples ≠ []) (h : generate cfg o samples = .ok (.obj fs)) {k : String} {t : Ty} (hm : (k, t) ∈ fs) :
    Wit o.accepts (LacksKey k samples) False t (fieldVals k samples) :=
  (wit_obj.1 (generate_tight hne h)).2 (k, t) hm

/-- "a field is optional only if some object of its model lacked it or held null" -/
theorem generate_tight_optional {cfg : GenCfg} {o : GenOracles} {samples : List Json} {fs : Fields}
    (hne : samples ≠ []) (h : generate cfg o samples = .ok (.obj fs)) {k : String} {t : Ty}
    (hm : (k, .opt t) ∈ fs) :
    (∃ kvs, Json.obj kvs ∈ samples ∧ k ∉ kvs.map (·.1)) ∨ (∃ kvs, Json.obj kvs ∈ samples ∧ (k, Json.null) ∈ kvs) := by
  have := generate_tight_field hne h hm
  simp only [Wit] at this
  rcases this.1 with h1 | h1
  · exact .inl h1
  · exact .inr (mem_fieldVals.1 h1)

/-- "a Literal lists only strings that occurred there" -/
theorem generate_tight_literal {cfg : GenCfg} {o : GenOracles} {samples : List Json} {fs : Fields}
    (hne : samples ≠ []) (h : generate cfg o samples = .ok (.obj fs)) {k : String} {ws : List String}
    (hm : (k, .lit false ws) ∈ fs ∨ (k, .opt (.lit false ws)) ∈ fs) :
    ∀ w ∈ ws, ∃ kvs, Json.obj kvs ∈ samples ∧ (k, Json.str w) ∈ kvs := by
  intro w hw
  rcases hm with hm | hm
  · have := generate_tight_field hne h hm
    simp only [Wit] at this
    exact mem_fieldVals.1 (this.2 w hw)
  · have := generate_tight_field hne h hm
    simp only [Wit] at this
    exact mem_fieldVals.1 (this.2.2 w hw)

/-- "a union member appears only if some sample value at that position inhabits it" (here: is a witness) -/
theorem generate_tight_member {cfg : GenCfg} {o : GenOracles} {samples : List Json} {fs : Fields}
    (hne : samples ≠ []) (h : generate cfg o samples = .ok (.obj fs)) {k : String} {ts : List Ty} {m : Ty}
    (hm : (k, .union ts) ∈ fs ∨ (k, .opt (.union ts)) ∈ fs) (hmem : m ∈ ts) :
    Wit o.accepts False False m (fieldVals k samples) ∧ m ≠ .unknown := by
  have hu : Wit o.accepts False False (.union ts) (fieldVals k samples) := by
    rcases hm with hm | hm
    · have := generate_tight_field hne h hm
      exact wit_union.2 (wit_union.1 this)
    · have := generate_tight_field hne h hm
      simp only [Wit] at this
      exact wit_union.2 ⟨this.2.1, witAll_iff.1 this.2.2⟩
  refine ⟨(wit_union.1 hu).2 m hmem, ?_⟩
  rintro rfl
  exact wit_union_no_any hu hmem

/-- "Any appears only as the element type of a container that was observed empty": a `List[Any]` field -/
theorem generate_tight_any {cfg : GenCfg} {o : GenOracles} {samples : List Json} {fs : Fields}
    (hne : samples ≠ []) (h : generate cfg o samples = .ok (.obj fs)) {k : String}
    (hm : (k, .list .unknown) ∈ fs) : ∃ kvs, Json.obj kvs ∈ samples ∧ (k, Json.arr []) ∈ kvs := by
  have := generate_tight_field hne h hm
  simp only [Wit] at this
  exact mem_fieldVals.1 this

/-! ### together with soundness (C01): *every* container routed to an `Any` position was empty

`Wit` asks for *an* observed empty container (that clause is monotone in the values; "all containers at the
position are empty" is false for `Dict[str, Any]` next to a model in one union — `[{"x": {}}, {"x": {"a": 1}}]`
gives `x: Union[X, Dict[str, Any]]`, also in the Python code).  That no non-empty container is *admitted* there
is soundness: `Unknown` admits nothing (`inh_list_any`), so with C01's `generate_sound_names`: -/

/-- a root field of type `List[Any]` (or `Optional[List[Any]]`): an empty list was observed at the key, and every
    sample that has the key holds an empty list (or `null`) there -/
theorem generate_any_all_empty {cfg : GenCfg} {o : GenOracles} {samples : List Json} {fs : Fields}
    (wf : ∀ s ∈ samples, Json.WF s) (hnames : ∀ k ∈ cfg.reg.types, wfSerName k = true)
    (hrep : ReplacesSound o.accepts cfg.reg) (hrank : ReplacesRanked cfg.reg)
    (hne : samples ≠ []) (h : generate cfg o samples = .ok (.obj fs)) {k : String}
    (hm : (k, .list .unknown) ∈ fs ∨ (k, .opt (.list .unknown)) ∈ fs) :
    (∃ kvs, Json.obj kvs ∈ samples ∧ (k, Json.arr []) ∈ kvs) ∧
    ∀ kvs, Json.obj kvs ∈ samples → ∀ v, (k, v) ∈ kvs → v = .arr [] ∨ v = .null := by
  have hnd : fs.keys.Nodup := by
    obtain ⟨sets, fields, fs', _, hmg, ht, hk⟩ := generate_ok h
    cases ht
    rw [hk, mergeFieldSets_keys hmg]
    exact nodup_dedupStr _
  refine ⟨?_, ?_⟩
  · rcases hm with hm | hm
    · exact generate_tight_any hne h hm
    · have := generate_tight_field hne h hm
      simp only [Wit] at this
      exact mem_fieldVals.1 this.2
  · intro kvs hs v hv
    have hi := C01.generate_sound_names wf hnames hrep hrank h hs
    cases hi with
    | obj _ h2 _ =>
      rcases hm with hm | hm
      · exact .inl (inh_list_any (h2 (k, v) hv _ (Fields.get?_of_mem_nodup hnd hm)))
      · have := h2 (k, v) hv _ (Fields.get?_of_mem_nodup hnd hm)
        cases this with
        | optNull => exact .inr rfl
        | optSome h3 => exact .inl (inh_list_any h3)

/-! ## 5. Non-vacuity -/

def cfgEx : GenCfg := { lit := ⟨10, 50⟩, reg := ⟨[], [], []⟩, dictFields := [], dictRegex := [] }
def oEx : GenOracles := ⟨fun _ _ => some false, fun _ _ => some false, StrOracle.default⟩

set_option linter.unusedSimpArgs false

/-! ### why the `Any` clause asks for *an* empty container, not for *all* containers being empty

The strict reading "`Dict[str, Any]` appears at a position only if every object observed there is empty" is
FALSE for the model and for the Python code: an empty object is detected as `DDict(Unknown)`, a non-empty one as
a model, and `_optimize_union` keeps both members.  `MetadataGenerator().generate({"x": {}}, {"x": {"a": 1}})`
returns `{'x': DUnion[{'a': int}, DDict[Unknown]]}` (confirmed on the real code). -/

def d1 : Json := .obj [("x", .obj [])]
def d2 : Json := .obj [("x", .obj [("a", .int 1)])]

theorem ex_dictAny_convert1 : convert cfgEx oEx d1 = .ok [("x", .dict .unknown)] := by
  simp +decide [d1, convert, detect, convertFields, cfgEx, oEx, bind, Except.bind, pure, Except.pure]
theorem ex_dictAny_convert2 : convert cfgEx oEx d2 = .ok [("x", .obj [("a", .int)])] := by
  simp +decide [d2, convert, detect, convertFields, cfgEx, oEx, anyRegexMatches, allKeysMatch, bind, Except.bind,
    pure, Except.pure]
theorem ex_dictAny_eq : (genEnv oEx).eq (.dict .unknown) (.obj [("a", .int)]) = .ok false := by
  simp [EqEnv.eq, genEnv, pyEq, pure, Except.pure]
theorem ex_dictAny_merge :
    mergeFieldSets cfgEx.lit (genEnv oEx) [[("x", .dict .unknown)], [("x", .obj [("a", .int)])]] =
      .ok [("x", .union [.obj [("a", .int)], .dict .unknown])] := by
  simp +decide [hashStrs, hashFields, mergeFieldSets, mergeFieldSets.go, mergeStep, mergeOne, Fields.get?,
    Fields.set, Fields.keys, Fields.has, Ty.isOpt, ex_dictAny_eq, bind, Except.bind, pure, Except.pure,
    Ty.unionMembers, mkUnionMembers, flattenUnion, handleType, hashStr, Ty.isStr, cfgEx, insertUniq, mkLit]
theorem ex_dictAny_optimize (n : Nat) :
    optimize cfgEx (genEnv oEx) (n + 6) (.union [.obj [("a", .int)], .dict .unknown]) =
      .ok (.union [.obj [("a", .int)], .dict .unknown]) := by
  simp +decide [optimize, C08P.optimizeUnion_eq, splitMembers, splitMembersAux, Ty.size, Ty.sizeList,
    cfgEx, C08P.stageMerge, C08P.stageInt,
    C08P.stageStr, C08P.stageList, C08P.stageDict, C08P.finishOpt, mkUnion, mkUnionMembers, flattenUnion,
    handleType, hashStr, hashStrs, hashFields, removeFirst, Ty.isStr, Ty.isInt, Ty.isFloat, Ty.isUnknown,
    Ty.isNull, bind, Except.bind, pure, Except.pure, insertUniq, mkLit, mergeFieldSets, mergeFieldSets.go,
    mergeStep, mergeOne, Fields.get?, Fields.set, Fields.keys, Fields.has, Ty.isOpt]

/-- `[{"x": {}}, {"x": {"a": 1}}]` ↦ `x: Union[{a: int}, Dict[str, Any]]` -/
theorem ex_dictAny_generate :
    generate cfgEx oEx [d1, d2] = .ok (.obj [("x", .union [.obj [("a", .int)], .dict .unknown])]) := by
  unfold generate
  simp only [List.mapM_cons, List.mapM_nil, ex_dictAny_convert1, ex_dictAny_convert2, bind, Except.bind, pure,
    Except.pure]
  have := ex_dictAny_merge
  simp only [genEnv] at this
  rw [this]
  show optimize cfgEx (genEnv oEx) (69 + 1) _ = _
  rw [optimize]
  simp only [List.mapM_cons, List.mapM_nil, ex_dictAny_optimize 63, bind, Except.bind, pure, Except.pure]

/-- the strict reading, as a proposition … -/
def dictAny_all_empty_Statement : Prop :=
  ∀ (cfg : GenCfg) (o : GenOracles) (samples : List Json) (fs : Fields) (k : String) (ts : List Ty),
    generate cfg o samples = .ok (.obj fs) → (k, .union ts) ∈ fs → Ty.dict .unknown ∈ ts →
    ∀ kvs, Json.obj kvs ∈ samples → ∀ kvs', (k, Json.obj kvs') ∈ kvs → kvs' = []

/-- … is false (the witnessed reading `generate_tight` holds for the same run: the empty object is there) -/
theorem dictAny_all_empty_false : ¬ dictAny_all_empty_Statement := by
  intro h
  have := h cfgEx oEx [d1, d2] _ "x" [.obj [("a", .int)], .dict .unknown] ex_dictAny_generate
    (List.mem_cons_self ..) (by simp) [("x", .obj [("a", .int 1)])] (by simp [d2]) [("a", .int 1)] (by simp)
  cases this

example : Wit oEx.accepts False False (.obj [("x", .union [.obj [("a", .int)], .dict .unknown])]) [d1, d2] :=
  generate_tight (by simp) ex_dictAny_generate



/-! ### the two-sample example -/

/-- `{"a": 1, "b": "x", "c": [], "d": [1, null]}` -/
def s1 : Json := .obj [("a", .int 1), ("b", .str "x"), ("c", .arr []), ("d", .arr [.int 1, .null])]
/-- `{"a": "y", "c": [], "d": []}` -/
def s2 : Json := .obj [("a", .str "y"), ("c", .arr []), ("d", .arr [])]

/-- `a: Union[int, Literal["y"]]`, `b: Optional[Literal["x"]]`, `c: List[Any]`, `d: List[Optional[int]]` -/
def TEx : Ty := .obj
  [("a", .union [.int, .lit false ["y"]]),
   ("b", .opt (.lit false ["x"])),
   ("c", .list .unknown),
   ("d", .list (.opt .int))]

def f1 : Fields :=
  [("a", .int), ("b", .lit false ["x"]), ("c", .list .unknown), ("d", .list (.union [.int, .null]))]
def f2 : Fields := [("a", .lit false ["y"]), ("c", .list .unknown), ("d", .list .unknown)]
def fm : Fields := [("a", .union [.int, .lit false ["y"]]), ("b", .opt (.lit false ["x"])), ("c", .list .unknown),
  ("d", .union [.list .unknown, .list (.union [.int, .null])])]

theorem ex_convert1 : convert cfgEx oEx s1 = .ok f1 := by
  simp +decide [s1, f1, convert, detect, detectList, convertFields, cfgEx, oEx, detectStr,
    detectStr.go, wrapElems, mkLit, mkUnionMembers, flattenUnion, handleType, hashStr, insertUniq, bind,
    Except.bind, pure, Except.pure, Ty.isStr]
theorem ex_convert2 : convert cfgEx oEx s2 = .ok f2 := by
  simp +decide [s2, f2, convert, detect, detectList, convertFields, cfgEx, oEx, detectStr,
    detectStr.go, wrapElems, mkLit, mkUnionMembers, flattenUnion, handleType, hashStr, insertUniq, bind,
    Except.bind, pure, Except.pure, Ty.isStr]

theorem ex_eq1 : (genEnv oEx).eq .int (.lit false ["y"]) = .ok false := by
  simp [EqEnv.eq, genEnv, pyEq, pure, Except.pure]
theorem ex_eq2 : (genEnv oEx).eq (.list .unknown) (.list .unknown) = .ok true := by
  simp [EqEnv.eq, genEnv, pyEq, pure, Except.pure]
theorem ex_eq3 : (genEnv oEx).eq (.list (.union [.int, .null])) (.list .unknown) = .ok false := by
  simp [EqEnv.eq, genEnv, pyEq, pure, Except.pure]

theorem ex_merge : mergeFieldSets cfgEx.lit (genEnv oEx) [f1, f2] = .ok fm := by
  have h1 : "y".length = 1 := by decide
  have h2 : "x".length = 1 := by decide
  simp +decide [hashStrs, f1, f2, fm, mergeFieldSets, mergeFieldSets.go, mergeStep, mergeOne, Fields.get?,
    Fields.set, Fields.keys, Fields.has, Ty.isOpt, ex_eq1, ex_eq2, ex_eq3, bind, Except.bind, pure, Except.pure,
    Ty.unionMembers, mkUnionMembers, flattenUnion, handleType, hashStr, Ty.isStr, cfgEx, insertUniq, mkLit, h1, h2]

theorem ex_opt_a (n : Nat) : optimize cfgEx (genEnv oEx) (n + 3) (.union [.int, .lit false ["y"]]) =
    .ok (.union [.int, .lit false ["y"]]) := by
  have h1 : "y".length = 1 := by decide
  simp +decide [optimize, C08P.optimizeUnion_eq, splitMembers, splitMembersAux, Ty.size, Ty.sizeList,
    cfgEx, C08P.stageMerge, C08P.stageInt,
    C08P.stageStr, C08P.stageList, C08P.stageDict, C08P.finishOpt, mkUnion, mkUnionMembers, flattenUnion,
    handleType, hashStr, hashStrs, removeFirst, Ty.isStr, Ty.isInt, Ty.isFloat, Ty.isUnknown, Ty.isNull, bind,
    Except.bind, pure, Except.pure, insertUniq, mkLit, h1]
theorem ex_opt_b (n : Nat) :
    optimize cfgEx (genEnv oEx) (n + 2) (.opt (.lit false ["x"])) = .ok (.opt (.lit false ["x"])) := by
  simp +decide [optimize, bind, Except.bind, pure, Except.pure]
theorem ex_opt_c (n : Nat) : optimize cfgEx (genEnv oEx) (n + 2) (.list .unknown) = .ok (.list .unknown) := by
  simp +decide [optimize, bind, Except.bind, pure, Except.pure]
/-- `Union[List[Unknown], List[Union[int, None]]]` ↦ `List[Optional[int]]`: lists merged, `Unknown` dropped,
    `Null` folded into `Optional` -/
theorem ex_opt_d (n : Nat) :
    optimize cfgEx (genEnv oEx) (n + 6) (.union [.list .unknown, .list (.union [.int, .null])]) =
      .ok (.list (.opt .int)) := by
  simp +decide [optimize, C08P.optimizeUnion_eq, splitMembers, splitMembersAux, Ty.size, Ty.sizeList,
    cfgEx, C08P.stageMerge, C08P.stageInt,
    C08P.stageStr, C08P.stageList, C08P.stageDict, C08P.finishOpt, mkUnion, mkUnionMembers, flattenUnion,
    handleType, hashStr, hashStrs, removeFirst, Ty.isStr, Ty.isInt, Ty.isFloat, Ty.isUnknown, Ty.isNull, bind,
    Except.bind, pure, Except.pure, insertUniq, mkLit]

theorem ex_optimize : optimize cfgEx (genEnv oEx) 160 (.obj fm) = .ok TEx := by
  show optimize cfgEx (genEnv oEx) (159 + 1) (.obj fm) = .ok TEx
  rw [optimize]
  simp only [fm, TEx, List.mapM_cons, List.mapM_nil, ex_opt_a 156, ex_opt_b 157, ex_opt_c 157, ex_opt_d 153, bind,
    Except.bind, pure, Except.pure]

/-- the model's `generate` on the two samples (the real `MetadataGenerator().generate` returns the same:
    `{'a': DUnion[int, StringLiteral["y"]], 'b': DOptional[StringLiteral["x"]], 'c': DList[Unknown],
      'd': DList[DOptional[int]]}`) -/
theorem ex_generate : generate cfgEx oEx [s1, s2] = .ok TEx := by
  unfold generate
  simp only [List.mapM_cons, List.mapM_nil, ex_convert1, ex_convert2, bind, Except.bind, pure, Except.pure]
  have := ex_merge
  simp only [genEnv] at this
  rw [this]
  exact ex_optimize

/-- **non-vacuity of `generate_tight`**: a two-sample input with a union, an `Optional`, a literal and an empty
    list; its generated type is witnessed — by the theorem … -/
theorem ex_tight : Wit oEx.accepts False False TEx [s1, s2] :=
  generate_tight (by simp) ex_generate

/-- … and by direct evaluation of the definition (every clause is exercised: `1` for `int`, `"y"`/`"x"` for the
    literals, the missing key `b` in the second sample for `Optional`, `[]` for `List[Any]`, the `null` element
    for `Optional[int]`) -/
example : Wit oEx.accepts False False TEx [s1, s2] := by
  rw [TEx, wit_obj]
  refine ⟨⟨_, List.mem_cons_self .., by simp⟩, ?_⟩
  intro kv hkv
  simp only [List.mem_cons, List.not_mem_nil, or_false] at hkv
  rcases hkv with rfl | rfl | rfl | rfl <;>
    simp [Wit, WitAll, s1, s2, LacksKey, fieldVals, elemsOf]

/-! ### negative examples: types that are NOT witnessed -/

/-- `Optional[int]` is not witnessed by `[1]`: no `null` was observed -/
theorem ex_not_opt : ¬ Wit acc False False (.opt .int) [.int 1] := by simp [Wit]

/-- at a field, `Optional[int]` is not witnessed when every object has the key and none holds `null` -/
theorem ex_not_opt_field :
    ¬ Wit acc False False (.obj [("a", .opt .int)]) [.obj [("a", .int 1)], .obj [("a", .int 2)]] := by
  simp [Wit, WitFields, LacksKey, fieldVals]

/-- … and it is as soon as one object lacks the key -/
example : Wit acc False False (.obj [("a", .opt .int)]) [.obj [("a", .int 1)], .obj []] := by
  simp [Wit, WitFields, LacksKey, fieldVals, HasObjWithin]

/-- `float` is not witnessed by an `int` alone -/
theorem ex_not_float : ¬ Wit acc False False .float [.int 1] := by simp [Wit]

/-- a `Literal` listing a string that did not occur is not witnessed -/
theorem ex_not_lit : ¬ Wit acc False False (.lit false ["a", "b"]) [.str "a"] := by simp [Wit]

/-- `List[Any]` is not witnessed without an observed empty list, … -/
theorem ex_not_list_any : ¬ Wit acc False False (.list .unknown) [.arr [.int 1]] := by simp [Wit]

/-- … `Any` is not witnessed as a union member even next to an empty list, … -/
theorem ex_not_union_any :
    ¬ Wit acc False False (.list (.union [.unknown, .int])) [.arr [], .arr [.int 1]] := by
  simp [Wit, WitAll]

/-- … a union member that no value exhibits is not witnessed, … -/
theorem ex_not_member : ¬ Wit acc False False (.union [.int, .str]) [.int 1] := by simp [Wit, WitAll]

/-- … a pseudo-type is not witnessed by a string its parser rejects, … -/
theorem ex_not_ser : ¬ Wit oEx.accepts False False (.ser "IntString") [.str "1"] := by simp [Wit, oEx]

/-- … and a bare `Any` is never witnessed at the root or at a field. -/
theorem ex_not_any : ¬ Wit acc False False .unknown vs := by simp [Wit]

/-- why `generate_tight` needs at least one sample: `generate()` of nothing is the empty model, which no
    object witnesses -/
theorem ex_no_samples : generate cfgEx oEx [] = .ok (.obj []) ∧ ¬ Wit acc False False (.obj []) [] := by
  constructor
  · rfl
  · simp [wit_obj, HasObjWithin]

/-- `SetOK` (hypothesis of `mergeFieldSets_tight`) is satisfiable: the converted first sample -/
example : SetOK oEx.accepts [s1, s2] f1 := by
  refine ⟨⟨_, List.mem_cons_self .., by simp [f1, Fields.keys]⟩, ?_⟩
  intro kv hkv
  simp only [f1, List.mem_cons, List.not_mem_nil, or_false] at hkv
  rcases hkv with rfl | rfl | rfl | rfl <;>
    simp [Ty.isOpt, Wit, WitAll, s1, s2, fieldVals, elemsOf]

/-- `C08P.Raw` (hypothesis of `optimize_tight`) holds for what `generate` optimises (here: the merged example) -/
example : C08P.Raw cfgEx (.obj fm) = true := by
  simp +decide [C08P.Raw, C08P.rawF, C08P.rawD, C08P.rawDList, fm, cfgEx, C08P.unionShape, nodupStr, hashStr,
    hashStrs, C08P.litRawOk, Ty.isBadLit, Ty.isUnion, Ty.isLit]

/-- the hypotheses of `optimizeUnion_tight` / `mkUnion_tight_any` are satisfiable with a licensed `Unknown`
    member: the element types of `[[], [1]]`; `_optimize_union` then drops the `Unknown` -/
example : C08P.rawD cfgEx (.union [.unknown, .int]) = true ∧
    (∀ m ∈ [Ty.unknown, Ty.int], WitM acc (Json.arr [] ∈ [Json.arr [], Json.arr [.int 1]]) m
      (elemsOf [Json.arr [], Json.arr [.int 1]])) ∧
    optimizeUnion cfgEx (genEnv oEx) 2 [.unknown, .int] = .ok .int := by
  refine ⟨by decide, ?_, ?_⟩
  · intro m hm
    simp only [List.mem_cons, List.not_mem_nil, or_false] at hm
    rcases hm with rfl | rfl
    · exact .inl ⟨rfl, by simp⟩
    · exact .inr (by simp [Wit, elemsOf])
  · simp +decide [optimize, C08P.optimizeUnion_eq, splitMembers, splitMembersAux, Ty.size, Ty.sizeList,
    cfgEx, C08P.stageMerge, C08P.stageInt,
      C08P.stageStr, C08P.stageList, C08P.stageDict, C08P.finishOpt, mkUnion, mkUnionMembers, flattenUnion,
      handleType, hashStr, hashStrs, removeFirst, Ty.isStr, Ty.isInt, Ty.isFloat, Ty.isUnknown, Ty.isNull, bind,
      Except.bind, pure, Except.pure, insertUniq, mkLit]

/-- non-vacuity of the hypotheses of `generate_any_all_empty` on the example (field `c: List[Any]`) -/
example : (∀ s ∈ [s1, s2], Json.WF s) ∧ (∀ k ∈ cfgEx.reg.types, wfSerName k = true) ∧
    ReplacesSound oEx.accepts cfgEx.reg ∧ ReplacesRanked cfgEx.reg ∧ ("c", Ty.list .unknown) ∈
      [("a", Ty.union [.int, .lit false ["y"]]), ("b", .opt (.lit false ["x"])), ("c", .list .unknown),
       ("d", .list (.opt .int))] := by
  refine ⟨?_, by simp [cfgEx], by intro a b h; simp [cfgEx] at h, ⟨fun _ => 0, by simp [cfgEx]⟩, by simp⟩
  intro s hs
  simp only [List.mem_cons, List.not_mem_nil, or_false] at hs
  rcases hs with rfl | rfl <;> simp [s1, s2, Json.WF, Json.WFKvs, Json.WFList]

end J2M.C02T
