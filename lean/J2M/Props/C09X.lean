/-
  C09/C01 — the registries the library ships (extracted from the code on every run: `J2M.Extracted`) against the pairs whose
  soundness the trusted base assumes (DESIGN §9 T4 `ReplacesSound`, `PydBridge`): the `replaces` relation of the default
  registry and of the registry with the date/time types contains no pair beyond "IntString is a particular case of
  FloatString". A change of the shipped registration (another `replace_types=…`) breaks these theorems.
-/
import J2M.Extracted
namespace J2M.C09X

/-- the pairs (replaced, replacing) for which the oracle facts T4 are assumed and tested -/
def soundPairs : List (String × String) := [("IntString", "FloatString")]

theorem default_replaces_sound : ∀ p ∈ Extracted.registryReplaces, p ∈ soundPairs := by decide

theorem datetime_replaces_sound : ∀ p ∈ Extracted.registryReplacesDatetime, p ∈ soundPairs := by decide

/-- detection order of the shipped registries: numbers and booleans first, then date, time, datetime -/
theorem default_registry_order : Extracted.registryTypes = ["IntString", "FloatString", "BooleanString"] := by decide

theorem datetime_registry_order :
    Extracted.registryTypesDatetime =
      ["IntString", "FloatString", "BooleanString", "IsoDateString", "IsoTimeString", "IsoDatetimeString"] := by decide

/-- the date/time types neither replace nor are replaced by anything: a field mixing two of them falls back to `str` -/
theorem datetime_types_unrelated :
    ∀ p ∈ Extracted.registryReplacesDatetime,
      p.1 ∉ ["IsoDateString", "IsoTimeString", "IsoDatetimeString"] ∧
      p.2 ∉ ["IsoDateString", "IsoTimeString", "IsoDatetimeString"] := by decide

example : ("IntString", "FloatString") ∈ Extracted.registryReplacesDatetime := by decide

end J2M.C09X
