/-
  Property C11 — "JSON keys survive renaming": facts about `prepare_label`, the blacklist, `Index`,
  `fix_name_duplicates`.
  Helper development: `J2M/Proofs/Names.lean`.

  `J2M.Extracted.blacklist` / `keywords` are regenerated from the Python modules on every check run, so the
  `decide +kernel` facts below are re-verified against the code's actual word lists each time.
-/
import J2M.Proofs.Names
namespace J2M.C11
open J2M.NamesP

/-! ### 1. the blacklist -/

/-- executable form of `∀ w ∈ bl, w ++ "_" ∉ bl` (`NamesP.blSuffixCheck`, on the UTF-8 bytes as numbers, which the
    kernel compares quickly; only words ending in `_` can be of the form `w ++ "_"`) -/
theorem blacklist_check : blSuffixCheck Extracted.blacklist = true := by decide +kernel

/-- the suffixing rule: the suffixed word is never itself blacklisted -/
def SuffixSafe (bl : List String) : Prop := ∀ w ∈ bl, w ++ "_" ∉ bl

/-- **blacklist_suffix_safe** (for the word list extracted from the code under test) -/
theorem blacklist_suffix_safe : SuffixSafe Extracted.blacklist := blSuffix_of_check blacklist_check

theorem keywords_check : subsetCheck Extracted.keywords Extracted.blacklist = true := by decide +kernel

/-- **keywords ⊆ blacklist**: a Python keyword is never emitted as an identifier -/
theorem keywords_blacklisted : ∀ k ∈ Extracted.keywords, k ∈ Extracted.blacklist :=
  subset_of_check keywords_check

/-- the names that generated modules import, and `self` -/
def importedNames : List String :=
  ["Any", "Dict", "List", "Literal", "Optional", "Tuple", "Union", "BaseModel", "Field", "SQLModel", "attr",
   "optional", "dataclass", "field", "ClassType", "convert_strings", "IntString", "FloatString", "BooleanString",
   "self"]

theorem imported_check : subsetCheck importedNames Extracted.blacklist = true := by decide +kernel

/-- **imported names are blacklisted**: no class or field can shadow an import of the generated module -/
theorem imported_blacklisted : ∀ k ∈ importedNames, k ∈ Extracted.blacklist :=
  subset_of_check imported_check

/-! ### 2./3. `prepare_label` -/

/-- **prepareLabel_not_blacklisted** -/
theorem prepareLabel_not_blacklisted {o : LabelOracles} {bl : List String} {cu snake : Bool} {s r : String}
    (hbl : SuffixSafe bl) (h : prepareLabel o bl cu snake s = .ok r) : r ∉ bl :=
  prepareLabel_not_blacklisted' hbl h

/-- with the real blacklist: a label is never a keyword, a builtin or an imported name -/
theorem prepareLabel_not_keyword {o : LabelOracles} {cu snake : Bool} {s r : String}
    (h : prepareLabel o Extracted.blacklist cu snake s = .ok r) :
    r ∉ Extracted.blacklist ∧ r ∉ Extracted.keywords ∧ r ∉ importedNames :=
  have hb := prepareLabel_not_blacklisted blacklist_suffix_safe h
  ⟨hb, fun hk => hb (keywords_blacklisted r hk), fun hk => hb (imported_blacklisted r hk)⟩

/-- hypothesis on `inflection.underscore`: a non-empty argument gives a non-empty result -/
abbrev UnderscoreNonempty := NamesP.UnderscoreNonempty

/-- **prepareLabel_nonempty** -/
theorem prepareLabel_nonempty {o : LabelOracles} {bl : List String} {cu snake : Bool} {s r : String}
    (hu : UnderscoreNonempty o) (h : prepareLabel o bl cu snake s = .ok r) : r ≠ "" :=
  prepareLabel_nonempty' hu h

/-- **prepareLabel_indexError** (`…_empty_label`): `IndexError` is raised exactly when the oracles answer and
    nothing is left after `unidecode` (if enabled) and `re.sub(r"\W", "", ·)`. -/
theorem prepareLabel_indexError {o : LabelOracles} {bl : List String} {cu snake : Bool} {s : String} :
    prepareLabel o bl cu snake s = .error .indexError ↔
      ∃ s1, (if cu then o.unidecode s else some s) = some s1 ∧ o.stripW s1 = some "" := by
  rw [prepareLabel_indexError_iff, labelHead_ok_iff]

/-- a small concrete oracle for the examples: identity transliteration, `\W` removal = dropping everything
    that is not an ASCII letter, digit or underscore, `underscore` = identity -/
def exOracles : LabelOracles where
  unidecode := some
  stripW := fun s => some (String.ofList (s.toList.filter (fun c => c.isAlphanum || c == '_')))
  underscore := some
  lowerAz := fun _ => some false

example : UnderscoreNonempty exOracles := fun s t h hs => by
  have : s = t := by simpa [exOracles] using h
  exact this ▸ hs
example : prepareLabel exOracles Extracted.blacklist true false "class" = .ok "class_" := by decide +kernel
example : prepareLabel exOracles ["class", "List"] true false "1st-place" = .ok "one_stplace" := by decide +kernel
example : prepareLabel exOracles ["class", "List"] true false "0x" = .ok "_x" := by decide +kernel
-- negative witness of the property text (empty label → IndexError)
example : prepareLabel exOracles ["class", "List"] true false "-- --" = .error .indexError := by decide +kernel

/-! ### 4. idempotence in class-name mode -/

/-- **label_idempotent**: in class-name mode (`to_snake_case = False`) the result `r` of `prepare_label` is a
    fixed point of `prepare_label`, provided the transliteration (when enabled) and the `\W` removal leave `r`
    alone (`r` consists of word characters; after `unidecode` it is ASCII).  The leading-digit rewriting is not
    applied a second time (`"one_…"`, `"_…"` for `0`) and a suffixed blacklist word stays as it is because
    `w_ ∉ blacklist`. -/
theorem label_idempotent {o : LabelOracles} {bl : List String} {cu : Bool} {s r : String}
    (hbl : SuffixSafe bl) (h : prepareLabel o bl cu false s = .ok r)
    (hU : cu = true → o.unidecode r = some r) (hS : o.stripW r = some r) :
    prepareLabel o bl cu false r = .ok r := label_idempotent' hbl h hU hS

-- the hypotheses hold for the example oracles at the label `class_`
example : (exOracles.unidecode "class_" = some "class_") ∧ exOracles.stripW "class_" = some "class_" := by
  decide +kernel
example : prepareLabel exOracles ["class", "List"] true false "class_" = .ok "class_" := by decide +kernel
example : prepareLabel exOracles ["class", "List"] true false "one_stplace" = .ok "one_stplace" := by decide +kernel

/-! ### 5. `Index` -/

/-- **indexOf_injective**: the registry indices `1A, …, 1Z, 2A, …` are pairwise distinct (all `n`, no bound) -/
theorem indexOf_injective {a b : Nat} (h : indexOf a = indexOf b) : a = b := indexOf_injective' h

/-- … and contain no underscore -/
theorem indexOf_no_underscore (n : Nat) : '_' ∉ (indexOf n).toList := NamesP.indexOf_no_underscore n

example : indexOf 0 = "1A" ∧ indexOf 25 = "1Z" ∧ indexOf 26 = "2A" ∧ indexOf 259 = "10Z" := by decide +kernel

/-! ### 6. `fix_name_duplicates` -/

abbrev Named := NamesP.Named
abbrev IdxDistinct := NamesP.IdxDistinct
abbrev IdxNoUnderscore := NamesP.IdxNoUnderscore
abbrev NoSuffixClash := NamesP.NoSuffixClash

/-- **fixNameDuplicates_spec**: when every model has a non-empty name, the first occurrence of a name keeps it and
    every later one gets `_<index>` appended (`fixSpec []`). -/
theorem fixNameDuplicates_first_keeps {ms : List Model} (h : Named ms) :
    fixNameDuplicates ms = fixSpec [] ms := fixNameDuplicates_spec h

/-- **fixNameDuplicates_distinct** (`class_names_distinct`): the resulting names are pairwise distinct, provided
    * `Named ms`: every model has a non-empty name (true after the first loop of `generate_names`),
    * `IdxDistinct ms`, `IdxNoUnderscore ms`: registry indices are pairwise distinct and contain no `_`
      (true for `Index` values: `indexOf_injective`, `indexOf_no_underscore`),
    * `NoSuffixClash ms`: no model is already called `<name>_<index>` for a (name, index) of the registry. -/
theorem fixNameDuplicates_distinct {ms : List Model}
    (hN : Named ms) (hD : IdxDistinct ms) (hU : IdxNoUnderscore ms) (hC : NoSuffixClash ms) :
    ((fixNameDuplicates ms).map (·.name)).Nodup := fixNameDuplicates_distinct' hN hD hU hC

def exModels : List Model :=
  [{ idx := "1A", fields := [], name := some "Item" }, { idx := "1B", fields := [], name := some "Item" },
   { idx := "1C", fields := [], name := some "Other" }, { idx := "1D", fields := [], name := some "Item" }]

example : Named exModels ∧ IdxDistinct exModels ∧ IdxNoUnderscore exModels ∧ NoSuffixClash exModels := by
  refine ⟨?_, ?_, ?_, ?_⟩
  · intro m hm; simp [exModels] at hm; rcases hm with rfl | rfl | rfl | rfl <;> simp
  · show (exModels.map (·.idx)).Nodup; decide
  · intro m hm; simp [exModels] at hm; rcases hm with rfl | rfl | rfl | rfl <;> decide
  · intro m hm m' hm'; simp [exModels] at hm hm'
    rcases hm with rfl | rfl | rfl | rfl <;> rcases hm' with rfl | rfl | rfl | rfl <;> decide
example : (fixNameDuplicates exModels).map (·.name) = [some "Item", some "Item_1B", some "Other", some "Item_1D"] := by
  decide

/-- the `NoSuffixClash` hypothesis cannot be dropped: a user-supplied name of the form `<name>_<index>` collides -/
example : (fixNameDuplicates
    [{ idx := "1A", fields := [], name := some "Item_1C" }, { idx := "1B", fields := [], name := some "Item" },
     { idx := "1C", fields := [], name := some "Item" }]).map (·.name) =
    [some "Item_1C", some "Item", some "Item_1C"] := by decide

end J2M.C11
