/-
  C03 / C11 (class names part) — TERMINATION of the `while True` loop of `_prepare_class_names` (models/base.py):

      while True:
          groups = <models by current name>;  duplicates = <models whose name is shared>
          if not duplicates: break
          for model in duplicates: model.set_raw_name(model.name_joiner(model.name, model.index))   # name + "_" + index

  Model: `dedupRound` / `dedupLoop idxs fuel names` (`J2M/Render.lean`), fuel `idxs.length * idxs.length + 1`,
  `.error .outOfFuel` when the fuel is exhausted (Python: the loop does not end).  `Props/C03N.lean` shows that the loop
  can only exit with pairwise distinct names; this file shows that it always exits on the structures the tool builds.
  Helper developments: `J2M/Proofs/DedupTerm.lean` (the loop), `DedupTermStruct.lean` (`preorder`, conversions, the
  structure built by `compose_models`), `DedupTermRender.lean` (`_generate_code` and the class generators never fail
  through fuel).

  The argument.  A renamed model `i` gets the token `"_" ++ i` appended, so at every later time its name is
  `name ++ ("_" ++ i)^a`.  Two models `i ≠ j` that share a name `s` in some round become `s_i…` and `s_j…`; because
  indices contain no underscore (`IdxShape`), `s ++ ("_" ++ i)^(a+1) = s ++ ("_" ++ j)^(b+1)` forces `i = j`
  (`renamed_apart`).  So an ordered pair of models shares a name in at most one round, every round but the last has a
  colliding pair, and there are at most `n * n` ordered pairs: at most `n * n + 1` rounds.

  1. `IdxShape`, `indexOf_shape`, `renamed_apart`.
  2. `dedupLoop_terminates` (+ `_of_keys`: names may be `None`; `_any_fuel`; `dedupLoop_fuel_irrelevant`).
  3. `prepareNames_total`, `prepareNames_error_iff`, `prepareNames_error_cases`.
  4. `generateCode_never_outOfFuel_flat` / `_nested` (the `prepareNames` step), `renderLevel_never_outOfFuel_flat` /
     `_nested`, `generateCode_never_outOfFuel` (the whole of `generate_code`), `nested_structure_nodup`.
  5. negative witnesses: `listed_twice_diverges` (a model listed twice: out of fuel for EVERY fuel), `dedupLoop_error`,
     and two listed models without an entry in the name table.
-/
import J2M.Proofs.DedupTermRender
import J2M.Props.C03N
import J2M.Props.C03T
import J2M.Props.C12
namespace J2M.C03W
open J2M J2M.Rend2 J2M.PrepNames J2M.DedupTerm

/-! ## 1. indices -/

/-- `IdxShape i`: the index contains no underscore.  This is all the termination argument needs of the shape
    "decimal digits followed by one capital letter" of the registry indices. -/
abbrev IdxShape (i : String) : Prop := DedupTerm.IdxShape i

instance (i : String) : Decidable (DedupTerm.IdxShape i) := inferInstanceAs (Decidable ('_' ∉ i.toList))

theorem idxShape_iff (i : String) : IdxShape i ↔ '_' ∉ i.toList := Iff.rfl

/-- **indexOf_shape**: every index handed out by the registry (`1A, 1B, …, 1Z, 2A, …`) has the shape -/
theorem indexOf_shape (k : Nat) : IdxShape (indexOf k) := DedupTerm.indexOf_shape k

example : indexOf 0 = "1A" ∧ indexOf 27 = "2B" ∧ IdxShape "1A" ∧ ¬ IdxShape "1_A" := by decide +kernel

/-- `a` copies of the token `"_" ++ i` -/
abbrev rep (i : String) (a : Nat) : String := DedupTerm.rep i a

example : rep "1A" 2 = "_1A_1A" := by decide +kernel

/-- **renamed_apart**: two different models that were renamed from one name `s` in the same round never carry the same
    name again, however often each of them is renamed later -/
theorem renamed_apart {i j : String} (hi : IdxShape i) (hj : IdxShape j) (hij : i ≠ j) (s : String) (a b : Nat) :
    s ++ "_" ++ i ++ rep i a ≠ s ++ "_" ++ j ++ rep j b := by
  intro h
  have := step_ext_ne (o := some s) hi hj hij a b
  unfold step at this
  rw [ext_some, ext_some] at this
  exact this (by simp only [Option.getD_some]; rw [h])

/-! ## 2. the loop ends -/

/-- `i` has an entry in the name table (its value may be `None`) -/
abbrev HasKey (N : NameMap) (i : String) : Prop := i ∈ N.map (·.1)

/-- **dedupLoop_terminates**: no model listed twice, indices without underscore, every listed model has a name — the
    loop ends within its fuel, for EVERY name table -/
theorem dedupLoop_terminates {idxs : List String} (hnd : idxs.Nodup) (hs : ∀ i ∈ idxs, IdxShape i)
    {names : NameMap} (hn : ∀ i ∈ idxs, ∃ n, nameOf names i = some n) :
    ∃ N, dedupLoop idxs (idxs.length * idxs.length + 1) names = .ok N :=
  dedupLoop_terminates_fuel hnd hs (fun i hi => by obtain ⟨n, h⟩ := hn i hi; exact hasKey_of_name h)
    (Nat.lt_succ_self _)

/-- the same when names may be `None` (they are renamed to `None_<index>`): an entry in the table suffices -/
theorem dedupLoop_terminates_of_keys {idxs : List String} (hnd : idxs.Nodup) (hs : ∀ i ∈ idxs, IdxShape i)
    {names : NameMap} (hk : ∀ i ∈ idxs, HasKey names i) :
    ∃ N, dedupLoop idxs (idxs.length * idxs.length + 1) names = .ok N :=
  dedupLoop_terminates_fuel hnd hs hk (Nat.lt_succ_self _)

/-- any fuel above `n * n` will do … -/
theorem dedupLoop_terminates_any_fuel {idxs : List String} (hnd : idxs.Nodup) (hs : ∀ i ∈ idxs, IdxShape i)
    {names : NameMap} (hk : ∀ i ∈ idxs, HasKey names i) {fuel : Nat} (hf : idxs.length * idxs.length < fuel) :
    ∃ N, dedupLoop idxs fuel names = .ok N :=
  dedupLoop_terminates_fuel hnd hs hk hf

/-- … and the result does not depend on it -/
theorem dedupLoop_fuel_irrelevant {idxs : List String} {fuel fuel' : Nat} {names N : NameMap} (hle : fuel ≤ fuel')
    (h : dedupLoop idxs fuel names = .ok N) : dedupLoop idxs fuel' names = .ok N :=
  dedupLoop_mono fuel fuel' names N hle h

/-- the final names: pairwise distinct (`C03N.dedupLoop_distinct`), and the loop ended -/
theorem dedupLoop_terminates_distinct {idxs : List String} (hnd : idxs.Nodup) (hs : ∀ i ∈ idxs, IdxShape i)
    {names : NameMap} (hn : ∀ i ∈ idxs, ∃ n, nameOf names i = some n) :
    ∃ N, dedupLoop idxs (idxs.length * idxs.length + 1) names = .ok N ∧
      ∀ i ∈ idxs, ∀ j ∈ idxs, i ≠ j → nameOf N i ≠ nameOf N j := by
  obtain ⟨N, h⟩ := dedupLoop_terminates hnd hs hn
  exact ⟨N, h, C03N.dedupLoop_distinct h⟩

/-! ### non-vacuity: three models, two renaming rounds -/

/-- after the first round `1A` (`X` → `X_1A`) collides with `1C` -/
def exNames : NameMap := [("1A", some "X"), ("1B", some "X"), ("1C", some "X_1A")]
def exIdxs : List String := ["1A", "1B", "1C"]

theorem exIdxs_shape : ∀ i ∈ exIdxs, IdxShape i := by
  intro i hi
  simp only [exIdxs, List.mem_cons, List.mem_nil_iff, or_false] at hi
  rcases hi with rfl | rfl | rfl <;> decide +kernel

theorem exNames_named : ∀ i ∈ exIdxs, ∃ n, nameOf exNames i = some n := by
  intro i hi
  simp only [exIdxs, List.mem_cons, List.mem_nil_iff, or_false] at hi
  rcases hi with rfl | rfl | rfl
  · exact ⟨"X", by decide +kernel⟩
  · exact ⟨"X", by decide +kernel⟩
  · exact ⟨"X_1A", by decide +kernel⟩

example := dedupLoop_terminates (idxs := exIdxs) (by decide) exIdxs_shape exNames_named

theorem ex_round1 : dedupRound exNames exIdxs =
    ([("1A", some "X_1A"), ("1B", some "X_1B"), ("1C", some "X_1A")], false) := by decide +kernel
theorem ex_round2 : dedupRound [("1A", some "X_1A"), ("1B", some "X_1B"), ("1C", some "X_1A")] exIdxs =
    ([("1A", some "X_1A_1A"), ("1B", some "X_1B"), ("1C", some "X_1A_1C")], false) := by decide +kernel
theorem ex_loop : dedupLoop exIdxs (exIdxs.length * exIdxs.length + 1) exNames =
    .ok [("1A", some "X_1A_1A"), ("1B", some "X_1B"), ("1C", some "X_1A_1C")] :=
  ok_of_toOption (by decide +kernel)
-- three models whose names are all the same: one renaming round
example : dedupLoop exIdxs 10 [("1A", some "X"), ("1B", some "X"), ("1C", some "X")] =
    .ok [("1A", some "X_1A"), ("1B", some "X_1B"), ("1C", some "X_1C")] := ok_of_toOption (by decide +kernel)
-- a model without a name
example : dedupLoop exIdxs 10 [("1A", none), ("1B", none), ("1C", some "None_1A")] =
    .ok [("1A", some "None_1A_1A"), ("1B", some "None_1B"), ("1C", some "None_1A_1C")] :=
  ok_of_toOption (by decide +kernel)
example := dedupLoop_terminates_of_keys (idxs := exIdxs) (names := [("1A", none), ("1B", none), ("1C", some "X")])
  (by decide) exIdxs_shape (by decide)

/-! ## 5. when the loop does NOT end -/

/-- the loop has no other way to fail than its fuel -/
theorem dedupLoop_error {idxs : List String} : ∀ (fuel : Nat) (names : NameMap) (e : PyErr),
    dedupLoop idxs fuel names = .error e → e = .outOfFuel := by
  intro fuel
  induction fuel with
  | zero => intro names e h; injection h with h; exact h.symm
  | succ fuel ih =>
    intro names e h
    rw [dedupLoop_succ] at h
    by_cases hf : (dedupRound names idxs).2 = true
    · rw [if_pos hf] at h; cases h
    · rw [if_neg hf] at h; exact ih _ _ h

/-- **listed_twice_diverges**: a structure that lists a model twice — whatever the names and whatever the fuel, the
    loop does not end (in Python: `while True` forever; the two entries are the same object, so their names stay
    equal) -/
theorem listed_twice_diverges {idxs : List String} (h : ¬ idxs.Nodup) (fuel : Nat) (names : NameMap) :
    dedupLoop idxs fuel names = .error .outOfFuel := by
  cases hr : dedupLoop idxs fuel names with
  | ok N => exact absurd (C03N.dedupLoop_idxs_nodup hr) h
  | error e => rw [dedupLoop_error _ _ _ hr]

example : dedupLoop ["1D", "1D"] 17 C03N.exLoop = .error .outOfFuel := listed_twice_diverges (by decide) _ _

/-- at the level of `_prepare_class_names`: when the walk lists a model twice and all generator constructors succeed,
    the preparation runs out of fuel -/
theorem prepareNames_listed_twice {c : RenderCfg} {o : RenderOracles} {names N1 : NameMap} {roots : List Node}
    {idxs : List String} (hidx : preorder (names.length + 2) roots = .ok idxs) (h : ¬ idxs.Nodup)
    (hc : idxs.foldlM (convertNameAt c o) names = .ok N1) : prepareNames c o names roots = .error .outOfFuel := by
  rw [prepareNames_eq, hidx]
  simp only [bind, Except.bind]
  rw [show convAll c o names idxs = .ok N1 from hc]
  exact listed_twice_diverges h _ _

/-- a structure listing `1B` twice -/
example : prepareNames (exCfg .pydantic) exOracles [("1A", some "A"), ("1B", some "B")]
    [.mk "1A" [.mk "1B" []], .mk "1B" []] = .error .outOfFuel := by
  have : (prepareNames (exCfg .pydantic) exOracles [("1A", some "A"), ("1B", some "B")]
    [.mk "1A" [.mk "1B" []], .mk "1B" []]).toOption = none ∧
    (match prepareNames (exCfg .pydantic) exOracles [("1A", some "A"), ("1B", some "B")]
      [.mk "1A" [.mk "1B" []], .mk "1B" []] with | .error .outOfFuel => true | _ => false) = true := by decide +kernel
  revert this
  cases prepareNames (exCfg .pydantic) exOracles [("1A", some "A"), ("1B", some "B")]
    [.mk "1A" [.mk "1B" []], .mk "1B" []] with
  | ok _ => simp [Except.toOption]
  | error e => cases e <;> simp

/-- two listed models without an entry in the name table keep the "name" `None` forever (`NameMap.set` only rewrites
    existing entries) — excluded by `HasKey`; `prepareNames` never reaches the loop in this state (the constructor of
    the generator raises `TypeError` first, `prepareNames_error_iff`) -/
example : (dedupLoop ["1A", "1B"] 5 []).toOption = none := by decide +kernel

/-! ## 3. `_prepare_class_names` is total -/

/-- **prepareNames_total**: the walk lists no model twice, the indices have the shape, every listed model has a name
    on which `convert_class_name` succeeds — `_prepare_class_names` returns -/
theorem prepareNames_total {c : RenderCfg} {o : RenderOracles} {names : NameMap} {roots : List Node}
    {idxs : List String} (hidx : preorder (names.length + 2) roots = .ok idxs) (hnd : idxs.Nodup)
    (hs : ∀ i ∈ idxs, IdxShape i)
    (hconv : ∀ i ∈ idxs, ∃ n n', nameOf names i = some n ∧ convertClassName c o n = .ok n') :
    ∃ N, prepareNames c o names roots = .ok N := by
  obtain ⟨N1, h1⟩ := convAll_ok_of (c := c) (o := o) idxs names hnd hconv
  obtain ⟨R, hR⟩ := prepareNames_loop_ok hnd hs h1
  exact ⟨R, prepareNames_ok.mpr ⟨idxs, N1, hidx, h1, hR⟩⟩

/-- **prepareNames_error_iff**: under the same hypotheses on the structure, `_prepare_class_names` fails exactly when
    the constructor of some generator fails (after the earlier ones succeeded): the model has no name (`TypeError`) or
    `convert_class_name` fails on it — never in the loop -/
theorem prepareNames_error_iff {c : RenderCfg} {o : RenderOracles} {names : NameMap} {roots : List Node}
    {idxs : List String} {e : PyErr} (hidx : preorder (names.length + 2) roots = .ok idxs) (hnd : idxs.Nodup)
    (hs : ∀ i ∈ idxs, IdxShape i) :
    prepareNames c o names roots = .error e ↔
      ∃ pre i post N1, idxs = pre ++ i :: post ∧ pre.foldlM (convertNameAt c o) names = .ok N1 ∧
        ((nameOf N1 i = none ∧ e = .typeError) ∨ ∃ n, nameOf N1 i = some n ∧ convertClassName c o n = .error e) := by
  rw [prepareNames_error_iff' (fun idxs' h' => by cases hidx.symm.trans h'; exact ⟨hnd, hs⟩), hidx]
  simp only [reduceCtorEq, Except.ok.injEq, exists_eq_left', false_or]
  rw [convAll_error_iff]
  constructor
  · rintro ⟨pre, i, post, N1, h1, h2, h3⟩
    exact ⟨pre, i, post, N1, h1, h2, convertNameAt_error_iff.mp h3⟩
  · rintro ⟨pre, i, post, N1, h1, h2, h3⟩
    exact ⟨pre, i, post, N1, h1, h2, convertNameAt_error_iff.mpr h3⟩

/-- without knowing the walk: `_prepare_class_names` fails in the walk (only through its fuel: `preorder_error`), or in
    a generator constructor — never in the loop -/
theorem prepareNames_error_cases {c : RenderCfg} {o : RenderOracles} {names : NameMap} {roots : List Node} {e : PyErr}
    (hshape : ∀ idxs, preorder (names.length + 2) roots = .ok idxs → idxs.Nodup ∧ ∀ i ∈ idxs, IdxShape i) :
    prepareNames c o names roots = .error e ↔
      (preorder (names.length + 2) roots = .error e ∧ e = .outOfFuel) ∨
      ∃ idxs, preorder (names.length + 2) roots = .ok idxs ∧ idxs.foldlM (convertNameAt c o) names = .error e := by
  rw [prepareNames_error_iff' hshape]
  constructor
  · rintro (h | h)
    · exact Or.inl ⟨h, preorder_error _ _ _ h⟩
    · exact Or.inr h
  · rintro (⟨h, _⟩ | h)
    · exact Or.inl h
    · exact Or.inr h

/-- the generator constructors do not fail through fuel -/
theorem convertNameAt_never_outOfFuel (c : RenderCfg) (o : RenderOracles) (N : NameMap) (i : String) :
    convertNameAt c o N i ≠ .error .outOfFuel := convertNameAt_ne_outOfFuel c o N i

-- non-vacuity: `List` and `List_` both convert to `List_`; after the first round `1A` (`List__1A`) collides with `1C`
def exPrep : NameMap := [("1A", some "List"), ("1B", some "List_"), ("1C", some "List__1A")]
def exPrepRoots : List Node := [.mk "1A" [.mk "1B" [], .mk "1C" []]]

theorem exPrep_preorder : preorder (exPrep.length + 2) exPrepRoots = .ok exIdxs := ok_of_toOption (by decide +kernel)

theorem exPrep_conv : ∀ i ∈ exIdxs, ∃ n n', nameOf exPrep i = some n ∧
    convertClassName (exCfg .pydantic) exOracles n = .ok n' := by
  intro i hi
  simp only [exIdxs, List.mem_cons, List.mem_nil_iff, or_false] at hi
  rcases hi with rfl | rfl | rfl
  · exact ⟨"List", "List_", by decide +kernel, ok_of_toOption (by decide +kernel)⟩
  · exact ⟨"List_", "List_", by decide +kernel, ok_of_toOption (by decide +kernel)⟩
  · exact ⟨"List__1A", "List__1A", by decide +kernel, ok_of_toOption (by decide +kernel)⟩

example := prepareNames_total exPrep_preorder (by decide) exIdxs_shape exPrep_conv
example : prepareNames (exCfg .pydantic) exOracles exPrep exPrepRoots =
    .ok [("1A", some "List__1A_1A"), ("1B", some "List__1B"), ("1C", some "List__1A_1C")] :=
  ok_of_toOption (by decide +kernel)
example := prepareNames_error_iff (c := exCfg .pydantic) (o := exOracles) (e := .typeError) exPrep_preorder
  (by decide) exIdxs_shape
-- a model without a name: `TypeError` from the constructor, not a failure of the loop
example : (prepareNames (exCfg .pydantic) exOracles [("1A", some "A"), ("1B", none), ("1C", some "C")] exPrepRoots
    matches .error .typeError) = true := by decide +kernel

/-! ## 4. the structures the tool builds -/

/-- the flat structure handed to `generate_code`: one node per model, nothing nested -/
abbrev flatRoots (l : List String) : List Node := l.map (fun i => Node.mk i [])

/-- **nested_structure_nodup**: the structure built by `compose_models` from a registry with pairwise distinct indices
    lists no model twice, and only registered models (`C12.nested_once`: every model is placed exactly once; a
    top-level model is nested nowhere, so unfolding from the top-level models meets every model at most once) -/
theorem nested_structure_nodup {g : Graph} {roots : List Node} {inj : List (String × String)}
    (hd : (g.models.map (·.idx)).Nodup) (h : composeNested g = .ok (roots, inj)) :
    (postL roots).Nodup ∧ (∀ x ∈ postL roots, x ∈ g.models.map (·.idx)) ∧ (postL roots).length ≤ g.models.length := by
  obtain ⟨h1, h2⟩ := composeNested_nodup hd h
  refine ⟨h1, h2, ?_⟩
  have := h1.length_le_of_subset (fun x hx => h2 x hx)
  simpa using this

/-- the walk over the flat structure succeeds and lists the models of the registry, each once -/
theorem flat_preorder {g : Graph} {l : List String} (wf : Reg.WF g) (h : composeFlat g = .ok l) :
    ∃ idxs, preorder (g.models.length + 2) (flatRoots l) = .ok idxs ∧ idxs.Perm (g.models.map (·.idx)) ∧
      idxs.Nodup ∧ ∀ i ∈ idxs, IdxShape i := by
  obtain ⟨idxs, h1, h2, h3, h4⟩ := (structOK_flat wf h).preorder
  refine ⟨idxs, h1, ?_, h3, h4⟩
  rw [postL_flat] at h2
  exact h2.trans (C12.flat_perm h)

/-- **generateCode_never_outOfFuel_flat**: for a well-formed registry, the `_prepare_class_names` step of
    `generate_code` on the flat structure never runs out of fuel — neither in the walk nor in the `while True` loop; it
    fails exactly when a generator constructor fails, and succeeds when all of them succeed -/
theorem generateCode_never_outOfFuel_flat {c : RenderCfg} {o : RenderOracles} {g : Graph} {l : List String}
    (wf : Reg.WF g) (h : composeFlat g = .ok l) :
    prepareNames c o (C03N.names0 g) (flatRoots l) ≠ .error .outOfFuel ∧
    ∃ idxs, preorder ((C03N.names0 g).length + 2) (flatRoots l) = .ok idxs ∧ idxs.Perm l ∧
      (∀ e, prepareNames c o (C03N.names0 g) (flatRoots l) = .error e ↔
        idxs.foldlM (convertNameAt c o) (C03N.names0 g) = .error e) ∧
      (∀ N1, idxs.foldlM (convertNameAt c o) (C03N.names0 g) = .ok N1 →
        ∃ R, prepareNames c o (C03N.names0 g) (flatRoots l) = .ok R) := by
  have hs : StructOK (C03N.names0 g).length (flatRoots l) := by
    rw [show (C03N.names0 g).length = g.models.length by simp]; exact structOK_flat wf h
  refine ⟨prepareNames_noFuel hs, ?_⟩
  obtain ⟨idxs, h1, h2, h3, h4⟩ := prepareNames_struct (c := c) (o := o) hs
  rw [postL_flat] at h2
  exact ⟨idxs, h1, h2, h3, h4⟩

/-- **generateCode_never_outOfFuel_nested** -/
theorem generateCode_never_outOfFuel_nested {c : RenderCfg} {o : RenderOracles} {g : Graph} {roots : List Node}
    {inj : List (String × String)} (wf : Reg.WF g) (h : composeNested g = .ok (roots, inj)) :
    prepareNames c o (C03N.names0 g) roots ≠ .error .outOfFuel ∧
    ∃ idxs, preorder ((C03N.names0 g).length + 2) roots = .ok idxs ∧ idxs.Perm (postL roots) ∧
      (∀ e, prepareNames c o (C03N.names0 g) roots = .error e ↔
        idxs.foldlM (convertNameAt c o) (C03N.names0 g) = .error e) ∧
      (∀ N1, idxs.foldlM (convertNameAt c o) (C03N.names0 g) = .ok N1 →
        ∃ R, prepareNames c o (C03N.names0 g) roots = .ok R) := by
  have hs : StructOK (C03N.names0 g).length roots := by
    rw [show (C03N.names0 g).length = g.models.length by simp]; exact structOK_nested wf h
  exact ⟨prepareNames_noFuel hs, prepareNames_struct hs⟩

/-- **renderLevel_never_outOfFuel**: `_generate_code`'s own recursion fuel `g.models.length + 2` suffices on both
    structures (the structure has at most `g.models.length` nodes), and nothing below it (class generators, field
    lines, annotations, label conversion) fails through fuel — from ANY name table -/
theorem renderLevel_never_outOfFuel_flat {c : RenderCfg} {o : RenderOracles} {g : Graph} {l : List String}
    (wf : Reg.WF g) (h : composeFlat g = .ok l) (inj : List (String × String)) (names : NameMap) :
    renderLevel c o g inj (g.models.length + 2) names (flatRoots l) ≠ .error .outOfFuel :=
  renderLevel_noFuel c o g inj _ names _ (Nat.lt_of_le_of_lt (structOK_flat wf h).size (by omega))

theorem renderLevel_never_outOfFuel_nested {c : RenderCfg} {o : RenderOracles} {g : Graph} {roots : List Node}
    {inj : List (String × String)} (wf : Reg.WF g) (h : composeNested g = .ok (roots, inj))
    (inj' : List (String × String)) (names : NameMap) :
    renderLevel c o g inj' (g.models.length + 2) names roots ≠ .error .outOfFuel :=
  renderLevel_noFuel c o g inj' _ names _ (Nat.lt_of_le_of_lt (structOK_nested wf h).size (by omega))

/-- the only way `_generate_code` fails through fuel: a structure with at least `fuel` nodes -/
theorem renderLevel_outOfFuel_size {c : RenderCfg} {o : RenderOracles} {g : Graph} {inj : List (String × String)}
    {fuel : Nat} {names : NameMap} {nodes : List Node}
    (h : renderLevel c o g inj fuel names nodes = .error .outOfFuel) : fuel ≤ (postL nodes).length :=
  renderLevel_outOfFuel h

/-- **generateCode_never_outOfFuel**: the whole of `generate_code` on the flat and on the nested structure of a
    well-formed registry: no fuel of the model is ever exhausted -/
theorem generateCode_never_outOfFuel {c : RenderCfg} {o : RenderOracles} {g : Graph} (wf : Reg.WF g)
    (pre : Option String) :
    (∀ l, composeFlat g = .ok l → generateCode c o g (flatRoots l) [] pre ≠ .error .outOfFuel) ∧
    (∀ roots inj, composeNested g = .ok (roots, inj) → generateCode c o g roots inj pre ≠ .error .outOfFuel) :=
  ⟨fun _ h => generateCode_noFuel [] pre (structOK_flat wf h),
   fun _ inj h => generateCode_noFuel inj pre (structOK_nested wf h)⟩

/-! ### non-vacuity: a well-formed registry whose three class names collide in two rounds -/

def exW : Graph where
  models := [{ idx := "1A", fields := [("b", .ptr "1B"), ("c", .ptr "1C")], name := some "List" },
             { idx := "1B", fields := [("x", .int)], name := some "List_" },
             { idx := "1C", fields := [("y", .opt .str)], name := some "List__1A" }]
  ptrs := [⟨"1A", none, none⟩, ⟨"1B", some "1A", some "b"⟩, ⟨"1C", some "1A", some "c"⟩]
  counter := 3

theorem exW_WF : Reg.WF exW := by
  refine ⟨by decide, ?_, ?_, ?_⟩
  · intro m hm
    simp only [exW, List.mem_cons, List.mem_nil_iff, or_false] at hm
    rcases hm with rfl | rfl | rfl
    · exact ⟨0, by simp [exW], by decide +kernel⟩
    · exact ⟨1, by simp [exW], by decide +kernel⟩
    · exact ⟨2, by simp [exW], by decide +kernel⟩
  · intro m hm i hi
    simp only [exW, List.mem_cons, List.mem_nil_iff, or_false] at hm
    rcases hm with rfl | rfl | rfl
    · simp [Reg.ptrsOfFields, Reg.ptrsOf] at hi; rcases hi with rfl | rfl <;> simp [Reg.idxs, exW]
    · simp [Reg.ptrsOfFields, Reg.ptrsOf] at hi
    · simp [Reg.ptrsOfFields, Reg.ptrsOf] at hi
  · intro p hp
    simp only [exW, List.mem_cons, List.mem_nil_iff, or_false] at hp
    rcases hp with rfl | rfl | rfl <;> simp [Reg.idxs, exW]

theorem exW_flat : composeFlat exW = .ok ["1A", "1B", "1C"] := by decide +kernel
theorem exW_nested : composeNested exW = .ok (exPrepRoots, []) := composeNested_of_check (by decide +kernel)

example := generateCode_never_outOfFuel_flat (c := exCfg .pydantic) (o := exOracles) exW_WF exW_flat
example := generateCode_never_outOfFuel_nested (c := exCfg .pydantic) (o := exOracles) exW_WF exW_nested
example := renderLevel_never_outOfFuel_nested (c := exCfg .pydantic) (o := exOracles) exW_WF exW_nested [] exPrep
example := (generateCode_never_outOfFuel (c := exCfg .pydantic) (o := exOracles) exW_WF none).2 _ _ exW_nested
example := nested_structure_nodup (by decide) exW_nested

theorem exW_prepared : prepareNames (exCfg .pydantic) exOracles (C03N.names0 exW) exPrepRoots =
    .ok [("1A", some "List__1A_1A"), ("1B", some "List__1B"), ("1C", some "List__1A_1C")] :=
  ok_of_toOption (by decide +kernel)

theorem exW_text : generateCode (exCfg .pydantic) exOracles exW exPrepRoots [] none = .ok
    ("from pydantic.v1 import BaseModel, Field\nfrom typing import Optional\n\n\nclass List__1A_1A(BaseModel):\n    class List__1B(BaseModel):\n        x: int\n\n    class List__1A_1C(BaseModel):\n        y: Optional[str] = None\n\n    b: 'List__1B'\n    c: 'List__1A_1C'\n",
     [("1A", some "List__1A_1A"), ("1B", some "List__1B"), ("1C", some "List__1A_1C")]) :=
  generateCode_of_eval (by decide +kernel)

end J2M.C03W

#print axioms J2M.C03W.indexOf_shape
#print axioms J2M.C03W.renamed_apart
#print axioms J2M.C03W.dedupLoop_terminates
#print axioms J2M.C03W.dedupLoop_terminates_of_keys
#print axioms J2M.C03W.dedupLoop_terminates_any_fuel
#print axioms J2M.C03W.dedupLoop_fuel_irrelevant
#print axioms J2M.C03W.dedupLoop_terminates_distinct
#print axioms J2M.C03W.dedupLoop_error
#print axioms J2M.C03W.listed_twice_diverges
#print axioms J2M.C03W.prepareNames_listed_twice
#print axioms J2M.C03W.prepareNames_total
#print axioms J2M.C03W.prepareNames_error_iff
#print axioms J2M.C03W.prepareNames_error_cases
#print axioms J2M.C03W.convertNameAt_never_outOfFuel
#print axioms J2M.C03W.nested_structure_nodup
#print axioms J2M.C03W.flat_preorder
#print axioms J2M.C03W.generateCode_never_outOfFuel_flat
#print axioms J2M.C03W.generateCode_never_outOfFuel_nested
#print axioms J2M.C03W.renderLevel_never_outOfFuel_flat
#print axioms J2M.C03W.renderLevel_never_outOfFuel_nested
#print axioms J2M.C03W.renderLevel_outOfFuel_size
#print axioms J2M.C03W.generateCode_never_outOfFuel
#print axioms J2M.C03W.exW_text
