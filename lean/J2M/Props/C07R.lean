/-
  Property C07, registry stage — "sample order and repetition do not change what is inferred": WHICH models
  `ModelRegistry.merge_models` merges does not depend on the order in which the registry meets them.
  (The generator stage is `Props/C07P.lean`, `generate_perm`.)

  Helper developments: `J2M/Proofs/C07RHelpersClosure.lean` (the grouping loop under a re-enumeration of the
  nodes), `C07RHelpers.lean` (the similarity graph on model indices, `SameModels`), `C07RHelpersFields.lean`
  (fields of merged models, correspondence of replacement entries), `C07RHelpersWitness.lean` (the registry on
  which `merge_models` returns for one order and raises for another).  Everything is derived from the C05
  specifications (`C05.closure_components`, `C05R.C05_merge_iff`, `C05R.mergeModels_spec`), whose description of
  the result — connected components of the similarity graph of the ORIGINAL key sets — does not mention order.

  1. `merged_iff_linked`           which models merge, on model indices (order-free restatement of C05_merge_iff)
  2. `merge_partition_perm`        same models in another order, both runs return: the same partition
     `merge_success_perm_false`    "returns for one order iff for the other" is FALSE (RecursionError witness,
                                   reproduced with the Python code); `merge_success_perm_partial`: the comparator
                                   stage succeeds / raises independently of the order
  3. `merged_fields_perm_partial`  merged models: same key set (whole run); same optional shape, and same types on
                                   raw member models (one `_merge` call) — what is missing is said there
  4. `closure_order_free`          the grouping loop under a re-enumeration of the nodes
  5. `chain_needs_bridge`          negative witness on the 4-chain x1 ~ x2 ~ y2 ~ y1
-/
import J2M.Proofs.C07RHelpersClosure
import J2M.Proofs.C07RHelpersFields
import J2M.Proofs.C07RHelpersWitness
namespace J2M.C07R
open J2M J2M.Reg J2M.C07RH J2M.Closure

/-! ## 0. vocabulary

* `SameModels g g'` — `g'` holds the same models (index, fields, name) and pointer records as `g`, possibly in
  another order (`List.Perm`), and the same `Index` counter.
* `Merged repl i j` — `i` and `j` are members of one entry of the replacement list `merge_models` returns:
  they end in the same merged model.
* `IEdge cmps g i j` — the C05 pair relation on INDICES: `i ≠ j` registered and `_models_cmp_fn` says `True`
  on their key lists in `g`; `IChain` its reflexive-transitive closure;
  `Linked cmps g i j` — `i = j` has a similar partner, or `i ≠ j` are registered and connected by a chain. -/

example (g g' : Graph) : SameModels g g' ↔
    g.models.Perm g'.models ∧ g.ptrs.Perm g'.ptrs ∧ g'.counter = g.counter :=
  ⟨fun h => ⟨h.models, h.ptrs, h.counter⟩, fun ⟨a, b, c⟩ => ⟨a, b, c⟩⟩
example (repl : List (String × List String)) (i j : String) :
    Merged repl i j ↔ ∃ p ∈ repl, i ∈ p.2 ∧ j ∈ p.2 := Iff.rfl
example (cmps : List Cmp) (g : Graph) (i j : String) :
    IEdge cmps g i j ↔ i ∈ idxs g ∧ j ∈ idxs g ∧ i ≠ j ∧
      modelsCmp cmps ((keysOf g i).getD []) ((keysOf g j).getD []) = .ok true := Iff.rfl
example (cmps : List Cmp) (g : Graph) (i j : String) :
    Linked cmps g i j ↔
      (i = j ∧ ∃ k, IEdge cmps g i k) ∨ (i ≠ j ∧ i ∈ idxs g ∧ j ∈ idxs g ∧ IChain cmps g i j) := Iff.rfl

/-- the hypotheses transfer: a re-ordered well-formed registry is well-formed, and looking a model up by index
    (so also `==` on model pointers, `Graph.eqEnv`) does not see the order -/
theorem sameModels_wf {g g' : Graph} (wf : WF g) (hs : SameModels g g') :
    WF g' ∧ (∀ i, g'.find? i = g.find? i) ∧ ∀ so, g'.eqEnv so = g.eqEnv so :=
  ⟨hs.wf wf, hs.find? wf, hs.eqEnv wf⟩

/-! ### the concrete 4-chain: models `x1, x2, y2, y1`, only neighbours similar -/

def mk (k : String) : Fields := [(k, .int)]
/-- four root models registered in the order `x1, x2, y2, y1` -/
def g4 : Graph :=
  (processMetaData (processMetaData (processMetaData (processMetaData {} (mk "x1") (some "X1")).1
    (mk "x2") (some "X2")).1 (mk "y2") (some "Y2")).1 (mk "y1") (some "Y1")).1
def mX1 : Model := { idx := "1A", fields := mk "x1", name := some "X1", nameGen := some false }
def mX2 : Model := { idx := "1B", fields := mk "x2", name := some "X2", nameGen := some false }
def mY2 : Model := { idx := "1C", fields := mk "y2", name := some "Y2", nameGen := some false }
def mY1 : Model := { idx := "1D", fields := mk "y1", name := some "Y1", nameGen := some false }
theorem g4_models : g4.models = [mX1, mX2, mY2, mY1] := by rfl
/-- the same registry met in the order `x2, y1, x1, y2` -/
def g4' : Graph := { g4 with models := [mX2, mY1, mX1, mY2] }
/-- the test comparator: a symmetric table on the first key — the chain `x1 ~ x2 ~ y2 ~ y1` -/
def chainCmp : List Cmp := [.table [("x1", "x2"), ("x2", "y2"), ("y2", "y1")]]
/-- the chain without its bridge `x2 ~ y2` -/
def noBridgeCmp : List Cmp := [.table [("x1", "x2"), ("y2", "y1")]]
def cfg4 : GenCfg := ⟨⟨15, 20⟩, ⟨[], [], []⟩, [], []⟩

theorem g4_WF : WF g4 := by
  unfold g4
  refine C05R.processMetaData_WF (C05R.processMetaData_WF (C05R.processMetaData_WF
    (C05R.processMetaData_WF C05R.empty_WF ?_) ?_) ?_) ?_ <;> simp [mk, ptrsOfFields, ptrsOf]

theorem g4_same : SameModels g4 g4' := by
  refine ⟨?_, .refl _, rfl⟩
  rw [g4_models]
  exact (List.Perm.swap mX2 mX1 [mY2, mY1]).trans
    (List.Perm.cons mX2 (((List.Perm.swap mY1 mY2 []).cons mX1).trans (List.Perm.swap mY1 mX1 [mY2])))

theorem g4_run : (mergeModels cfg4 StrOracle.default chainCmp g4).toOption.map (·.2) =
    some [("1E", ["1A", "1B", "1C", "1D"])] := by decide +kernel
theorem g4'_run : (mergeModels cfg4 StrOracle.default chainCmp g4').toOption.map (·.2) =
    some [("1E", ["1B", "1D", "1A", "1C"])] := by decide +kernel

theorem ok_of_toOption {α β ε} {x : Except ε (α × β)} {r : β} (h : x.toOption.map (·.2) = some r) :
    ∃ a, x = .ok (a, r) := by
  cases x with
  | error e => simp [Except.toOption] at h
  | ok v =>
    obtain ⟨a, b⟩ := v
    simp only [Except.toOption, Option.map_some, Option.some.injEq] at h
    exact ⟨a, by rw [h]⟩

/-! ## 1. which models merge, on indices -/

/-- **merged_iff_linked** (`C05R.C05_merge_iff` without registry positions, `i = j` included).  For a well-formed
    registry and a successful `merge_models`: two models end in the same merged model iff they are linked in the
    similarity graph of the ORIGINAL key sets.  The right-hand side looks models up by index only. -/
theorem merged_iff_linked {cfg : GenCfg} {so : StrOracle} {cmps : List Cmp} {g g₁ : Graph}
    {repl : List (String × List String)} (wf : WF g) (h : mergeModels cfg so cmps g = .ok (g₁, repl))
    (i j : String) : Merged repl i j ↔ Linked cmps g i j :=
  C07RH.merged_iff_linked wf h i j

/-- non-vacuity on the 4-chain: `x1` (`1A`) and `y1` (`1D`) are linked, only through the bridge -/
example : Linked chainCmp g4 "1A" "1D" := by
  obtain ⟨g₁, h⟩ := ok_of_toOption g4_run
  exact (merged_iff_linked g4_WF h "1A" "1D").1 ⟨_, List.mem_cons_self, by simp, by simp⟩

/-! ## 2. the partition does not depend on the registry order -/

/-- **merge_partition_perm.**  `g` well-formed, `g'` the same models in another order, the same comparators.
    If both `merge_models` calls return, "ends in the same merged model" is the same relation on model indices
    (`i = j` included: the same models are merged at all), and the replacement lists hold the same member SETS
    (entries of one list are non-empty and pairwise disjoint, so this is a bijection between the entries;
    an entry of one list that shares a member with an entry of the other has exactly the same members). -/
theorem merge_partition_perm {cfg : GenCfg} {so : StrOracle} {cmps : List Cmp} {g g' g₁ g₁' : Graph}
    {repl repl' : List (String × List String)} (wf : WF g) (hs : SameModels g g')
    (h : mergeModels cfg so cmps g = .ok (g₁, repl)) (h' : mergeModels cfg so cmps g' = .ok (g₁', repl')) :
    (∀ i j, Merged repl i j ↔ Merged repl' i j) ∧
    (∀ p ∈ repl, ∃ q ∈ repl', ∀ j, j ∈ p.2 ↔ j ∈ q.2) ∧
    (∀ q ∈ repl', ∃ p ∈ repl, ∀ j, j ∈ q.2 ↔ j ∈ p.2) ∧
    (∀ p ∈ repl, ∀ q ∈ repl', (∃ i, i ∈ p.2 ∧ i ∈ q.2) → ∀ j, j ∈ p.2 ↔ j ∈ q.2) := by
  have wf' := hs.wf wf
  have hM : ∀ i j, Merged repl i j ↔ Merged repl' i j := fun i j => by
    rw [C07RH.merged_iff_linked wf h, C07RH.merged_iff_linked wf' h', hs.linked wf]
  obtain ⟨_, hne, hd⟩ := repl_facts wf h
  obtain ⟨_, hne', hd'⟩ := repl_facts wf' h'
  refine ⟨hM, entries_correspond hM hne hd hd', entries_correspond (fun i j => (hM i j).symm) hne' hd' hd, ?_⟩
  rintro p hp q hq ⟨i, hip, hiq⟩
  exact entries_same_of_common hM hd hd' hp hq hip hiq

/-! ### does `merge_models` return for one order iff for the other?  No. -/

/-- the full "succeeds on one iff on the other" for the whole of `merge_models` -/
def merge_success_perm_Statement : Prop :=
  ∀ (cfg : GenCfg) (so : StrOracle) (cmps : List Cmp) (g g' : Graph), WF g → SameModels g g' →
    ((∃ r, mergeModels cfg so cmps g = .ok r) ↔ ∃ r', mergeModels cfg so cmps g' = .ok r')

/-- **It is FALSE** (for the model, and for the Python code — see below).  Witness `wA` / `wB`
    (`Proofs/C07RHelpersWitness.lean`): two self-referential models `P = {a: ModelPtr(P)}`, `Q = {a: ModelPtr(Q)}`
    and three similar models `M1 = {f: int}`, `M2 = {f: ModelPtr(P)}`, `M3 = {f: ModelPtr(Q)}`.
    Registry order `M1, M2, M3`: `_merge` compares `int == ModelPtr(P)`, then `Union[..] == ModelPtr(Q)` — both
    `False` at once — and `merge_models` returns.  Order `M2, M3, M1`: `_merge` compares
    `ModelPtr(P) == ModelPtr(Q)`, i.e. the two field dicts, i.e. `ModelPtr(P) == ModelPtr(Q)` … — `RecursionError`.

    REAL CODE (observed with /venv/bin/python on /repo, and `#eval` of the model agrees): inputs
    `P = {"a": {"a": null, "p1": 1, "p2": 1}, "p1": 1, "p2": 1}`, `Q` = the same with `q1, q2`,
    `M1 = {"f": 1, "g": 1}`, `M2 = {"f": <P>, "g": 1}`, `M3 = {"f": <Q>, "g": 1}`, default comparators:
    `process_meta_data` in the order `P, Q, M1, M2, M3` (or `P, Q, M2, M1, M3`) then `merge_models` → 3 models;
    in the order `P, Q, M2, M3, M1` → `RecursionError` (the `P`- and `Q`-groups are merged first and become
    self-referential; then `_merge(M2, M3, M1)` evaluates `ModelPtr(P') == ModelPtr(Q')`). -/
theorem merge_success_perm_false : ¬ merge_success_perm_Statement := by
  intro hst
  obtain ⟨r, hr⟩ := (hst wCfg StrOracle.default wCmp wA wB wA_WF wA_same).1 ⟨_, wA_ok⟩
  have := wB_err
  rw [hr] at this
  simp at this

/-- **merge_success_perm_partial** — the strongest order-free part of "succeeds iff": the comparator stage
    (`simTable`: `_models_cmp_fn` on every pair of models) succeeds on one order iff on the other; it raises the
    same exception on both (only the `ZeroDivisionError` of `ModelFieldsPercentMatch` on two empty key sets), and
    then `merge_models` raises it on both.  The grouping loop never fails (`C05.closure_terminates`).
    Excluded: the exceptions of `_merge` / `optimize_type` (`merge_success_perm_false`). -/
theorem merge_success_perm_partial {cfg : GenCfg} {so : StrOracle} {cmps : List Cmp} {g g' : Graph}
    (wf : WF g) (hs : SameModels g g') :
    ((∃ tbl, simTable cmps g = .ok tbl) ↔ ∃ tbl', simTable cmps g' = .ok tbl') ∧
    (∀ e, simTable cmps g = .error e ↔ simTable cmps g' = .error e) ∧
    (∀ e, simTable cmps g = .error e →
      e = .zeroDivision ∧ mergeModels cfg so cmps g = .error e ∧ mergeModels cfg so cmps g' = .error e) ∧
    (∀ tbl, ∃ groups, mergeGroups (simOfTbl tbl) g.models.length = some groups) :=
  ⟨(hs.simTable_ok wf).symm, fun e => (hs.simTable_error wf e).symm,
    fun e he => ⟨C07RH.simTable_error he, mergeModels_of_simTable_error he,
      mergeModels_of_simTable_error ((hs.simTable_error wf e).2 he)⟩,
    fun tbl => C05.closure_terminates _ _ (simOfTbl_symm tbl)⟩

/-- non-vacuity of the exception clause: two models with empty key sets and the default comparators, in both
    orders (`C05R.exEmpty`) -/
example : simTable [.percent 7 10, .number 10] C05R.exEmpty = .error .zeroDivision := by decide +kernel

/-- non-vacuity on the 4-chain: the hypotheses hold, both runs return, and the theorem's conclusion is the
    non-trivial fact that `x1` and `y1` end in the same merged model in the second order as well -/
example : Merged [("1E", ["1B", "1D", "1A", "1C"])] "1A" "1D" := by
  obtain ⟨g₁, h⟩ := ok_of_toOption g4_run
  obtain ⟨g₁', h'⟩ := ok_of_toOption g4'_run
  exact ((merge_partition_perm g4_WF g4_same h h').1 "1A" "1D").1 ⟨_, List.mem_cons_self, by simp, by simp⟩

/-! ## 3. the fields of the merged models -/

/-- **merged_fields_perm_partial.**  `g` well-formed, `g'` the same models in another order.
    (a) WHOLE RUN.  If both `merge_models` calls return, merged models that correspond (entries with the same
        member set — by `merge_partition_perm` every entry has exactly one such partner) have the same key SET
        (the union of the members' original key sets, `C05R.mergeModels_keys_union`), and their key lists are
        permutations of each other.
    (b) ONE `_merge` CALL on the same members in another order (`∀ i, i ∈ members ↔ i ∈ members'`, repetition
        allowed): the new index is the same; both calls merge the same SET of field dicts under the same
        comparison environment; the merged model has the same key set, and per key the same optional shape
        (`HasOptMember`: a `DOptional` at the top or among the flattened union members — what `optimize_type`
        turns into a `DOptional`); if the member models are raw (`Perm.RawSets`: field types as `_detect_type`
        builds them — no `DOptional`, no `ModelPtr`, no tuple, no union at the top; e.g. leaf models with scalar /
        list / dict fields) the field types have the same member sets up to order (`≃ₒ` of `C07P`).
    MISSING: equality up to `≈ₒ` of the FINAL field types of the whole run.  (1) `C07P.mergeFieldSets_equiv`
    needs raw inputs; registered models are optimised (`DOptional`, unions, pointers), and on such inputs the
    un-optimised merge result does depend on the order (`C07.order_witness`:
    `Union[Optional[str], int]` vs `Optional[Union[int, str]]`), so equality can hold only after
    `optimize_type`, for which no congruence lemma on non-raw inputs exists.  (2) In the whole run the groups
    are merged in registry order, so the k-th new index names different groups for different orders: the final
    graphs are equal only up to a renaming of the merged models' indices, and at the time a group is merged
    its members' pointers are already redirected by a different set of earlier merges. -/
theorem merged_fields_perm_partial {cfg : GenCfg} {so : StrOracle} {cmps : List Cmp} {g g' : Graph}
    (wf : WF g) (hs : SameModels g g') :
    (∀ g₁ g₁' repl repl', mergeModels cfg so cmps g = .ok (g₁, repl) → mergeModels cfg so cmps g' = .ok (g₁', repl') →
      ∀ p ∈ repl, ∀ q ∈ repl', (∃ i, i ∈ p.2 ∧ i ∈ q.2) →
        (∀ key, (∃ ks, keysOf g₁ p.1 = some ks ∧ key ∈ ks) ↔ ∃ ks', keysOf g₁' q.1 = some ks' ∧ key ∈ ks') ∧
        (∀ ks ks', keysOf g₁ p.1 = some ks → keysOf g₁' q.1 = some ks' → ks.Perm ks')) ∧
    (∀ g₁ g₁' members members' idx idx', (∀ i, i ∈ members ↔ i ∈ members') →
      mergeGroup cfg so g members = .ok (g₁, idx) → mergeGroup cfg so g' members' = .ok (g₁', idx') →
      idx' = idx ∧ C07.SameSets (memberSets g members) (memberSets g' members') ∧
      ∃ fs fs', g₁.look idx = some fs ∧ g₁'.look idx = some fs' ∧
        (∀ k, k ∈ fs.keys ↔ k ∈ fs'.keys) ∧
        (∀ k t t', (k, t) ∈ fs → (k, t') ∈ fs' → (HasOptMember t ↔ HasOptMember t')) ∧
        (Perm.RawSets cfg.lit (memberSets g members) →
          ∃ F F', fs = substFields (σOf members idx) F ∧ fs' = substFields (σOf members idx) F' ∧
            (∀ kv ∈ F, ∃ u, (kv.1, u) ∈ F' ∧ C07P.MEqv kv.2 u) ∧ (∀ kv ∈ F', ∃ t, (kv.1, t) ∈ F ∧ C07P.MEqv t kv.2))) := by
  constructor
  · rintro g₁ g₁' repl repl' h h' p hp q hq hc
    exact merged_keys_same wf hs h h' hp hq
      ((merge_partition_perm wf hs h h').2.2.2 p hp q hq hc)
  · intro g₁ g₁' members members' idx idx' hm h h'
    obtain ⟨hidx, F, F', hF, hF', hsame, hl, hl'⟩ := mergeGroup_perm_struct wf hs hm h h'
    refine ⟨hidx, hsame, _, _, hl, hl', ?_, ?_, ?_⟩
    · intro k
      rw [keys_substFields, keys_substFields]
      exact C07.mergeFieldSets_keys_perm hsame hF hF' k
    · intro k t t' ht ht'
      obtain ⟨t0, h0, rfl⟩ := C07RH.mem_substFields.1 ht
      obtain ⟨t0', h0', rfl⟩ := C07RH.mem_substFields.1 ht'
      rw [hasOptMember_subst, hasOptMember_subst]
      exact C07.mergeFieldSets_hasOpt_perm hsame hF hF' h0 h0'
    · intro hraw
      exact ⟨F, F', rfl, rfl, C07P.mergeFieldSets_equiv hsame hraw hF hF'⟩

/-- non-vacuity of (a) on the 4-chain: the merged model has the key set `{x1, x2, y2, y1}` in both orders -/
example : ∀ g₁ g₁', mergeModels cfg4 StrOracle.default chainCmp g4 = .ok (g₁, [("1E", ["1A", "1B", "1C", "1D"])]) →
    mergeModels cfg4 StrOracle.default chainCmp g4' = .ok (g₁', [("1E", ["1B", "1D", "1A", "1C"])]) →
    ∀ ks ks', keysOf g₁ "1E" = some ks → keysOf g₁' "1E" = some ks' → ks.Perm ks' := by
  intro g₁ g₁' h h'
  exact ((merged_fields_perm_partial g4_WF g4_same).1 g₁ g₁' _ _ h h' _ List.mem_cons_self _ List.mem_cons_self
    ⟨"1A", by simp, by simp⟩).2
example : ∃ g₁ g₁', mergeModels cfg4 StrOracle.default chainCmp g4 = .ok (g₁, [("1E", ["1A", "1B", "1C", "1D"])]) ∧
    mergeModels cfg4 StrOracle.default chainCmp g4' = .ok (g₁', [("1E", ["1B", "1D", "1A", "1C"])]) := by
  obtain ⟨g₁, h⟩ := ok_of_toOption g4_run
  obtain ⟨g₁', h'⟩ := ok_of_toOption g4'_run
  exact ⟨g₁, g₁', h, h'⟩
theorem g4_keys : (mergeModels cfg4 StrOracle.default chainCmp g4).toOption.map (fun r => keysOf r.1 "1E") =
      some (some ["x1", "x2", "y2", "y1"]) ∧
    (mergeModels cfg4 StrOracle.default chainCmp g4').toOption.map (fun r => keysOf r.1 "1E") =
      some (some ["x2", "y1", "x1", "y2"]) := by decide +kernel

/-- non-vacuity of (b): one `_merge` of all four models, in the two orders; the member models are raw -/
theorem g4_mergeGroup :
    (mergeGroup cfg4 StrOracle.default g4 ["1A", "1B", "1C", "1D"]).toOption.map
        (fun r => (r.2, (r.1.look r.2).map (fun fs => fs.map (fun f => (f.1, hashStr f.2))))) =
      some ("1E", some [("x1", "DOptional/<class 'int'>"), ("x2", "DOptional/<class 'int'>"),
        ("y2", "DOptional/<class 'int'>"), ("y1", "DOptional/<class 'int'>")]) ∧
    (mergeGroup cfg4 StrOracle.default g4' ["1B", "1D", "1A", "1C"]).toOption.map
        (fun r => (r.2, (r.1.look r.2).map (fun fs => fs.map (fun f => (f.1, hashStr f.2))))) =
      some ("1E", some [("x2", "DOptional/<class 'int'>"), ("y1", "DOptional/<class 'int'>"),
        ("x1", "DOptional/<class 'int'>"), ("y2", "DOptional/<class 'int'>")]) := by decide +kernel
example : ∀ i, i ∈ ["1A", "1B", "1C", "1D"] ↔ i ∈ ["1B", "1D", "1A", "1C"] := by intro i; simp; grind
example : Perm.RawSets cfg4.lit (memberSets g4 ["1A", "1B", "1C", "1D"]) := by
  have e : memberSets g4 ["1A", "1B", "1C", "1D"] = [mk "x1", mk "x2", mk "y2", mk "y1"] := by rfl
  rw [e]
  intro m hm kv hkv
  simp only [List.mem_cons, List.not_mem_nil, or_false] at hm
  rcases hm with rfl | rfl | rfl | rfl <;>
    (simp only [mk, List.mem_cons, List.not_mem_nil, or_false] at hkv; subst hkv; exact ⟨by simp [Perm.RawN], rfl⟩)

/-! ## 4. the grouping loop does not depend on the enumeration of the nodes -/

/-- `IsRelabel n π ρ`: `π` maps `0..n-1` into itself with inverse `ρ` (new number ↦ old number);
    `relabel sim π a b = sim (π a) (π b)`: the similarity table seen through the new enumeration -/
example (n : Nat) (π ρ : Nat → Nat) : IsRelabel n π ρ ↔
    (∀ a, a < n → π a < n) ∧ (∀ c, c < n → ρ c < n) ∧ (∀ a, a < n → ρ (π a) = a) ∧ (∀ c, c < n → π (ρ c) = c) :=
  ⟨fun h => ⟨h.lt, h.inv_lt, h.left, h.right⟩, fun ⟨a, b, c, d⟩ => ⟨a, b, c, d⟩⟩
example (sim : Nat → Nat → Bool) (π : Nat → Nat) (a b : Nat) : relabel sim π a b = sim (π a) (π b) := rfl

/-- **closure_order_free.**  For a symmetric similarity table on `n` nodes and any re-enumeration `π` of the
    nodes: the grouping loop terminates on both tables, two nodes share a group of the re-enumerated table iff
    their old numbers share a group of the old table (`a = b` included: the same nodes are grouped at all), and
    the groups are the same sets (each group of one is the re-enumeration of a group of the other).
    Corollary of `C05.closure_components` / `closure_terminates`. -/
theorem closure_order_free {sim : Nat → Nat → Bool} {n : Nat} {π ρ : Nat → Nat} (hsym : C05.Symmetric sim)
    (hπ : IsRelabel n π ρ) :
    ∃ gs gs', mergeGroups sim n = some gs ∧ mergeGroups (relabel sim π) n = some gs' ∧
      (∀ a b, a < n → b < n → ((∃ g' ∈ gs', a ∈ g' ∧ b ∈ g') ↔ ∃ g ∈ gs, π a ∈ g ∧ π b ∈ g)) ∧
      (∀ g' ∈ gs', ∃ g ∈ gs, ∀ x, x < n → (x ∈ g' ↔ π x ∈ g)) ∧
      (∀ g ∈ gs, ∃ g' ∈ gs', ∀ x, x < n → (x ∈ g' ↔ π x ∈ g)) := by
  obtain ⟨gs, h⟩ := C05.closure_terminates sim n hsym
  obtain ⟨gs', h'⟩ := C05.closure_terminates (relabel sim π) n (relabel_symm hsym π)
  exact ⟨gs, gs', h, h', fun a b ha hb => closure_relabel_pair hsym hπ h h' ha hb,
    closure_relabel_groups hsym hπ h h', closure_relabel_groups' hsym hπ h h'⟩

/-- the re-enumeration given as a list: any permutation `l` of `0..n-1` (position ↦ entry) -/
theorem closure_order_free_list {sim : Nat → Nat → Bool} {n : Nat} {l : List Nat} (hsym : C05.Symmetric sim)
    (hl : l.Perm (List.range n)) :
    ∃ gs gs', mergeGroups sim n = some gs ∧ mergeGroups (fun a b => sim (l.getD a 0) (l.getD b 0)) n = some gs' ∧
      (∀ a b, a < n → b < n →
        ((∃ g' ∈ gs', a ∈ g' ∧ b ∈ g') ↔ ∃ g ∈ gs, l.getD a 0 ∈ g ∧ l.getD b 0 ∈ g)) ∧
      (∀ g' ∈ gs', ∃ g ∈ gs, ∀ x, x < n → (x ∈ g' ↔ l.getD x 0 ∈ g)) ∧
      (∀ g ∈ gs, ∃ g' ∈ gs', ∀ x, x < n → (x ∈ g' ↔ l.getD x 0 ∈ g)) :=
  closure_order_free hsym (IsRelabel.of_perm hl)

/-- non-vacuity: the 4-chain `0–1–2–3` (`x1, x2, y2, y1`) enumerated as `x2, y1, x1, y2` -/
example : [1, 3, 0, 2].Perm (List.range 4) := by decide
theorem chain4_relabelled :
    mergeGroups (C05.simOf [(0, 1), (1, 2), (2, 3)]) 4 = some [[0, 1, 2, 3]] ∧
    mergeGroups (fun a b => C05.simOf [(0, 1), (1, 2), (2, 3)] ([1, 3, 0, 2].getD a 0) ([1, 3, 0, 2].getD b 0)) 4 =
      some [[0, 1, 2, 3]] := by decide
/-- … and a table with two components, where the groups come out in another order and with other numbers -/
theorem two_components_relabelled :
    mergeGroups (C05.simOf [(0, 1), (2, 3)]) 4 = some [[0, 1], [2, 3]] ∧
    mergeGroups (fun a b => C05.simOf [(0, 1), (2, 3)] ([3, 0, 2, 1].getD a 0) ([3, 0, 2, 1].getD b 0)) 4 =
      some [[0, 2], [1, 3]] := by decide
example : ∃ g ∈ [[0, 1], [2, 3]], ∀ x, x < 4 → (x ∈ [0, 2] ↔ [3, 0, 2, 1].getD x 0 ∈ g) :=
  ⟨[2, 3], by simp, by decide⟩

/-! ## 5. negative witness: the partition does depend on every edge of the chain -/

/-- **chain_needs_bridge.**  On the 4-chain `x1 ~ x2 ~ y2 ~ y1` all four models form ONE group; without the pair
    `(x2, y2)` — what a grouping that misses the bridge for one registry order effectively computes — there are
    TWO groups.  Shown for the grouping loop on positions and for `merge_models` on the registry `g4'`
    (order `x2, y1, x1, y2`).  So `merge_partition_perm` / `closure_order_free` are not vacuous about order:
    a loop that found the bridge in one order only would falsify them on this input. -/
theorem chain_needs_bridge :
    (mergeGroups (C05.simOf [(0, 1), (1, 2), (2, 3)]) 4 = some [[0, 1, 2, 3]] ∧
     mergeGroups (C05.simOf [(0, 1), (2, 3)]) 4 = some [[0, 1], [2, 3]]) ∧
    ((mergeModels cfg4 StrOracle.default chainCmp g4').toOption.map (·.2) =
       some [("1E", ["1B", "1D", "1A", "1C"])] ∧
     (mergeModels cfg4 StrOracle.default noBridgeCmp g4').toOption.map (·.2) =
       some [("1E", ["1B", "1A"]), ("1F", ["1D", "1C"])]) := by
  refine ⟨by decide, g4'_run, by decide +kernel⟩

/-- in the words of `Merged`: with the bridge `x1` and `y1` end in one model, without it they do not -/
example : Merged [("1E", ["1B", "1D", "1A", "1C"])] "1A" "1D" ∧
    ¬ Merged [("1E", ["1B", "1A"]), ("1F", ["1D", "1C"])] "1A" "1D" := by
  constructor
  · exact ⟨_, List.mem_cons_self, by simp, by simp⟩
  · rintro ⟨p, hp, h1, h2⟩
    simp only [List.mem_cons, List.not_mem_nil, or_false] at hp
    rcases hp with rfl | rfl <;> simp at h1 h2

end J2M.C07R

#print axioms J2M.C07R.sameModels_wf
#print axioms J2M.C07R.merged_iff_linked
#print axioms J2M.C07R.merge_partition_perm
#print axioms J2M.C07R.merge_success_perm_false
#print axioms J2M.C07R.merge_success_perm_partial
#print axioms J2M.C07R.merged_fields_perm_partial
#print axioms J2M.C07R.closure_order_free
#print axioms J2M.C07R.closure_order_free_list
#print axioms J2M.C07R.chain_needs_bridge
#print axioms J2M.C07R.g4_run
#print axioms J2M.C07R.g4_keys
#print axioms J2M.C07R.g4_mergeGroup
#print axioms J2M.C07R.chain4_relabelled
#print axioms J2M.C07R.two_components_relabelled
