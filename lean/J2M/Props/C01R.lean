/-
  Property C01, registry level — "every sample accepted by the type `generate` inferred is still accepted after
  `process_meta_data` and `merge_models`" (DESIGN §8.1, theorem 5 `registry_sound`).

  Helper developments: `J2M/Proofs/RegistrySound.lean` (simulation theorem, one `_merge` + `optimize_type` step,
  final pass, fold), `RegistryProcess.lean` (`process_meta_data`), `RegistryPipeline.lean` (`buildGraph`),
  `RegistryGenEq/RegistryGenMerge/RegistryGenOpt.lean` (`==`, `merge_field_sets`, `optimize_type` on types WITH
  model pointers — the generator-level theorems of `Props/C01.lean` are for pointer-free types only).
-/
import J2M.Proofs.RegistryPipeline
namespace J2M.C01R
open J2M J2M.Reg

/-! ## 0. vocabulary

* `Reg.WF g` — well-formed registry (`Props/C05R.lean`).
* `GoodP K I t` — *registry-stage* type: as `Ty.Good K`, but no inline field dict and `.ptr i` allowed when `I i`;
  `GoodPF K I fs` — field dict with distinct keys and registry-stage field types;
  `GraphGood K g` — every registered model is a `GoodPF K IsIdx` dict (`IsIdx i := ∃ k, i = indexOf k`).
* `substTy σ t` — rename the pointers of `t` by `σ`; `retarget old new = substTy (σ1 old new)`,
  `σOf members idx` — the map of one `_merge`, `σFold repl` — the maps of all `_merge` calls composed. -/

example (K : String → Prop) (g : Graph) : GraphGood K g ↔ ∀ m ∈ g.models, GoodPF K IsIdx m.fields := Iff.rfl
example (K I : String → Prop) (fs : Fields) :
    GoodPF K I fs ↔ (fs.map (·.1)).Nodup ∧ ∀ f ∈ fs, GoodP K I f.2 := Iff.rfl

/-! ## 1. `process_meta_data` -/

/-- **processTy_sound**: for a generator-stage (`Ty.Good K`, hence pointer-free) type, every inhabitant inhabits
    the processed type in the extended registry: inline objects have become pointers to registered models whose
    fields are the processed fields. (`L₀` is arbitrary — a pointer-free type never consults it.) -/
theorem processTy_sound {acc : Accepts} {K : String → Prop} {L₀ : ModelLookup} {g : Graph}
    {pm : Option (String × String)} {t : Ty} {v : Json}
    (hb : ∀ m ∈ g.models, ∃ k, k < g.counter ∧ m.idx = indexOf k) (hg : Ty.Good K t)
    (h : Inh acc L₀ t v) : Inh acc (processTy g pm t).1.look (processTy g pm t).2 v :=
  Reg.processTy_sound hb hg h

/-- monotonicity: `process_meta_data` only appends models, so `Inh` facts about the old registry persist -/
theorem processTy_mono {acc : Accepts} {g : Graph} {pm : Option (String × String)} {t u : Ty} {v : Json}
    (hb : ∀ m ∈ g.models, ∃ k, k < g.counter ∧ m.idx = indexOf k)
    (h : Inh acc g.look u v) : Inh acc (processTy g pm t).1.look u v := by
  obtain ⟨new, newp, e, _⟩ := processTy_ext t g pm hb
  exact e.inh_mono h

/-- **`process_meta_data` is sound**: the returned root pointer accepts every object of the field dict; old facts
    persist; the registry stays a registry of registry-stage field dicts. -/
theorem processMetaData_sound {acc : Accepts} {K : String → Prop} {L₀ : ModelLookup} {g : Graph} {fields : Fields}
    {name : Option String} (wf : WF g) (gg : GraphGood K g) (hg : Ty.Good K (.obj fields)) :
    GraphGood K (processMetaData g fields name).1 ∧
    (∀ v, Inh acc L₀ (.obj fields) v →
      Inh acc (processMetaData g fields name).1.look (.ptr (processMetaData g fields name).2) v) ∧
    (∀ t v, Inh acc g.look t v → Inh acc (processMetaData g fields name).1.look t v) :=
  Reg.processMetaData_sound wf gg hg

/-! ## 2. `retarget_sound`: the simulation theorem -/

/-- **retarget_sound (general).**  `σ` renames indices.  If every model `i` of `L₁` is covered by model `σ i` of
    `L₂` — an object in `i`'s field dict is in `σ i`'s field dict, where the proof may use the conclusion for the
    (smaller) field values — then `Inh acc L₁ t v → Inh acc L₂ (substTy σ t) v` for every type and value.
    Induction on the size of the JSON value: cyclic model graphs are no obstacle. -/
theorem retarget_sound_general {acc : Accepts} {L₁ L₂ : ModelLookup} {σ : String → String}
    (H : ∀ i fs kvs, L₁ i = some fs → InhFields acc L₁ fs kvs →
          (∀ kv ∈ kvs, ∀ t, Inh acc L₁ t kv.2 → Inh acc L₂ (substTy σ t) kv.2) →
          ∃ fs₂, L₂ (σ i) = some fs₂ ∧ InhFields acc L₂ fs₂ kvs) :
    ∀ t v, Inh acc L₁ t v → Inh acc L₂ (substTy σ t) v := sim_sound H

/-- **retarget_sound** for one `ModelPtr.replace`: if model `new` of `L₂` accepts every object that `old` accepted in
    `L₁` (given the statement for the field values), and every other model keeps its retargeted field dict, then
    replacing `.ptr old` by `.ptr new` everywhere preserves `Inh` of every type. -/
theorem retarget_sound {acc : Accepts} {L₁ L₂ : ModelLookup} {old new : String}
    (hold : ∀ fs kvs, L₁ old = some fs → InhFields acc L₁ fs kvs →
        (∀ kv ∈ kvs, ∀ t, Inh acc L₁ t kv.2 → Inh acc L₂ (retarget old new t) kv.2) →
        ∃ fs₂, L₂ new = some fs₂ ∧ InhFields acc L₂ fs₂ kvs)
    (hother : ∀ i fs, i ≠ old → L₁ i = some fs → L₂ i = some (retargetFields old new fs)) :
    ∀ t v, Inh acc L₁ t v → Inh acc L₂ (retarget old new t) v := by
  intro t v h
  rw [retarget_eq_subst]
  refine sim_sound (σ := σ1 old new) ?_ t v h
  intro i fs kvs hL hin IH
  by_cases hi : i = old
  · subst hi
    have : σ1 i new i = new := by simp [σ1]
    rw [this]
    exact hold fs kvs hL hin (fun kv hkv t ht => by rw [retarget_eq_subst]; exact IH kv hkv t ht)
  · have : σ1 old new i = i := by simp [σ1, hi]
    rw [this]
    exact ⟨_, hother i fs hi hL, by rw [retargetFields_eq_subst]; exact inhFields_subst hin IH⟩

/-! ## 3. `merge_field_sets` / `optimize_type` on registry-stage types (with pointers) -/

/-- Python `==` through the registry (`ModelPtr == ModelPtr` compares the models' dicts) is sound for inhabitation -/
theorem pyEq_sound_registry {ov : Bool} {acc : Accepts} {K I : String → Prop} {L : ModelLookup} (e : EqEnv)
    (he : e.look = L) (hL : LookGood K I L) : EqSoundOn ov acc L e (GoodP K I) := pyEq_soundP e he hL

/-- `merge_field_sets` on registry-stage field dicts, `==` decided through the same lookup -/
theorem mergeFieldSets_sound_registry {acc : Accepts} {K I : String → Prop}
    (hK : ∀ k, K k → wfSerName k = true) (hI : IdxAlnum I)
    {L : ModelLookup} {e : EqEnv} {c : LitCfg} {sets : List Fields} {F : Fields}
    (he : e.look = L) (hL : LookGood K I L) (hsets : ∀ m ∈ sets, GoodPF K I m)
    (h : mergeFieldSets c e sets = .ok F) :
    GoodPF K I F ∧ ∀ fs ∈ sets, ∀ kvs, C01.InhFieldsLax acc L fs kvs → C01.InhFieldsLax acc L F kvs := by
  obtain ⟨a, b⟩ := mergeSoundP (ov := false) (acc := acc) hK hI L e c sets F he hL hsets h
  exact ⟨a, fun fs hfs kvs hin => C01.inhFieldsLX_false_iff.1 (b fs hfs kvs (C01.inhFieldsLX_false_iff.2 hin))⟩

/-- the same with the refined lax reading (`C01.InhFieldsLaxS`: a field may be absent when its type is
    `Ty.optLikeS`) — the reading `optimize_type` honours, hence the one `merge_models` composes with -/
theorem mergeFieldSets_sound_registryS {acc : Accepts} {K I : String → Prop}
    (hK : ∀ k, K k → wfSerName k = true) (hI : IdxAlnum I)
    {L : ModelLookup} {e : EqEnv} {c : LitCfg} {sets : List Fields} {F : Fields}
    (he : e.look = L) (hL : LookGood K I L) (hsets : ∀ m ∈ sets, GoodPF K I m)
    (h : mergeFieldSets c e sets = .ok F) :
    GoodPF K I F ∧ ∀ fs ∈ sets, ∀ kvs, C01.InhFieldsLaxS acc L fs kvs → C01.InhFieldsLaxS acc L F kvs := by
  obtain ⟨a, b⟩ := mergeSoundPS (ov := false) (acc := acc) hK hI L e c sets F he hL hsets h
  exact ⟨a, fun fs hfs kvs hin => C01.inhFieldsLXS_false_iff.1 (b fs hfs kvs (C01.inhFieldsLXS_false_iff.2 hin))⟩

/-- The former statement of `optimize_sound_registry` (lax reading with `Ty.optLike`).  It is FALSE since
    `_optimize_union` splices the unions hidden under `Optional` members: `optimize_sound_registry_false`. -/
def optimize_sound_registry_Statement : Prop :=
  ∀ (acc : Accepts) (K I : String → Prop) (cfg : GenCfg),
    (∀ k, K k → wfSerName k = true) → IdxAlnum I → ReplacesSound acc cfg.reg → ReplacesRanked cfg.reg →
    ∀ (L : ModelLookup) (e : EqEnv) (fuel : Nat) (F : Fields) (t' : Ty),
      GoodPF K I F → optimize cfg e fuel (.obj F) = .ok t' →
      ∃ F', t' = .obj F' ∧ GoodPF K I F' ∧ F'.map (·.1) = F.map (·.1) ∧
        ∀ kvs, C01.InhFieldsLax acc L F kvs → InhFields acc L F' kvs

/-- `{}` lies laxly in `{a: Union[Optional[Union[]]]}` (the field is `Ty.optLike`), which is optimised to
    `{a: Null}` (`Reg.optimize_degenerate_witness`) -/
theorem optimize_sound_registry_false : ¬ optimize_sound_registry_Statement := by
  intro h
  obtain ⟨F', e', _, _, hinh⟩ := h (fun _ _ => none) (fun _ => False) (fun _ => False)
    ⟨⟨15, 20⟩, ⟨[], [], []⟩, [], []⟩ (fun k hk => hk.elim) (fun i hi => hi.elim)
    (fun a b hab => by simp at hab) ⟨fun _ => 0, fun p hp => by simp at hp⟩
    (fun _ => none) ⟨StrOracle.default, fun i => i, fun _ => none, 1⟩ 4
    [("a", .union [.opt (.union [])])] _ ⟨by simp, by simp⟩ (optimize_degenerate_witness _ _)
  cases e'
  have hlax : C01.InhFieldsLax (fun _ _ => none) (fun _ => none) [("a", .union [.opt (.union [])])] [] := by
    refine ⟨by simp, by simp, ?_⟩
    intro ft hft hno; simp at hft; subst hft
    revert hno; decide
  obtain ⟨kv, hkv, _⟩ := (hinh [] hlax).2.2 ("a", .null) (by simp) rfl
  simp at hkv

/-- `optimize_type` on a registry-stage field dict (any `==` environment, any lookup): lax in, strict out —
    with the refined lax reading.
    (PARTIAL with respect to `optimize_sound_registry_Statement`: objects that omit a field whose type is
    `Ty.optLike` but not `Ty.optLikeS` — a degenerate `DUnion` such as `Union[Optional[Union[]]]`, which
    `DUnion.__init__`/`merge_field_sets` never build — are excluded.) -/
theorem optimize_sound_registry_partial {acc : Accepts} {K I : String → Prop} {cfg : GenCfg}
    (hK : ∀ k, K k → wfSerName k = true) (hI : IdxAlnum I)
    (hrep : ReplacesSound acc cfg.reg) (hrank : ReplacesRanked cfg.reg)
    {L : ModelLookup} {e : EqEnv} {fuel : Nat} {F : Fields} {t' : Ty}
    (hF : GoodPF K I F) (h : optimize cfg e fuel (.obj F) = .ok t') :
    ∃ F', t' = .obj F' ∧ GoodPF K I F' ∧ F'.map (·.1) = F.map (·.1) ∧
      ∀ kvs, C01.InhFieldsLaxS acc L F kvs → InhFields acc L F' kvs := by
  obtain ⟨F', a, b, c, _, d⟩ := optSoundP_weak (ov := false) (acc := acc) hK hI hrep hrank L e fuel F t' hF h
  exact ⟨F', a, b, c, fun kvs hin => inhFieldsX_false_iff.1 (d kvs (C01.inhFieldsLXS_false_iff.2 hin))⟩

/-! ## 4. one group: `_merge`, then `optimize_type(model_meta)` -/

/-- **mergeGroup_sound** (single group, with the `optimize_type` call that follows `_merge` in `merge_models`).
    Every value that inhabited a type before inhabits the retargeted type after; in particular every object a
    member accepted is accepted by the merged model. -/
theorem mergeGroup_sound {acc : Accepts} {K : String → Prop} {cfg : GenCfg} {so : StrOracle} {g g1 g2 : Graph}
    {members : List String} {idx : String}
    (hK : ∀ k, K k → wfSerName k = true)
    (hrep : ReplacesSound acc cfg.reg) (hrank : ReplacesRanked cfg.reg)
    (wf : WF g) (gg : GraphGood K g)
    (h1 : mergeGroup cfg so g members = .ok (g1, idx)) (h2 : optimizeModel cfg so g1 idx = .ok g2) :
    GraphGood K g2 ∧ ∀ t v, Inh acc g.look t v → Inh acc g2.look (substTy (σOf members idx) t) v :=
  mergeStep_sound (mergeSoundPS hK isIdx_alnum) (optSoundP_weak hK isIdx_alnum hrep hrank) wf gg h1 h2

/-- … for a member: what `old` accepted, the merged model accepts -/
theorem mergeGroup_member_sound {acc : Accepts} {K : String → Prop} {cfg : GenCfg} {so : StrOracle}
    {g g1 g2 : Graph} {members : List String} {idx old : String}
    (hK : ∀ k, K k → wfSerName k = true)
    (hrep : ReplacesSound acc cfg.reg) (hrank : ReplacesRanked cfg.reg)
    (wf : WF g) (gg : GraphGood K g)
    (h1 : mergeGroup cfg so g members = .ok (g1, idx)) (h2 : optimizeModel cfg so g1 idx = .ok g2)
    (hold : old ∈ members) {v : Json} (h : Inh acc g.look (.ptr old) v) : Inh acc g2.look (.ptr idx) v := by
  have := (mergeGroup_sound hK hrep hrank wf gg h1 h2).2 _ v h
  simpa [substTy, σOf, hold] using this

/-- `optimize_type(model_meta)` on a registered model keeps every inhabitant of every type -/
theorem optimizeModel_sound {acc : Accepts} {K : String → Prop} {cfg : GenCfg} {so : StrOracle} {g g' : Graph}
    {i : String} (hK : ∀ k, K k → wfSerName k = true)
    (hrep : ReplacesSound acc cfg.reg) (hrank : ReplacesRanked cfg.reg) (gg : GraphGood K g)
    (h : optimizeModel cfg so g i = .ok g') :
    GraphGood K g' ∧ ∀ t v, Inh acc g.look t v → Inh acc g'.look t v :=
  Reg.optimizeModel_sound (optSoundP_weak hK isIdx_alnum hrep hrank) gg h

/-! ### `_merge` ALONE is not sound for the strict relation

`{a: int}` merged with `{a: Optional[str]}` gives `{a: Union[Optional[str], int]}`: the field is not a `DOptional`
before `optimize_type` has run, so the object `{}` of the second model is not (strictly) in the merged model.
`merge_models` calls `optimize_type(model_meta)` right after `_merge`, which is what `mergeGroup_sound` uses. -/

def gW : Graph :=
  { models := [{ idx := "1A", fields := [("a", .int)] }, { idx := "1B", fields := [("a", .opt .str)] }],
    ptrs := [], counter := 2 }
def cfgW : GenCfg := ⟨⟨15, 20⟩, ⟨[], [], []⟩, [], []⟩

/-- `_merge` succeeds as soon as `merge_field_sets` does -/
theorem mergeGroup_ok {cfg : GenCfg} {so : StrOracle} {g : Graph} {members : List String} {F : Fields}
    (hF : mergeFieldSets cfg.lit (g.eqEnv so) ((memberModels g members).map (·.fields)) = .ok F) :
    ∃ g1, mergeGroup cfg so g members = .ok (g1, indexOf g.counter) := by
  unfold mergeGroup
  unfold memberModels at hF
  simp only [bind, Except.bind, hF, pure, Except.pure]
  exact ⟨_, rfl⟩

theorem gW_mergeFields :
    mergeFieldSets cfgW.lit (gW.eqEnv StrOracle.default) ((memberModels gW ["1A", "1B"]).map (·.fields)) =
      .ok [("a", .union [.opt .str, .int])] := by
  have h2 : (memberModels gW ["1A", "1B"]).map (·.fields) = [[("a", .int)], [("a", .opt .str)]] := rfl
  have e1 : (gW.eqEnv StrOracle.default).eq .int (.opt .str) = .ok false := rfl
  have e2 : (gW.eqEnv StrOracle.default).eq .int .str = .ok false := rfl
  rw [h2]
  simp [mergeFieldSets, mergeFieldSets.go, mergeStep, mergeOne, Fields.get?, Fields.set, Fields.keys,
    Fields.has, Ty.isOpt, e1, e2, bind, Except.bind, pure, Except.pure, Ty.unionMembers,
    mkUnionMembers, flattenUnion, handleType, hashStr, Ty.isStr, cfgW]

/-- the full single-group statement WITHOUT the `optimize_type` call — FALSE -/
def mergeGroup_alone_sound_Statement : Prop :=
  ∀ (acc : Accepts) (K : String → Prop) (cfg : GenCfg) (so : StrOracle) (g g1 : Graph) (members : List String)
    (idx : String), (∀ k, K k → wfSerName k = true) → ReplacesSound acc cfg.reg → ReplacesRanked cfg.reg →
    WF g → GraphGood K g → mergeGroup cfg so g members = .ok (g1, idx) →
    ∀ t v, Inh acc g.look t v → Inh acc g1.look (substTy (σOf members idx) t) v

theorem gW_WF : WF gW := by
  refine ⟨by decide, ?_, ?_, by simp [gW]⟩
  · intro m hm
    simp only [gW, List.mem_cons, List.mem_nil_iff, or_false] at hm
    rcases hm with rfl | rfl
    · exact ⟨0, by simp [gW], by decide +kernel⟩
    · exact ⟨1, by simp [gW], by decide +kernel⟩
  · intro m hm i hi
    simp only [gW, List.mem_cons, List.mem_nil_iff, or_false] at hm
    rcases hm with rfl | rfl <;> simp [ptrsOfFields, ptrsOf] at hi

theorem gW_good : GraphGood (fun _ => False) gW := by
  intro m hm
  simp only [gW, List.mem_cons, List.mem_nil_iff, or_false] at hm
  rcases hm with rfl | rfl <;> exact ⟨by simp, by simp⟩

theorem mergeGroup_alone_sound_false : ¬ mergeGroup_alone_sound_Statement := by
  intro H
  obtain ⟨g1, hm⟩ := mergeGroup_ok gW_mergeFields
  generalize hidx0 : indexOf gW.counter = idx at hm
  obtain ⟨F, nm, ng, hF, hidx, hg1⟩ := mergeGroup_eq hm
  have hFk : F = [("a", .union [.opt .str, .int])] := by
    rw [gW_mergeFields] at hF
    injection hF with hF; exact hF.symm
  have hin : Inh (fun _ _ => none) gW.look (.ptr "1B") (.obj []) := by
    refine Inh.ptr (fs := [("a", .opt .str)]) ?_ (by simp) (by simp) ?_
    · simp [Graph.look, Graph.find?, gW]
    · intro ft hft hno; simp at hft; subst hft; simp [Ty.isOpt] at hno
  have := H (fun _ _ => none) (fun _ => False) cfgW StrOracle.default gW g1 ["1A", "1B"] idx (by simp)
    (by intro a b h; simp [cfgW] at h) ⟨fun _ => 0, by simp [cfgW]⟩ gW_WF gW_good hm _ _ hin
  have hσ : σOf ["1A", "1B"] idx "1B" = idx := by simp [σOf]
  rw [substTy, hσ] at this
  cases this with
  | ptr hL _ _ c =>
    rename_i fs
    have hl := look_merged_idx (members := ["1A", "1B"]) (F := F) (nm := nm) (ng := ng) gW_WF.bound
    rw [← hidx, ← hg1, hL] at hl
    injection hl with hl
    subst hl; subst hFk
    obtain ⟨kv, hkv, _⟩ := c ("a", .union [.opt .str, .int]) (by simp [substFields, substTy, substList])
      (by simp [Ty.isOpt])
    simp at hkv

/-! ## 5. `merge_models` -/

/-- **mergeModels_sound** (the target).  For a well-formed registry of registry-stage field dicts, well-formed
    pseudo-type class names, sound and acyclic `replaces`: every value that inhabits a type before
    `merge_models` inhabits the retargeted type afterwards, where `σFold repl` sends every merged member to the
    index of its merged model and leaves every other index alone. -/
theorem mergeModels_sound {acc : Accepts} {K : String → Prop} {cfg : GenCfg} {so : StrOracle}
    {cmps : List Cmp} {g g' : Graph} {repl : List (String × List String)}
    (hK : ∀ k, K k → wfSerName k = true)
    (hrep : ReplacesSound acc cfg.reg) (hrank : ReplacesRanked cfg.reg)
    (wf : WF g) (gg : GraphGood K g) (h : mergeModels cfg so cmps g = .ok (g', repl)) :
    (∀ t v, Inh acc g.look t v → Inh acc g'.look (substTy (σFold repl) t) v) ∧
    (∀ p ∈ repl, ∀ i ∈ p.2, σFold repl i = p.1) ∧
    (∀ i, (∀ p ∈ repl, p.2.contains i = false) → σFold repl i = i) ∧
    WF g' ∧ GraphGood K g' := by
  obtain ⟨gg', hs⟩ := mergeModels_sound_core (acc := acc) (mergeSoundPS hK isIdx_alnum)
    (optSoundP_weak hK isIdx_alnum hrep hrank) wf gg h
  obtain ⟨hσ1, hσ2⟩ := mergeModels_σ wf h
  exact ⟨hs, hσ1, hσ2, (mergeModels_struct wf h).choose_spec.choose_spec.2.2.2.2.2.2.1, gg'⟩

/-- for a root sample: `Inh acc g.look (.ptr root) s → Inh acc g'.look (.ptr (σ root)) s` -/
theorem mergeModels_root_sound {acc : Accepts} {K : String → Prop} {cfg : GenCfg} {so : StrOracle}
    {cmps : List Cmp} {g g' : Graph} {repl : List (String × List String)}
    (hK : ∀ k, K k → wfSerName k = true)
    (hrep : ReplacesSound acc cfg.reg) (hrank : ReplacesRanked cfg.reg)
    (wf : WF g) (gg : GraphGood K g) (h : mergeModels cfg so cmps g = .ok (g', repl))
    {root : String} {s : Json} (hs : Inh acc g.look (.ptr root) s) :
    Inh acc g'.look (.ptr (σFold repl root)) s := by
  simpa [substTy] using (mergeModels_sound hK hrep hrank wf gg h).1 _ s hs

/-! ## 6. the pipeline: `generate` → `process_meta_data` → `merge_models` -/

/-- the registry built from the inputs: well-formed, registry-stage, a root per input accepting its samples -/
theorem buildGraph_sound {cfg : GenCfg} {o : GenOracles} {inputs : List (String × List Json)} {g : Graph}
    (hwf : ∀ inp ∈ inputs, ∀ s ∈ inp.2, Json.WF s)
    (hnames : ∀ k ∈ cfg.reg.types, wfSerName k = true)
    (hrep : ReplacesSound o.accepts cfg.reg) (hrank : ReplacesRanked cfg.reg)
    (h : buildGraph cfg o inputs = .ok g) :
    WF g ∧ GraphGood (KOf cfg) g ∧
    ∀ inp ∈ inputs, ∃ root, ∀ s ∈ inp.2, Inh o.accepts g.look (.ptr root) s :=
  Reg.buildGraph_sound hwf hnames hrep hrank h

/-- **registry_sound (C01 theorem 5).**  Under the hypotheses of `C01.generate_sound_names`: after `generate` +
    `process_meta_data` of every named sample list and `merge_models` (any comparators), every input still has a
    root model that accepts every one of its samples. -/
theorem registry_sound {cfg : GenCfg} {o : GenOracles} {cmps : List Cmp} {inputs : List (String × List Json)}
    {g0 g1 : Graph} {repl : List (String × List String)}
    (hwf : ∀ inp ∈ inputs, ∀ s ∈ inp.2, Json.WF s)
    (hnames : ∀ k ∈ cfg.reg.types, wfSerName k = true)
    (hrep : ReplacesSound o.accepts cfg.reg) (hrank : ReplacesRanked cfg.reg)
    (h0 : buildGraph cfg o inputs = .ok g0) (h1 : mergeModels cfg o.str cmps g0 = .ok (g1, repl)) :
    WF g1 ∧ ∀ inp ∈ inputs, ∃ root, ∀ s ∈ inp.2, Inh o.accepts g1.look (.ptr root) s :=
  pipeline_merge_sound hwf hnames hrep hrank h0 h1

/-! ## non-vacuity: a concrete two-level input whose nested models get merged -/

def cfgX : GenCfg := ⟨⟨15, 20⟩, ⟨[], [], []⟩, [], []⟩
def oX : GenOracles := ⟨fun _ _ => some false, fun _ _ => some false, StrOracle.default⟩
def s1 : Json := .obj [("a", .int 1), ("b", .obj [("x", .int 2)]), ("c", .arr [.obj [("x", .int 3), ("y", .int 4)]])]
def s2 : Json := .obj [("a", .int 5), ("b", .obj [("x", .int 6)]), ("c", .arr [.obj [("x", .int 7), ("y", .int 8)]])]
def inputsX : List (String × List Json) := [("Root", [s1, s2])]

/-- after `process_meta_data`: `b` is model `1B = {x}`, the elements of `c` are model `1C = {x, y}` -/
def g0X : Graph :=
  { models := [{ idx := "1A", fields := [("a", .int), ("b", .ptr "1B"), ("c", .list (.ptr "1C"))],
                 name := some "Root", nameGen := some false },
               { idx := "1B", fields := [("x", .int)] },
               { idx := "1C", fields := [("x", .int), ("y", .int)] }],
    ptrs := [⟨"1A", none, none⟩, ⟨"1B", some "1A", some "b"⟩, ⟨"1C", some "1A", some "c"⟩],
    counter := 3 }
/-- after `merge_models` with `ModelFieldsNumberMatch(1)`: `1B` and `1C` are merged into `1D = {x, y?}` -/
def g1X : Graph :=
  { models := [{ idx := "1A", fields := [("a", .int), ("b", .ptr "1D"), ("c", .list (.ptr "1D"))],
                 name := some "Root", nameGen := some false },
               { idx := "1D", fields := [("x", .int), ("y", .opt .int)] }],
    ptrs := [⟨"1A", none, none⟩, ⟨"1D", some "1A", some "b"⟩, ⟨"1D", some "1A", some "c"⟩],
    counter := 4 }

set_option maxRecDepth 100000 in
theorem exX_build : buildGraph cfgX oX inputsX = .ok g0X := by rfl
set_option maxRecDepth 100000 in
theorem exX_merge : mergeModels cfgX oX.str [Cmp.number 1] g0X = .ok (g1X, [("1D", ["1B", "1C"])]) := by rfl

theorem exX_wf : ∀ inp ∈ inputsX, ∀ s ∈ inp.2, Json.WF s := by
  intro inp hinp s hs
  simp [inputsX] at hinp; subst hinp; simp at hs
  rcases hs with rfl | rfl <;> simp [s1, s2, Json.WF, Json.WFKvs, Json.WFList]

/-- all hypotheses of `registry_sound` hold for the instance, hence both samples are accepted by a root of the
    merged registry `g1X` — the `b` object `{x}` by the merged model `1D = {x, y?}` -/
example : WF g1X ∧ ∃ root, Inh oX.accepts g1X.look (.ptr root) s1 ∧ Inh oX.accepts g1X.look (.ptr root) s2 := by
  obtain ⟨wf1, hr⟩ := registry_sound (cfg := cfgX) (o := oX) exX_wf (by simp [cfgX])
    (by intro a b h; simp [cfgX] at h) ⟨fun _ => 0, by simp [cfgX]⟩ exX_build exX_merge
  obtain ⟨root, hroot⟩ := hr ("Root", [s1, s2]) (by simp [inputsX])
  exact ⟨wf1, root, hroot s1 (by simp), hroot s2 (by simp)⟩

/-- non-vacuity of `mergeModels_sound`: hypotheses hold for `g0X`; the substitution sends `1B, 1C ↦ 1D`, `1A ↦ 1A` -/
example : WF g0X ∧ GraphGood (KOf cfgX) g0X ∧ σFold [("1D", ["1B", "1C"])] "1B" = "1D" ∧
    σFold [("1D", ["1B", "1C"])] "1A" = "1A" := by
  obtain ⟨a, b, _⟩ := buildGraph_sound (cfg := cfgX) (o := oX) exX_wf (by simp [cfgX])
    (by intro a b h; simp [cfgX] at h) ⟨fun _ => 0, by simp [cfgX]⟩ exX_build
  obtain ⟨_, h1, h2, _⟩ := mergeModels_sound (acc := oX.accepts) (K := KOf cfgX)
    (by intro k hk; simp [KOf, cfgX] at hk)
    (by intro a b h; simp [cfgX] at h) ⟨fun _ => 0, by simp [cfgX]⟩ a b exX_merge
  exact ⟨a, b, h1 ("1D", ["1B", "1C"]) (by simp) "1B" (by simp), h2 "1A" (by simp)⟩

end J2M.C01R

#print axioms J2M.C01R.processTy_sound
#print axioms J2M.C01R.processTy_mono
#print axioms J2M.C01R.processMetaData_sound
#print axioms J2M.C01R.retarget_sound_general
#print axioms J2M.C01R.retarget_sound
#print axioms J2M.C01R.pyEq_sound_registry
#print axioms J2M.C01R.mergeFieldSets_sound_registry
#print axioms J2M.C01R.mergeFieldSets_sound_registryS
#print axioms J2M.C01R.optimize_sound_registry_partial
#print axioms J2M.C01R.optimize_sound_registry_false
#print axioms J2M.C01R.mergeGroup_sound
#print axioms J2M.C01R.mergeGroup_member_sound
#print axioms J2M.C01R.optimizeModel_sound
#print axioms J2M.C01R.mergeGroup_alone_sound_false
#print axioms J2M.C01R.mergeModels_sound
#print axioms J2M.C01R.mergeModels_root_sound
#print axioms J2M.C01R.buildGraph_sound
#print axioms J2M.C01R.registry_sound
#print axioms J2M.C01R.exX_build
#print axioms J2M.C01R.exX_merge
