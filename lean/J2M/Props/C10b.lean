/-
  C10b — rendering-level corollaries of C10 item 3 (DESIGN §8.10): where `Literal[...]` appears in annotations and
  that its argument list reads back as exactly the values.

  Stated on the annotation terms `Ann` of Proofs/Render.lean: by `J2M.C04.typing_denotes` the emitted text of
  `typingCode` is the print of `tyAnn`, so "the annotation contains no `Literal`" is "the term has no `literal` node".
-/
import J2M.Proofs.Render
import J2M.Props.C10
namespace J2M.C10b

open J2M J2M.Rend

/-- the rule of `StringLiteral.to_typing_code`: a literal member is shown as `Literal[...]` iff the style allows
    literals and there are fewer values than `max_literals` -/
theorem literal_rule (c : RenderCfg) (e : RefEnv) (o : Bool) (vs : List String) :
    tyAnn c e (.lit o vs) =
      some (if c.useLiterals = true ∧ (vs.length : Int) < c.maxLiterals then .literal vs else .str) := by
  simp only [tyAnn]
  by_cases h1 : c.useLiterals = true <;> by_cases h2 : (vs.length : Int) < c.maxLiterals <;> simp [h1, h2]

/-- an annotation has a `Literal[...]` node exactly when the IR type has a literal member the style shows
    (`litPos`: the members reachable through `list`/`dict`/`opt`/`union`/`tuple`) -/
theorem literal_node_iff (c : RenderCfg) (e : RefEnv) (t : Ty) (a : Ann) (h : tyAnn c e t = some a) :
    a.hasLiteral = litPos c t :=
  hasLiteral_eq c e t a h

/-- attrs: no `Literal` anywhere -/
theorem attrs_no_literal (c : RenderCfg) (e : RefEnv) (t : Ty) (a : Ann) (hfw : c.fw = .attrs)
    (h : tyAnn c e t = some a) : a.hasLiteral = false := by
  rw [hasLiteral_eq c e t a h, litPos_false (noLit_of_attrs hfw)]

/-- `max_literals ≤ 0`: no `Literal` anywhere -/
theorem max_literals_zero_no_literal (c : RenderCfg) (e : RefEnv) (t : Ty) (a : Ann) (hm : c.maxLiterals ≤ 0)
    (h : tyAnn c e t = some a) : a.hasLiteral = false := by
  rw [hasLiteral_eq c e t a h, litPos_false (.inr hm)]

/-- the same two corollaries for the emitted text: it is the print of a term without `Literal` node -/
theorem no_literal_text (c : RenderCfg) (e : RefEnv) (t : Ty) (imps : List Imp) (s : String)
    (hc : c.fw = .attrs ∨ c.maxLiterals ≤ 0) (h : typingCode c e t = .ok (imps, s)) :
    ∃ a : Ann, s = a.print ∧ a.hasLiteral = false := by
  obtain ⟨a, ha, hs, _⟩ := typingCode_ok c e t imps s h
  refine ⟨a, hs, ?_⟩
  rcases hc with hc | hc
  · exact attrs_no_literal c e t a hc ha
  · exact max_literals_zero_no_literal c e t a hc ha

/-- the argument text of `Literal[...]` as the generator joins it -/
def litArgs (vs : List String) : String := ", ".intercalate (vs.map (jsonDumps false))

/-- a shown literal: the node is `Literal vs`, the text is `Literal[` args `]`, and Python's reader splits the
    argument text into exactly the values `vs` (in the order of `vs`, each string read back code point by code
    point), whatever quotes, commas, brackets, backslashes or non-ASCII characters they contain -/
theorem literal_shown (c : RenderCfg) (e : RefEnv) (vs : List String)
    (hu : c.useLiterals = true) (hl : (vs.length : Int) < c.maxLiterals) (hne : vs ≠ []) :
    tyAnn c e (.lit false vs) = some (.literal vs) ∧
    typingCode c e (.lit false vs) = .ok ([⟨c.literalModule, some ["Literal"]⟩], "Literal[" ++ litArgs vs ++ "]") ∧
    lexLiteralArgs (litArgs vs).toList = some (vs.map (fun s => s.toList.map Char.toNat)) ∧
    ∀ s ∈ vs, pyLexStr (jsonDumps false s).toList = some (s.toList.map Char.toNat) := by
  have ha : tyAnn c e (.lit false vs) = some (.literal vs) := by rw [literal_rule]; simp [hu, hl]
  refine ⟨ha, ?_, J2M.C10.literal_list_split_string vs hne, fun s _ => J2M.C10.literal_roundtrip_raw_string s⟩
  rw [typingCode_complete c e _ _ ha]; rfl

-- non-vacuity
private def cfgP : RenderCfg where
  fw := .pydantic
  maxLiterals := 10
  postInit := false
  convertUnicode := true
  withMeta := false
  decoKwargs := []
  literalModule := "typing"
  blacklist := []
  serInfo := []
  metadataFieldName := "J2M_ORIGINAL_FIELD"
private def envP : RefEnv := ⟨[], []⟩

example : cfgP.useLiterals = true ∧ ((["a", "b, \"c", "]"] : List String).length : Int) < cfgP.maxLiterals := by decide
example : typingCode cfgP envP (.lit false ["a", "b, \"c", "]"])
    = .ok ([⟨"typing", some ["Literal"]⟩], "Literal[\"a\", \"b, \\\"c\", \"]\"]") := rfl
example : lexLiteralArgs (litArgs ["a", "b, \"c", "]"]).toList = some [[97], [98, 44, 32, 34, 99], [93]] := by
  rw [(literal_shown cfgP envP _ (by decide) (by decide) (by simp)).2.2.1]; decide
-- the same type under attrs, and with `max_literals = 0`
example : tyAnn { cfgP with fw := .attrs } envP (.list (.lit false ["a"])) = some (.list .str) := rfl
example : tyAnn { cfgP with maxLiterals := 0 } envP (.list (.lit false ["a"])) = some (.list .str) := rfl
example : litPos cfgP (.opt (.union [.int, .lit false ["a"]])) = true := by decide
-- the limit is strict: 10 values with `max_literals = 10` are not shown
example : tyAnn cfgP envP (.lit false (List.replicate 10 "x")) = some .str := rfl

end J2M.C10b
