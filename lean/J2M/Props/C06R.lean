/-
  Property C06 (rendering part) — "Output is a deterministic function of inputs and options."

  The layout + render part of the model (`composeFlat` / `composeNested` followed by `generateCode`) has exactly one
  input whose order is arbitrary: `Graph.ptrs` (in Python: the `pointers` sets of the `ModelMeta` objects, which are
  `id()`-hashed).  `render_ptrs_perm` shows that the emitted text does not depend on that order, for both layouts.
  Helper development: `J2M/Proofs/Render2.lean`; layout part: `J2M/Props/C06.lean`.
-/
import J2M.Props.C06
import J2M.Proofs.Render2Eval
namespace J2M.C06R
open J2M.Rend2

/-- render with the flat layout: `generate_code(compose_models_flat(models_map), …)` -/
abbrev renderFlat := Rend2.renderFlat
/-- render with the nested layout: `generate_code(compose_models(models_map), …)` -/
abbrev renderNested := Rend2.renderNested

/-- **generateCode_congr_models**: `genClass` / `renderLevel` / `generateCode` read the graph only through
    `g.models` (`g.find?`): two graphs with the same model table give the same text and the same name map, whatever
    their pointer records and index counters are. -/
theorem generateCode_congr_models (c : RenderCfg) (o : RenderOracles) {g₁ g₂ : Graph} (h : g₁.models = g₂.models)
    (roots : List Node) (pathInj : List (String × String)) (pre : Option String) :
    generateCode c o g₁ roots pathInj pre = generateCode c o g₂ roots pathInj pre :=
  Rend2.generateCode_congr_models c o h roots pathInj pre

/-- the layouts only need the model table and the pointer records up to order (the counter is not read) -/
theorem render_ptrs_perm' (c : RenderCfg) (o : RenderOracles) {g₁ g₂ : Graph} (hm : g₁.models = g₂.models)
    (hp : g₁.ptrs.Perm g₂.ptrs) (pre : Option String) :
    renderFlat c o g₁ pre = renderFlat c o g₂ pre ∧ renderNested c o g₁ pre = renderNested c o g₂ pre := by
  unfold renderFlat renderNested Rend2.renderFlat Rend2.renderNested
  rw [C06.composeFlat_perm hm hp, (C06.composeNested_perm hm hp).2]
  constructor
  · congr 1; funext l; exact generateCode_congr_models c o hm _ _ _
  · congr 1; funext r; exact generateCode_congr_models c o hm _ _ _

/-- **render_ptrs_perm**: two registries that differ only in the order of their pointer records (same models in the
    same order, same counter) are rendered to the same text (and leave the same class names behind), in the flat
    and in the nested layout; errors included. -/
theorem render_ptrs_perm (c : RenderCfg) (o : RenderOracles) {g₁ g₂ : Graph} (hm : g₁.models = g₂.models)
    (_hc : g₁.counter = g₂.counter) (hp : g₁.ptrs.Perm g₂.ptrs) (pre : Option String) :
    (composeFlat g₁ >>= fun l => generateCode c o g₁ (l.map (fun i => Node.mk i [])) [] pre) =
      (composeFlat g₂ >>= fun l => generateCode c o g₂ (l.map (fun i => Node.mk i [])) [] pre) ∧
    (composeNested g₁ >>= fun r => generateCode c o g₁ r.1 r.2 pre) =
      (composeNested g₂ >>= fun r => generateCode c o g₂ r.1 r.2 pre) :=
  render_ptrs_perm' c o hm hp pre

/-! ### non-vacuity: a registry with a shared and a recursive model, rendered from two pointer orders -/

/-- configuration of the examples (`Rend2.exOracles`: oracles that are the identity on the names involved) -/
abbrev exCfg : RenderCfg := Rend2.exCfg .pydantic

def exG₁ : Graph where
  models := [{ idx := "1A", fields := [("b", .ptr "1B"), ("c", .list (.ptr "1C"))], name := some "Root" },
             { idx := "1B", fields := [("c", .ptr "1C")], name := some "B" },
             { idx := "1C", fields := [("self", .opt (.ptr "1C")), ("x", .int)], name := some "class" }]
  ptrs := [⟨"1A", none, none⟩, ⟨"1B", some "1A", some "b"⟩, ⟨"1C", some "1A", some "c"⟩,
           ⟨"1C", some "1B", some "c"⟩, ⟨"1C", some "1C", some "self"⟩]
  counter := 3
def exG₂ : Graph := { exG₁ with ptrs := exG₁.ptrs.reverse }

example : exG₁.models = exG₂.models ∧ exG₁.counter = exG₂.counter ∧ exG₁.ptrs.Perm exG₂.ptrs :=
  ⟨rfl, rfl, (List.reverse_perm _).symm⟩

-- both pointer orders give this module (flat layout) …
example : (renderFlat exCfg exOracles exG₁ none).toOption = some
    ("from pydantic.v1 import BaseModel, Field\nfrom typing import List, Optional\n\n\nclass Root(BaseModel):\n    b: 'B'\n    c: List['class_']\n\n\nclass B(BaseModel):\n    c: 'class_'\n\n\nclass class_(BaseModel):\n    x: int\n    self: Optional['class_'] = None\n",
     [("1A", some "Root"), ("1B", some "B"), ("1C", some "class_")]) ∧
  (renderFlat exCfg exOracles exG₂ none).toOption = (renderFlat exCfg exOracles exG₁ none).toOption := by
  decide +kernel
-- … and the nested layout (the shared model `1C` is placed in the root class and referenced through it)
example : composeNested exG₁ = .ok ([.mk "1A" [.mk "1C" [], .mk "1B" []]], [("1C", "1A")]) ∧
    composeNested exG₂ = .ok ([.mk "1A" [.mk "1C" [], .mk "1B" []]], [("1C", "1A")]) :=
  ⟨composeNested_of_check (by decide +kernel), composeNested_of_check (by decide +kernel)⟩

example : renderNested exCfg exOracles exG₁ none = .ok
    ("from pydantic.v1 import BaseModel, Field\nfrom typing import List, Optional\n\n\nclass Root(BaseModel):\n    class class_(BaseModel):\n        x: int\n        self: Optional['Root.class_'] = None\n\n    class B(BaseModel):\n        c: 'Root.class_'\n\n    b: 'B'\n    c: List['Root.class_']\n",
     [("1A", some "Root"), ("1B", some "B"), ("1C", some "class_")]) := by
  unfold renderNested Rend2.renderNested
  rw [composeNested_of_check (roots := [.mk "1A" [.mk "1C" [], .mk "1B" []]]) (inj := [("1C", "1A")]) (by decide +kernel)]
  show generateCode exCfg exOracles exG₁ [.mk "1A" [.mk "1C" [], .mk "1B" []]] [("1C", "1A")] none = _
  exact generateCode_of_eval (by decide +kernel)

end J2M.C06R
