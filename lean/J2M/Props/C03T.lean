/-
  C03 (references part) — "every reference resolves", NESTED layout   (companion of `Props/C03S.lean`).

  In the text produced by `generate_code` for the structure of `compose_models`, a field annotation of class `C` refers
  to another class by a quoted forward reference: the bare class name `'Child'`, or — when `compose_models` injected a
  path — `'Root.Child'` (`Rend.ptrRef`).  Python (`typing.get_type_hints(C)`, what the tool's users and the property's
  observer do) looks the first component up in the namespace of `C` itself and then in the module namespace, the further
  components as attributes.  So a reference resolves when
    (a) it is the dotted path of a class counted from module level (`A`, `A.B`, …: absolute path), or
    (b) it is the bare name of a class defined directly inside `C`.
  `Resolves roots F P r` below says exactly that, for the class whose own definition path is `P`.

  Vocabulary
  * `defPaths roots F` (`Proofs/NestedRefs.lean`): the definition path (list of class names from the top-level class down)
    of every class statement of the module rendered from the structure `roots` with the final names `F`;
    `defIdxPaths` tags each path with the model index of its class.
  * `Reg.WF g`, `C12.Tree g`, `C12R.Rooted g depth`, `C12R.FieldsFollowPtrs g`: as in `Props/C12R.lean`.
  * `FieldsHavePtrs g`: every model a field refers to has a pointer record naming the field's model as parent.
  * `SharedNoRoot g i`: `i` has no root pointer, fields of at least two different models refer to it, and
    `extract_root` finds no parent-less model above it.
  * `Rend2.StableOn c o N0 is`: `convert_class_name` leaves the prepared names of the models `is` alone (`C03N.ConvFix`).

  Results
  1. `defPaths_unique`, `defPaths_complete`, `defPaths_complete_tree`.
  2. `refs_resolve_nested_tree`: rooted tree-shaped registries — every reference is the bare final name of a class
     defined directly inside the referencing class.
  3. `shared_root_path`, `refs_resolve_nested_shared_root`: a reference to a model with an injected path is the absolute
     path `Root.Child` of a class the module defines, `Root` a top-level class; all other references are bare names.
  4. `refs_resolve_nested_partial`: ALL well-formed registries — every reference of every class of the structure
     resolves, except possibly a bare reference to a `SharedNoRoot` model;  `refs_resolve_nested_false`: the exception is
     real (the full statement `refs_resolve_nested_Statement` is false): `exCyc`.
  5. `nested_text_final_names`, `nested_class_statement`: the text consists of the classes rendered with the final names.
-/
import J2M.Proofs.NestedRefs
import J2M.Props.C03S
import J2M.Props.C03N
namespace J2M.C03T
open J2M J2M.Rend J2M.Rend2 J2M.Reg J2M.RSound J2M.NestedRefs J2M.LayoutP

/-- every model a field refers to has a pointer record that names the field's model as parent (what
    `process_meta_data` and `_merge` maintain) -/
def FieldsHavePtrs (g : Graph) : Prop :=
  ∀ m ∈ g.models, ∀ i ∈ fieldsRefs [] m.fields, ∃ p ∈ g.ptrs, p.target = i ∧ p.parent = some m.idx

/-- **Resolves**: the reference text `r`, written in a field annotation of the class whose definition path is `P`,
    names a class of the module: it is the dotted absolute path of a class (a bare name for a top-level class), or the
    bare name of a class defined directly inside the referencing class -/
def Resolves (roots : List Node) (F : NameMap) (P : List String) (r : String) : Prop :=
  (∃ p ∈ defPaths roots F, r = ".".intercalate p) ∨ (P ++ [r]) ∈ defPaths roots F

instance (roots : List Node) (F : NameMap) (P : List String) (r : String) : Decidable (Resolves roots F P r) := by
  unfold Resolves; infer_instance

/-! ## 1. definition paths -/

/-- **defPaths_unique**: if `generate_code` succeeds on the structure of `compose_models`, no model has two class
    statements, every class statement belongs to a registered model, and every class has a non-empty final name -/
theorem defPaths_unique {c : RenderCfg} {o : RenderOracles} {g : Graph} {roots : List Node}
    {inj : List (String × String)} {pre : Option String} {text : String} {F : NameMap}
    (hr : composeNested g = .ok (roots, inj))
    (hn : generateCode c o g roots inj pre = .ok (text, F)) :
    ((defIdxPaths roots F).map (·.1)).Nodup ∧
    (∀ i P P', (i, P) ∈ defIdxPaths roots F → (i, P') ∈ defIdxPaths roots F → P = P') ∧
    (∀ ip ∈ defIdxPaths roots F, (∃ m ∈ g.models, m.idx = ip.1) ∧ ∃ n, nameOf F ip.1 = some n ∧ n ≠ "") ∧
    (defIdxPaths roots F).map (·.2) = defPaths roots F := by
  have hnd : ((defIdxPaths roots F).map (·.1)).Nodup := by
    rw [defIdxPaths_keys]
    exact (preL_perm roots).nodup_iff.mpr (generateCode_post_nodup hn)
  refine ⟨hnd, fun i P P' h h' => pair_unique hnd h h', ?_, defIdxPaths_paths roots F⟩
  intro ip hip
  have hmem : ip.1 ∈ postL roots := by
    apply (preL_perm roots).mem_iff.mp
    rw [← defIdxPaths_keys roots F]
    exact List.mem_map_of_mem hip
  constructor
  · obtain ⟨s, hs, rfl, _⟩ := composeNested_state hr
    simpa using postL_build_registered hs _ _ hmem
  · obtain ⟨n, h1, h2, _⟩ := generateCode_named hn _ hmem
    exact ⟨n, h1, h2⟩

/-- **defPaths_complete**: if the structure contains every registered model (`hcover`), every registered model has
    exactly one definition path -/
theorem defPaths_complete {g : Graph} {roots : List Node} (F : NameMap) (wf : WF g)
    (hcover : (postL roots).Perm (g.models.map (·.idx))) :
    ((defIdxPaths roots F).map (·.1)).Perm (g.models.map (·.idx)) ∧
    ∀ m ∈ g.models, ∃ P, (m.idx, P) ∈ defIdxPaths roots F ∧ ∀ P', (m.idx, P') ∈ defIdxPaths roots F → P' = P := by
  have hp : ((defIdxPaths roots F).map (·.1)).Perm (g.models.map (·.idx)) := by
    rw [defIdxPaths_keys]; exact (preL_perm roots).trans hcover
  refine ⟨hp, fun m hm => ?_⟩
  have hnd : ((defIdxPaths roots F).map (·.1)).Nodup := hp.nodup_iff.mpr wf.nodup
  have : m.idx ∈ (defIdxPaths roots F).map (·.1) := hp.mem_iff.mpr (List.mem_map_of_mem hm)
  obtain ⟨ip, hip, e⟩ := List.mem_map.mp this
  obtain ⟨i, P⟩ := ip
  simp only at e; subst e
  exact ⟨P, hip, fun P' h' => pair_unique hnd h' hip⟩

/-- **defPaths_complete_tree**: for the structure `compose_models` builds from a rooted tree-shaped registry (uses
    `C12.nested_once` through `C12R.tree_structure`) -/
theorem defPaths_complete_tree {g : Graph} {depth : String → Nat} {roots : List Node} {inj : List (String × String)}
    (F : NameMap) (wf : WF g) (hT : C12.Tree g) (hroot : C12R.Rooted g depth) (hff : C12R.FieldsFollowPtrs g)
    (hr : composeNested g = .ok (roots, inj)) :
    ((defIdxPaths roots F).map (·.1)).Perm (g.models.map (·.idx)) ∧
    ∀ m ∈ g.models, ∃ P, (m.idx, P) ∈ defIdxPaths roots F ∧ ∀ P', (m.idx, P') ∈ defIdxPaths roots F → P' = P :=
  defPaths_complete F wf (C12R.tree_structure hT wf.nodup hroot hff hr).2.1

/-- without `Rooted` the statement is false: `C12R.exCycle` is well-formed and tree-shaped, `compose_models` succeeds
    with an empty structure, so neither model has a definition path -/
example : composeNested C12R.exCycle = .ok ([], []) ∧ defPaths [] [] = [] :=
  ⟨composeNested_of_check (by decide +kernel), rfl⟩

/-! ## 2. rooted trees: every reference is the bare name of a directly nested class -/

/-- **refs_resolve_nested_tree**: for a well-formed, rooted, tree-shaped registry whose fields follow the pointer
    records: `compose_models` injects no path, the text is the module of the classes rendered with the final names
    `F`, every registered model `m` has exactly one definition path `P`, and every quoted reference `r` in the
    annotation of a field of `m` is the bare final name of a model `k` the field type points to, whose class is
    defined at `P ++ [r]` — directly inside the class of `m`. -/
theorem refs_resolve_nested_tree {c : RenderCfg} {o : RenderOracles} {g : Graph} {depth : String → Nat}
    {roots : List Node} {inj : List (String × String)} {pre : Option String} {text : String} {F : NameMap}
    (wf : WF g) (hT : C12.Tree g) (hroot : C12R.Rooted g depth) (hff : C12R.FieldsFollowPtrs g)
    (hr : composeNested g = .ok (roots, inj))
    (hn : generateCode c o g roots inj pre = .ok (text, F)) :
    inj = [] ∧
    (∃ ts, C12R.nodesText c o g [] F roots = .ok ts ∧ text = C12R.moduleText pre ts) ∧
    ∀ m ∈ g.models, ∃ P, (m.idx, P) ∈ defIdxPaths roots F ∧ (∀ P', (m.idx, P') ∈ defIdxPaths roots F → P' = P) ∧
      ∀ f ∈ m.fields, ∀ a, tyAnn c ⟨F, inj⟩ f.2 = some a → ∀ r ∈ annRefs a,
        ∃ k ∈ ptrsOf f.2, nameOf F k = some r ∧ (k, P ++ [r]) ∈ defIdxPaths roots F ∧ Resolves roots F P r := by
  obtain ⟨hinj, hcover, hsub⟩ := C12R.tree_structure hT wf.nodup hroot hff hr
  subst hinj
  have hpn : (postL roots).Nodup := generateCode_post_nodup hn
  refine ⟨rfl, generateCode_text hn (readyL_of_sub _ roots [] (by simpa using hpn) hsub), ?_⟩
  obtain ⟨s, hs, hroots, hchildren, _⟩ := C12.nested_tree hT
  obtain ⟨s', hs', hR, _⟩ := composeNested_state hr
  cases hs.symm.trans hs'
  have hts : TreeState g s := ⟨hroots, hchildren⟩
  intro m hm
  have hmem : m.idx ∈ postL roots := hcover.mem_iff.mpr (List.mem_map_of_mem hm)
  obtain ⟨q, hq, hlast⟩ := mem_idxPaths_of_mem hmem
  have hkeys : ((defIdxPaths roots F).map (·.1)).Nodup := by
    rw [defIdxPaths_keys]; exact (preL_perm roots).nodup_iff.mpr hpn
  have hP := (defPaths_of_idxPath F hq).2
  rw [hlast] at hP
  refine ⟨q.map (nm F), hP, fun P' h' => pair_unique hkeys h' hP, ?_⟩
  intro f hf a ha r hr'
  obtain ⟨i, hi, n, hname, e⟩ := annRefs_of_tyAnn c ⟨F, []⟩ f.2 a ha r hr'
  rw [ptrRef_flat] at e
  subst e
  have hi' : i ∈ fieldsRefs [] m.fields := by
    rw [ptrsOf_eq_tyRefs c ⟨F, []⟩ f.2 (by simp [ha])] at hi
    unfold fieldsRefs
    rw [closeInj_nil]
    exact List.mem_flatMap.mpr ⟨f, hf, hi⟩
  obtain ⟨hreg, hpar⟩ := hff m hm i hi'
  have hchild : i ∈ s.children m.idx := (mem_children hts).mpr ⟨hreg, hpar⟩
  obtain ⟨ocs, ho, e1⟩ := List.mem_map.mp hq
  obtain ⟨q0, cs⟩ := ocs
  simp only at e1; subst e1
  rw [hR] at ho hpn
  have hcs := occ_children hs hpn ho
  rw [hlast] at hcs
  obtain ⟨cs', h2⟩ := occL_child [] _ _ _ ho i (by rw [hcs]; exact hchild)
  have hq2 : q0 ++ [i] ∈ idxPaths roots := by rw [hR]; exact List.mem_map.mpr ⟨_, h2, rfl⟩
  have hnm : nm F i = r := by
    have : lookup F i = some r := hname
    simp [nm, this]
  obtain ⟨d1, d2⟩ := defPaths_of_idxPath F hq2
  simp only [List.map_append, List.map_cons, List.map_nil, hnm, List.getLastD_eq_getLast?, List.getLast?_append,
    List.getLast?_singleton, Option.some_or, Option.getD_some] at d1 d2
  exact ⟨i, hi, hname, d2, Or.inr d1⟩

/-! ## 3. injected paths: the model shared by several classes under one root -/

/-- **shared_root_path**: if `compose_models` injected the path `(i, rt)`, then `rt` is a top-level class, the class of
    `i` is defined directly inside it, both have non-empty final names `nr`, `ni`, and a reference to `i` is written
    `nr.ni` — the absolute path at which the module defines the class of `i` -/
theorem shared_root_path {c : RenderCfg} {o : RenderOracles} {g : Graph} {roots : List Node}
    {inj : List (String × String)} {pre : Option String} {text : String} {F : NameMap}
    (wf : WF g) (hr : composeNested g = .ok (roots, inj))
    (hn : generateCode c o g roots inj pre = .ok (text, F))
    {i k rt : String} (hinj : inj.find? (·.1 == i) = some (k, rt)) :
    k = i ∧ ∃ nr ni, nameOf F rt = some nr ∧ nameOf F i = some ni ∧ nr ≠ "" ∧ ni ≠ "" ∧
      (rt, [nr]) ∈ defIdxPaths roots F ∧ (i, [nr, ni]) ∈ defIdxPaths roots F ∧
      ptrRef ⟨F, inj⟩ i ni = nr ++ "." ++ ni ∧ nr ++ "." ++ ni = ".".intercalate [nr, ni] := by
  have hk : k = i := by simpa using List.find?_some hinj
  subst hk
  refine ⟨rfl, ?_⟩
  obtain ⟨s, hs, hR, hI⟩ := composeNested_state hr
  subst hI
  have hpr : ParentsRegistered g := fun p hp q hq => (wf.ptrs p hp).2 q hq
  obtain ⟨h1, h2⟩ := inj_root hs hpr (List.mem_of_find?_eq_some hinj)
  have o1 := occ_root s g.models.length h1
  obtain ⟨cs', o2⟩ := occL_child [] _ _ _ o1 k h2
  have p1 : [rt] ∈ idxPaths roots := by rw [hR]; exact List.mem_map.mpr ⟨_, o1, rfl⟩
  have p2 : [rt, k] ∈ idxPaths roots := by rw [hR]; exact List.mem_map.mpr ⟨_, o2, rfl⟩
  obtain ⟨nr, l1, ne1, m1⟩ := generateCode_named hn rt (idxPath_mem_postL p2 rt (by simp))
  obtain ⟨ni, l2, ne2, m2⟩ := generateCode_named hn k (idxPath_mem_postL p2 k (by simp))
  have d1 := (defPaths_of_idxPath F p1).2
  have d2 := (defPaths_of_idxPath F p2).2
  simp only [List.map_cons, List.map_nil, m1, m2, List.getLastD_eq_getLast?, List.getLast?_singleton,
    List.getLast?_cons_cons, Option.getD_some] at d1 d2
  exact ⟨nr, ni, l1, l2, ne1, ne2, d1, d2, by rw [ptrRef_some hinj l1 ne1 ne2, dot2], (dot2 nr ni).symm⟩

/-- **refs_resolve_nested_shared_root**: in EVERY class of a successful nested rendering of a well-formed registry,
    a quoted reference is either the bare final name of the model `i` it points to (no path was injected for `i`), or
    the absolute path `Root.Child` at which the module defines the class of `i`, `Root` being a top-level class. -/
theorem refs_resolve_nested_shared_root {c : RenderCfg} {o : RenderOracles} {g : Graph} {roots : List Node}
    {inj : List (String × String)} {pre : Option String} {text : String} {F : NameMap}
    (wf : WF g) (hr : composeNested g = .ok (roots, inj))
    (hn : generateCode c o g roots inj pre = .ok (text, F))
    {m : Model} (hm : m ∈ g.models) {f : String × Ty} (hf : f ∈ m.fields)
    {a : Ann} (ha : tyAnn c ⟨F, inj⟩ f.2 = some a) :
    ∀ r ∈ annRefs a, ∃ i ∈ ptrsOf f.2, (∃ mi ∈ g.models, mi.idx = i) ∧ ∃ n, nameOf F i = some n ∧
      ((inj.find? (·.1 == i) = none ∧ r = n) ∨
       (∃ rt nr, inj.find? (·.1 == i) = some (i, rt) ∧ nameOf F rt = some nr ∧ r = nr ++ "." ++ n ∧
          (rt, [nr]) ∈ defIdxPaths roots F ∧ (i, [nr, n]) ∈ defIdxPaths roots F ∧
          ∀ P, Resolves roots F P r)) := by
  intro r hr'
  obtain ⟨i, hi, n, hname, e⟩ := annRefs_of_tyAnn c ⟨F, inj⟩ f.2 a ha r hr'
  have hreg : i ∈ idxs g := wf.fields m hm i (mem_ptrsOfFields.2 ⟨f, hf, hi⟩)
  refine ⟨i, hi, by simpa [idxs] using hreg, n, hname, ?_⟩
  cases hfind : inj.find? (·.1 == i) with
  | none => exact Or.inl ⟨rfl, by rw [e, ptrRef_none hfind]⟩
  | some kp =>
    right
    obtain ⟨k, rt⟩ := kp
    obtain ⟨rfl, nr, ni, l1, l2, _, _, d1, d2, hp, hdot⟩ := shared_root_path wf hr hn hfind
    have : ni = n := Option.some.inj (l2.symm.trans hname)
    subst this
    refine ⟨rt, nr, rfl, l1, by rw [e, hp], d1, d2, fun P => Or.inl ⟨[nr, ni], ?_, by rw [e, hp, hdot]⟩⟩
    rw [← defIdxPaths_paths]
    exact List.mem_map.mpr ⟨_, d2, rfl⟩

/-! ## 4. all registries -/

/-- the full statement: in a successful nested rendering of a well-formed registry whose fields have pointer records,
    every quoted reference in every class resolves -/
def refs_resolve_nested_Statement : Prop :=
  ∀ (c : RenderCfg) (o : RenderOracles) (g : Graph) (roots : List Node) (inj : List (String × String))
    (pre : Option String) (text : String) (F : NameMap),
    WF g → FieldsHavePtrs g → composeNested g = .ok (roots, inj) → generateCode c o g roots inj pre = .ok (text, F) →
    ∀ m ∈ g.models, ∀ P, (m.idx, P) ∈ defIdxPaths roots F →
      ∀ f ∈ m.fields, ∀ a, tyAnn c ⟨F, inj⟩ f.2 = some a → ∀ r ∈ annRefs a, Resolves roots F P r

/-- **refs_resolve_nested_partial**: the strongest true version.  For every class of the structure (model `m`,
    definition path `P`) every quoted reference `r` resolves — it is the bare name of a top-level class, the absolute
    path `Root.Child` of an injected path, or the bare name of a class defined directly inside the class of `m` —
    EXCEPT possibly when it is the bare name of a `SharedNoRoot` model: a model without root pointer that several
    classes use and above which `extract_root` finds no parent-less model. -/
theorem refs_resolve_nested_partial {c : RenderCfg} {o : RenderOracles} {g : Graph} {roots : List Node}
    {inj : List (String × String)} {pre : Option String} {text : String} {F : NameMap}
    (wf : WF g) (hfp : FieldsHavePtrs g) (hr : composeNested g = .ok (roots, inj))
    (hn : generateCode c o g roots inj pre = .ok (text, F))
    {m : Model} (hm : m ∈ g.models) {P : List String} (hP : (m.idx, P) ∈ defIdxPaths roots F)
    {f : String × Ty} (hf : f ∈ m.fields) {a : Ann} (ha : tyAnn c ⟨F, inj⟩ f.2 = some a) :
    ∀ r ∈ annRefs a, Resolves roots F P r ∨
      ∃ i ∈ ptrsOf f.2, SharedNoRoot g i ∧ inj.find? (·.1 == i) = none ∧ nameOf F i = some r := by
  intro r hr'
  obtain ⟨i, hi, n, hname, e⟩ := annRefs_of_tyAnn c ⟨F, inj⟩ f.2 a ha r hr'
  have hreg : i ∈ g.models.map (·.idx) := wf.fields m hm i (mem_ptrsOfFields.2 ⟨f, hf, hi⟩)
  have hi' : i ∈ fieldsRefs [] m.fields := by
    have hi2 := hi
    rw [ptrsOf_eq_tyRefs c ⟨F, inj⟩ f.2 (by simp [ha])] at hi2
    unfold fieldsRefs
    rw [closeInj_nil]
    exact List.mem_flatMap.mpr ⟨f, hf, hi2⟩
  obtain ⟨p, hp, ht, hpp⟩ := hfp m hm i hi'
  obtain ⟨s, hs, hR, hI⟩ := composeNested_state hr
  have hpr : ParentsRegistered g := fun p hp q hq => (wf.ptrs p hp).2 q hq
  have hpn : (postL roots).Nodup := generateCode_post_nodup hn
  obtain ⟨q, hq, e2⟩ := List.mem_map.mp hP
  injection e2 with e2 e3
  have hup : Up g i (q.getLastD "") := by rw [e2]; exact ⟨p, hp, ht, hpp⟩
  have hnm : nm F i = n := by
    have : lookup F i = some n := hname
    simp [nm, this]
  have hcases := resolve_cases hs hpr (by rw [← hR]; exact hpn) (by rw [← hR]; exact hq) hreg hup
  rw [← hR, ← hI] at hcases
  rcases hcases with ⟨rt, hfind, _, _⟩ | ⟨hfind, h1 | h2 | h3⟩
  · obtain ⟨_, nr, ni, l1, l2, _, _, d1, d2, hp', hdot⟩ := shared_root_path wf hr hn hfind
    have : ni = n := Option.some.inj (l2.symm.trans hname)
    subst this
    left; left
    refine ⟨[nr, ni], ?_, by rw [e, hp', hdot]⟩
    rw [← defIdxPaths_paths]
    exact List.mem_map.mpr ⟨_, d2, rfl⟩
  · left; left
    have d := (defPaths_of_idxPath F h1).1
    simp only [List.map_cons, List.map_nil, hnm] at d
    exact ⟨[n], d, by rw [e, ptrRef_none hfind, dot1]⟩
  · left; right
    have d := (defPaths_of_idxPath F h2).1
    simp only [List.map_append, List.map_cons, List.map_nil, hnm, e3] at d
    rw [e, ptrRef_none hfind]; exact d
  · right
    exact ⟨i, hi, h3, hfind, by rw [e, ptrRef_none hfind]; exact hname⟩

/-- a tree-shaped registry has no `SharedNoRoot` model -/
theorem tree_no_sharedNoRoot {g : Graph} (hT : C12.Tree g) {i : String} (hi : ∃ m ∈ g.models, m.idx = i) :
    ¬ SharedNoRoot g i := by
  obtain ⟨m, hm, rfl⟩ := hi
  obtain ⟨p, hp⟩ := hT m hm
  rintro ⟨_, hlen, _⟩
  rw [filterPointers_eq, hp] at hlen
  by_cases hq : p.parent.isSome = true
  · cases hpp : p.parent with
    | none => rw [hpp] at hq; cases hq
    | some q => simp [List.filter, hpp, parentsOf, insUniqStr] at hlen
  · have : p.parent.isSome = false := by simpa using hq
    simp [List.filter, this, parentsOf] at hlen

/-- a model that only ONE class uses (all pointer records with a parent name the same model) is not `SharedNoRoot` -/
theorem single_use_no_sharedNoRoot {g : Graph} {i q : String}
    (h : ∀ p ∈ g.ptrs, p.target = i → p.parent = none ∨ p.parent = some q) : ¬ SharedNoRoot g i := by
  rintro ⟨_, hlen, _⟩
  have hsub : ∀ x ∈ parentsOf (filterPointers g i), x = q := by
    intro x hx
    obtain ⟨p, hp, hpar⟩ := mem_parentsOf.mp hx
    obtain ⟨h1, h2, _⟩ := mem_filterPointers.mp hp
    rcases h p h1 h2 with h3 | h3
    · rw [h3] at hpar; cases hpar
    · rw [h3] at hpar; exact (Option.some.inj hpar).symm
  have hnd := parentsOf_nodup (filterPointers g i)
  cases hx : parentsOf (filterPointers g i) with
  | nil => rw [hx] at hlen; simp at hlen
  | cons a t =>
    cases t with
    | nil => rw [hx] at hlen; simp at hlen
    | cons b t' =>
      rw [hx] at hsub hnd
      have ha := hsub a (by simp)
      have hb := hsub b (by simp)
      simp only [List.nodup_cons, List.mem_cons, not_or] at hnd
      exact hnd.1.1 (ha.trans hb.symm)

/-- **refs_resolve_nested_single_use**: "for the nested layout this is claimed when each non-root model is referenced
    from exactly one class" — if every model is used by at most one class (`hsingle`), every quoted reference of
    every class of the structure resolves. -/
theorem refs_resolve_nested_single_use {c : RenderCfg} {o : RenderOracles} {g : Graph} {roots : List Node}
    {inj : List (String × String)} {pre : Option String} {text : String} {F : NameMap}
    (wf : WF g) (hfp : FieldsHavePtrs g)
    (hsingle : ∀ i, ∃ q, ∀ p ∈ g.ptrs, p.target = i → p.parent = none ∨ p.parent = some q)
    (hr : composeNested g = .ok (roots, inj))
    (hn : generateCode c o g roots inj pre = .ok (text, F))
    {m : Model} (hm : m ∈ g.models) {P : List String} (hP : (m.idx, P) ∈ defIdxPaths roots F)
    {f : String × Ty} (hf : f ∈ m.fields) {a : Ann} (ha : tyAnn c ⟨F, inj⟩ f.2 = some a) :
    ∀ r ∈ annRefs a, Resolves roots F P r := by
  intro r hr'
  rcases refs_resolve_nested_partial wf hfp hr hn hm hP hf ha r hr' with h | ⟨i, _, hs, _, _⟩
  · exact h
  · obtain ⟨q, hq⟩ := hsingle i
    exact absurd hs (single_use_no_sharedNoRoot hq)

/-! ## 5. the text consists of the classes rendered with the final names -/

/-- **nested_text_final_names**: if `convert_class_name` leaves the prepared names alone (`Rend2.StableOn`, i.e.
    `C03N.ConvFix`; with the real label functions a converted name is a fixed point), the rendering of ANY structure
    ends with the prepared names, and its text is the module of the classes each rendered with these names and the
    environment `⟨F, inj⟩` — the annotations of the text are the `tyAnn c ⟨F, inj⟩` of the theorems above. -/
theorem nested_text_final_names {c : RenderCfg} {o : RenderOracles} {g : Graph} {roots : List Node}
    {inj : List (String × String)} {pre : Option String} {text : String} {F N0 : NameMap}
    (wf : WF g) (hn : generateCode c o g roots inj pre = .ok (text, F))
    (hN0 : prepareNames c o (C03N.names0 g) roots = .ok N0) (hs : StableOn c o N0 (postL roots)) :
    F = N0 ∧ ∃ ts, C12R.nodesText c o g inj F roots = .ok ts ∧ text = C12R.moduleText pre ts :=
  generateCode_text_stable wf.nodup hn hN0 hs

/-- **nested_class_statement**: the text of the class of a node is `… class <final name><bases>:`, then the texts of
    the classes nested in it (indented), then its fields: the class statements of the module are those listed by
    `defPaths`, nested as `defPaths` says -/
theorem nested_class_statement {c : RenderCfg} {o : RenderOracles} {g : Graph} {inj : List (String × String)}
    {F : NameMap} {idx : String} {nested : List Node} {r : List Imp × String}
    (h : nodeText c o g inj F (.mk idx nested) = .ok r) :
    ∃ (rs : List (List Imp × String)) (decos : List String) (flds : String), C12R.nodesText c o g inj F nested = .ok rs ∧
      r.2 = classWarn c ++ (String.join (decos.map (fun d => "@" ++ d ++ "\n")) ++ "class " ++ nm F idx ++
              classBases c ++ ":") ++ C12R.nestedPart (rs.map (·.2)) ++ flds := by
  obtain ⟨p, rs, hp, hrs, _, e⟩ := C12R.nodeText_head h
  obtain ⟨imps, pre', flds⟩ := p
  obtain ⟨lines, decoImps, decos, _, _, _, hpre, _⟩ := C12R.classParts_explicit hp
  refine ⟨rs, decos, flds, hrs, ?_⟩
  rw [e]
  simp only
  rw [hpre]
  rfl

/-! ## non-vacuity -/

/-! ### (a) the chain-shaped registry of `Props/C12R.lean` (`class` → `class_`, `List` → `List_`) -/

example := refs_resolve_nested_tree C03S.exT_WF C12R.exT_tree C12R.exT_rooted C12R.exT_follow C12R.exT_nested
  C12R.exT_text_nested
example := defPaths_complete_tree C12R.exNames C03S.exT_WF C12R.exT_tree C12R.exT_rooted C12R.exT_follow C12R.exT_nested
example := defPaths_unique C12R.exT_nested C12R.exT_text_nested

example : defIdxPaths C12R.exRoots C12R.exNames =
    [("1A", ["class_"]), ("1B", ["class_", "List_"]), ("1C", ["class_", "List_", "C"])] := by decide +kernel

-- the field `b` of `1A` is annotated `'List_'`: the FINAL name of `1B`, whose class is defined at `class_.List_`
example : tyAnn (exCfg .pydantic) ⟨C12R.exNames, []⟩ (.ptr "1B") = some (.fwd "List_") ∧
    Resolves C12R.exRoots C12R.exNames ["class_"] "List_" ∧
    ¬ Resolves C12R.exRoots C12R.exNames ["class_"] "List" := ⟨rfl, by decide +kernel, by decide +kernel⟩

/-! ### (b) a model shared by two sibling classes under one root whose name is converted (`List` → `List_`) -/

def exSh : Graph where
  models := [{ idx := "1A", fields := [("b", .ptr "1B"), ("c", .ptr "1C")], name := some "List" },
             { idx := "1B", fields := [("d", .ptr "1D")], name := some "B" },
             { idx := "1C", fields := [("d", .list (.ptr "1D"))], name := some "C" },
             { idx := "1D", fields := [("y", .opt .str)], name := some "D" }]
  ptrs := [⟨"1A", none, none⟩, ⟨"1B", some "1A", some "b"⟩, ⟨"1C", some "1A", some "c"⟩,
           ⟨"1D", some "1B", some "d"⟩, ⟨"1D", some "1C", some "d"⟩]
  counter := 4
def exShRoots : List Node := [.mk "1A" [.mk "1D" [], .mk "1B" [], .mk "1C" []]]
def exShNames : NameMap := [("1A", some "List_"), ("1B", some "B"), ("1C", some "C"), ("1D", some "D")]

theorem exSh_WF : WF exSh := by
  refine ⟨by decide, ?_, ?_, ?_⟩
  · intro m hm
    simp only [exSh, List.mem_cons, List.mem_nil_iff, or_false] at hm
    rcases hm with rfl | rfl | rfl | rfl
    · exact ⟨0, by simp [exSh], by decide +kernel⟩
    · exact ⟨1, by simp [exSh], by decide +kernel⟩
    · exact ⟨2, by simp [exSh], by decide +kernel⟩
    · exact ⟨3, by simp [exSh], by decide +kernel⟩
  · intro m hm i hi
    simp only [exSh, List.mem_cons, List.mem_nil_iff, or_false] at hm
    rcases hm with rfl | rfl | rfl | rfl
    · simp [ptrsOfFields, ptrsOf] at hi; rcases hi with rfl | rfl <;> simp [idxs, exSh]
    · simp [ptrsOfFields, ptrsOf] at hi; simp [idxs, exSh, hi]
    · simp [ptrsOfFields, ptrsOf] at hi; simp [idxs, exSh, hi]
    · simp [ptrsOfFields, ptrsOf] at hi
  · intro p hp
    simp only [exSh, List.mem_cons, List.mem_nil_iff, or_false] at hp
    rcases hp with rfl | rfl | rfl | rfl | rfl <;> simp [idxs, exSh]

theorem exSh_fhp : FieldsHavePtrs exSh := by
  intro m hm i hi
  simp only [exSh, List.mem_cons, List.mem_nil_iff, or_false] at hm
  rcases hm with rfl | rfl | rfl | rfl
  · simp [fieldsRefs, closeInj, tyRefs] at hi
    rcases hi with rfl | rfl
    · exact ⟨⟨"1B", some "1A", some "b"⟩, by simp [exSh], rfl, rfl⟩
    · exact ⟨⟨"1C", some "1A", some "c"⟩, by simp [exSh], rfl, rfl⟩
  · simp [fieldsRefs, closeInj, tyRefs] at hi; subst hi
    exact ⟨⟨"1D", some "1B", some "d"⟩, by simp [exSh], rfl, rfl⟩
  · simp [fieldsRefs, closeInj, tyRefs] at hi; subst hi
    exact ⟨⟨"1D", some "1C", some "d"⟩, by simp [exSh], rfl, rfl⟩
  · simp [fieldsRefs, closeInj, tyRefs] at hi

theorem exSh_nested : composeNested exSh = .ok (exShRoots, [("1D", "1A")]) :=
  composeNested_of_check (by decide +kernel)

theorem exSh_text : generateCode (exCfg .pydantic) exOracles exSh exShRoots [("1D", "1A")] none = .ok
    ("from pydantic.v1 import BaseModel, Field\nfrom typing import List, Optional\n\n\nclass List_(BaseModel):\n    class D(BaseModel):\n        y: Optional[str] = None\n\n    class B(BaseModel):\n        d: 'List_.D'\n\n    class C(BaseModel):\n        d: List['List_.D']\n\n    b: 'B'\n    c: 'C'\n",
     exShNames) := generateCode_of_eval (by decide +kernel)

-- the hypotheses of `shared_root_path` / `refs_resolve_nested_shared_root` / `refs_resolve_nested_partial` hold
example := shared_root_path exSh_WF exSh_nested exSh_text (i := "1D") (k := "1D") (rt := "1A") (by decide)
example := refs_resolve_nested_shared_root exSh_WF exSh_nested exSh_text
  (m := { idx := "1C", fields := [("d", .list (.ptr "1D"))], name := some "C" }) (by simp [exSh])
  (f := ("d", .list (.ptr "1D"))) (by simp) (a := .list (.fwd "List_.D")) rfl

example : defIdxPaths exShRoots exShNames =
    [("1A", ["List_"]), ("1D", ["List_", "D"]), ("1B", ["List_", "B"]), ("1C", ["List_", "C"])] := by decide +kernel

-- the shared model is referenced by the absolute path built from the FINAL name of the root
example : tyAnn (exCfg .pydantic) ⟨exShNames, [("1D", "1A")]⟩ (.list (.ptr "1D")) = some (.list (.fwd "List_.D")) ∧
    annRefs (Ann.list (.fwd "List_.D")) = ["List_.D"] ∧
    Resolves exShRoots exShNames ["List_", "C"] "List_.D" ∧
    ¬ Resolves exShRoots exShNames ["List_", "C"] "D" ∧ ¬ Resolves exShRoots exShNames ["List_", "C"] "List.D" :=
  ⟨rfl, rfl, by decide +kernel, by decide +kernel, by decide +kernel⟩

example := refs_resolve_nested_partial exSh_WF exSh_fhp exSh_nested exSh_text
  (m := { idx := "1C", fields := [("d", .list (.ptr "1D"))], name := some "C" }) (by simp [exSh])
  (P := ["List_", "C"]) (by decide +kernel)
  (f := ("d", .list (.ptr "1D"))) (by simp) (a := .list (.fwd "List_.D")) rfl

/-! ### (c) a descendant that refers back to the root, whose name needed conversion (`List` → `List_`): the reference
  text is the final class name (names are prepared before anything is rendered) -/

def exBack : Graph where
  models := [{ idx := "1A", fields := [("b", .ptr "1B")], name := some "List" },
             { idx := "1B", fields := [("up", .opt (.ptr "1A")), ("x", .int)], name := some "B" }]
  ptrs := [⟨"1A", none, none⟩, ⟨"1B", some "1A", some "b"⟩, ⟨"1A", some "1B", some "up"⟩]
  counter := 2
def exBackRoots : List Node := [.mk "1A" [.mk "1B" []]]
def exBackNames : NameMap := [("1A", some "List_"), ("1B", some "B")]

theorem exBack_WF : WF exBack := by
  refine ⟨by decide, ?_, ?_, ?_⟩
  · intro m hm
    simp only [exBack, List.mem_cons, List.mem_nil_iff, or_false] at hm
    rcases hm with rfl | rfl
    · exact ⟨0, by simp [exBack], by decide +kernel⟩
    · exact ⟨1, by simp [exBack], by decide +kernel⟩
  · intro m hm i hi
    simp only [exBack, List.mem_cons, List.mem_nil_iff, or_false] at hm
    rcases hm with rfl | rfl <;> simp [ptrsOfFields, ptrsOf] at hi <;> simp [idxs, exBack, hi]
  · intro p hp
    simp only [exBack, List.mem_cons, List.mem_nil_iff, or_false] at hp
    rcases hp with rfl | rfl | rfl <;> simp [idxs, exBack]

theorem exBack_fhp : FieldsHavePtrs exBack := by
  intro m hm i hi
  simp only [exBack, List.mem_cons, List.mem_nil_iff, or_false] at hm
  rcases hm with rfl | rfl
  · simp [fieldsRefs, closeInj, tyRefs] at hi; subst hi
    exact ⟨⟨"1B", some "1A", some "b"⟩, by simp [exBack], rfl, rfl⟩
  · simp [fieldsRefs, closeInj, tyRefs] at hi; subst hi
    exact ⟨⟨"1A", some "1B", some "up"⟩, by simp [exBack], rfl, rfl⟩

theorem exBack_nested : composeNested exBack = .ok (exBackRoots, []) := composeNested_of_check (by decide +kernel)

theorem exBack_text : generateCode (exCfg .pydantic) exOracles exBack exBackRoots [] none = .ok
    ("from pydantic.v1 import BaseModel, Field\nfrom typing import Optional\n\n\nclass List_(BaseModel):\n    class B(BaseModel):\n        x: int\n        up: Optional['List_'] = None\n\n    b: 'B'\n",
     exBackNames) := generateCode_of_eval (by decide +kernel)

-- the registry is not a tree (the root is referred to twice); the general theorem applies to the class of `1B`
example := refs_resolve_nested_partial exBack_WF exBack_fhp exBack_nested exBack_text
  (m := { idx := "1B", fields := [("up", .opt (.ptr "1A")), ("x", .int)], name := some "B" }) (by simp [exBack])
  (P := ["List_", "B"]) (by decide +kernel)
  (f := ("up", .opt (.ptr "1A"))) (by simp) (a := .opt (.fwd "List_")) rfl

example : (convertClassName (exCfg .pydantic) exOracles "List").toOption = some "List_" ∧
    tyAnn (exCfg .pydantic) ⟨exBackNames, []⟩ (.opt (.ptr "1A")) = some (.opt (.fwd "List_")) ∧
    annRefs (Ann.opt (.fwd "List_")) = ["List_"] ∧
    nameOf exBackNames "1A" = some "List_" ∧ ("1A", ["List_"]) ∈ defIdxPaths exBackRoots exBackNames ∧
    Resolves exBackRoots exBackNames ["List_", "B"] "List_" ∧ ¬ Resolves exBackRoots exBackNames ["List_", "B"] "List" := by
  refine ⟨by decide +kernel, rfl, rfl, by decide +kernel, by decide +kernel, by decide +kernel, by decide +kernel⟩

-- `nested_text_final_names`: the prepared names are fixed points of the conversion
theorem exBack_prepared : prepareNames (exCfg .pydantic) exOracles (C03N.names0 exBack) exBackRoots = .ok exBackNames :=
  ok_of_toOption (by decide +kernel)

theorem exBack_stable : StableOn (exCfg .pydantic) exOracles exBackNames (postL exBackRoots) := by
  intro i hi n hn
  have hi' : i = "1B" ∨ i = "1A" := by simpa [exBackRoots] using hi
  rcases hi' with rfl | rfl
  · have e : some "B" = some n := (by decide +kernel : lookup exBackNames "1B" = some "B").symm.trans hn
    cases e; exact ok_of_toOption (by decide +kernel)
  · have e : some "List_" = some n := (by decide +kernel : lookup exBackNames "1A" = some "List_").symm.trans hn
    cases e; exact ok_of_toOption (by decide +kernel)

example := nested_text_final_names exBack_WF exBack_text exBack_prepared exBack_stable

-- every model of `exBack` is used by at most one class: `refs_resolve_nested_single_use` applies
theorem exBack_single : ∀ i, ∃ q, ∀ p ∈ exBack.ptrs, p.target = i → p.parent = none ∨ p.parent = some q := by
  intro i
  by_cases h : i = "1A"
  · subst h
    refine ⟨"1B", fun p hp ht => ?_⟩
    simp only [exBack, List.mem_cons, List.mem_nil_iff, or_false] at hp
    rcases hp with rfl | rfl | rfl <;> simp at ht ⊢
  · refine ⟨"1A", fun p hp ht => ?_⟩
    simp only [exBack, List.mem_cons, List.mem_nil_iff, or_false] at hp
    rcases hp with rfl | rfl | rfl <;> simp_all

example := refs_resolve_nested_single_use exBack_WF exBack_fhp exBack_single exBack_nested exBack_text
  (m := { idx := "1B", fields := [("up", .opt (.ptr "1A")), ("x", .int)], name := some "B" }) (by simp [exBack])
  (P := ["List_", "B"]) (by decide +kernel)
  (f := ("up", .opt (.ptr "1A"))) (by simp) (a := .opt (.fwd "List_")) rfl

/-! ### (d) the full statement is false: a model used by two sibling classes below a root that is itself referred to
  from a field (`1D.up : Optional[Root]`).  `extract_root` finds no parent-less model above `1D`, so `compose_models`
  takes its last branch ("Model is using by only one model"): `1D` is nested in `1B` and referenced by its bare name,
  which the sibling class `1C` cannot resolve. -/

def exCyc : Graph where
  models := [{ idx := "1A", fields := [("b", .ptr "1B"), ("c", .ptr "1C")], name := some "Root" },
             { idx := "1B", fields := [("d", .ptr "1D")], name := some "B" },
             { idx := "1C", fields := [("d", .list (.ptr "1D"))], name := some "C" },
             { idx := "1D", fields := [("up", .opt (.ptr "1A")), ("y", .opt .str)], name := some "D" }]
  ptrs := [⟨"1A", none, none⟩, ⟨"1B", some "1A", some "b"⟩, ⟨"1C", some "1A", some "c"⟩,
           ⟨"1D", some "1B", some "d"⟩, ⟨"1D", some "1C", some "d"⟩, ⟨"1A", some "1D", some "up"⟩]
  counter := 4
def exCycRoots : List Node := [.mk "1A" [.mk "1B" [.mk "1D" []], .mk "1C" []]]
def exCycNames : NameMap := [("1A", some "Root"), ("1B", some "B"), ("1C", some "C"), ("1D", some "D")]

theorem exCyc_WF : WF exCyc := by
  refine ⟨by decide, ?_, ?_, ?_⟩
  · intro m hm
    simp only [exCyc, List.mem_cons, List.mem_nil_iff, or_false] at hm
    rcases hm with rfl | rfl | rfl | rfl
    · exact ⟨0, by simp [exCyc], by decide +kernel⟩
    · exact ⟨1, by simp [exCyc], by decide +kernel⟩
    · exact ⟨2, by simp [exCyc], by decide +kernel⟩
    · exact ⟨3, by simp [exCyc], by decide +kernel⟩
  · intro m hm i hi
    simp only [exCyc, List.mem_cons, List.mem_nil_iff, or_false] at hm
    rcases hm with rfl | rfl | rfl | rfl
    · simp [ptrsOfFields, ptrsOf] at hi; rcases hi with rfl | rfl <;> simp [idxs, exCyc]
    · simp [ptrsOfFields, ptrsOf] at hi; simp [idxs, exCyc, hi]
    · simp [ptrsOfFields, ptrsOf] at hi; simp [idxs, exCyc, hi]
    · simp [ptrsOfFields, ptrsOf] at hi; simp [idxs, exCyc, hi]
  · intro p hp
    simp only [exCyc, List.mem_cons, List.mem_nil_iff, or_false] at hp
    rcases hp with rfl | rfl | rfl | rfl | rfl | rfl <;> simp [idxs, exCyc]

theorem exCyc_fhp : FieldsHavePtrs exCyc := by
  intro m hm i hi
  simp only [exCyc, List.mem_cons, List.mem_nil_iff, or_false] at hm
  rcases hm with rfl | rfl | rfl | rfl
  · simp [fieldsRefs, closeInj, tyRefs] at hi
    rcases hi with rfl | rfl
    · exact ⟨⟨"1B", some "1A", some "b"⟩, by simp [exCyc], rfl, rfl⟩
    · exact ⟨⟨"1C", some "1A", some "c"⟩, by simp [exCyc], rfl, rfl⟩
  · simp [fieldsRefs, closeInj, tyRefs] at hi; subst hi
    exact ⟨⟨"1D", some "1B", some "d"⟩, by simp [exCyc], rfl, rfl⟩
  · simp [fieldsRefs, closeInj, tyRefs] at hi; subst hi
    exact ⟨⟨"1D", some "1C", some "d"⟩, by simp [exCyc], rfl, rfl⟩
  · simp [fieldsRefs, closeInj, tyRefs] at hi; subst hi
    exact ⟨⟨"1A", some "1D", some "up"⟩, by simp [exCyc], rfl, rfl⟩

theorem exCyc_nested : composeNested exCyc = .ok (exCycRoots, []) := composeNested_of_check (by decide +kernel)

theorem exCyc_text : generateCode (exCfg .pydantic) exOracles exCyc exCycRoots [] none = .ok
    ("from pydantic.v1 import BaseModel, Field\nfrom typing import List, Optional\n\n\nclass Root(BaseModel):\n    class B(BaseModel):\n        class D(BaseModel):\n            up: Optional['Root'] = None\n            y: Optional[str] = None\n    \n        d: 'D'\n\n    class C(BaseModel):\n        d: List['D']\n\n    b: 'B'\n    c: 'C'\n",
     exCycNames) := generateCode_of_eval (by decide +kernel)

example : defIdxPaths exCycRoots exCycNames =
    [("1A", ["Root"]), ("1B", ["Root", "B"]), ("1D", ["Root", "B", "D"]), ("1C", ["Root", "C"])] := by decide +kernel

/-- in the class `Root.C` the annotation `List['D']` does not resolve: `D` is defined at `Root.B.D` only -/
theorem exCyc_unresolved : tyAnn (exCfg .pydantic) ⟨exCycNames, []⟩ (.list (.ptr "1D")) = some (.list (.fwd "D")) ∧
    ("1C", ["Root", "C"]) ∈ defIdxPaths exCycRoots exCycNames ∧
    ¬ Resolves exCycRoots exCycNames ["Root", "C"] "D" := ⟨rfl, by decide +kernel, by decide +kernel⟩

/-- **refs_resolve_nested_false**: the full statement does not hold for the model (nor for the Python code: see the
    report) -/
theorem refs_resolve_nested_false : ¬ refs_resolve_nested_Statement := by
  intro h
  have := h (exCfg .pydantic) exOracles exCyc exCycRoots [] none _ exCycNames exCyc_WF exCyc_fhp exCyc_nested exCyc_text
    { idx := "1C", fields := [("d", .list (.ptr "1D"))], name := some "C" } (by simp [exCyc])
    ["Root", "C"] exCyc_unresolved.2.1 ("d", .list (.ptr "1D")) (by simp) (.list (.fwd "D")) rfl "D" (by simp [annRefs])
  exact exCyc_unresolved.2.2 this

/-- the exception of `refs_resolve_nested_partial` is the one that occurs: `1D` is `SharedNoRoot` -/
example : SharedNoRoot exCyc "1D" := by
  refine ⟨by decide +kernel, by decide +kernel, by decide +kernel⟩

end J2M.C03T

#print axioms J2M.C03T.defPaths_unique
#print axioms J2M.C03T.defPaths_complete
#print axioms J2M.C03T.defPaths_complete_tree
#print axioms J2M.C03T.refs_resolve_nested_tree
#print axioms J2M.C03T.shared_root_path
#print axioms J2M.C03T.refs_resolve_nested_shared_root
#print axioms J2M.C03T.refs_resolve_nested_partial
#print axioms J2M.C03T.tree_no_sharedNoRoot
#print axioms J2M.C03T.single_use_no_sharedNoRoot
#print axioms J2M.C03T.refs_resolve_nested_single_use
#print axioms J2M.C03T.nested_text_final_names
#print axioms J2M.C03T.nested_class_statement
#print axioms J2M.C03T.refs_resolve_nested_false
#print axioms J2M.C03T.exCyc_unresolved
