/-
  C01 (rendering part) — "generated models accept every sample they were inferred from": the per-framework view of a
  field type only widens (DESIGN §8.1, theorems 6 `render_sound` and 7 `C01_pipeline_sound`).
  Helper development: `J2M/Proofs/RSound.lean`.

  Vocabulary
  * `Inh acc L t v` (`J2M/Sem.lean`): JSON value `v` lies in the inferred type `t`; `InhFields acc L fs kvs`: object
    `kvs` lies in field dict `fs` (every key a field whose type holds the value, every non-`Optional` field present).
  * `Ann`, `tyAnn c e t` (`Proofs/Render.lean`, `Props/C04.lean`): the annotation `typingCode` prints for `t` under the
    framework style of `c` and the names/path injections `e`.
  * `AnnInh acc pyd cls a v`: value `v` is admitted by annotation `a`, read as the frameworks / `typing` read it:
      `int ∋` ints, `float ∋` floats and ints, `bool`, `str ∋` strings, `None ∋ null`, `Any ∋` everything,
      `List[a]`, `Dict[str, a]`, `Optional[a]`, `Union[…]`, `Literal[…] ∋` the listed strings,
      a pseudo-type class `K` (module `json_to_models.dynamic_typing`) `∋` the strings `K`'s parser accepts (`acc`),
      any other bare name (`date`, `int`, … written by pydantic/sqlmodel for a pseudo-type) as the parameter `pyd` says,
      a quoted reference `'A.B' ∋` the objects accepted by the field table `cls "A.B"` (`TabAccepts`).
  * `ClsTab`: field table of a rendered class — `(key, annotation, has default)` per declared field in class-body order,
    and the `dropped` keys; `TabAccepts … tab kvs`: every key of the object is a declared field whose annotation admits
    the value, or a dropped key carrying `null`; every field without default is present.
  * `tableOf c e fs`: the table of the class `genClass` writes for a model with field dict `fs`
    (`sort_fields`, `_filter_fields`, annotation of the looked-up type per kept key; `none` iff an annotation does not exist);
    `clsOf c e g r`: the table of the registered model whose reference text is `r` — defined FROM the graph.
  * Hypotheses (all named, all explicit):
      `PydBridge acc pyd c` — only where actual types are written (`c.useActual`, i.e. pydantic / sqlmodel);
      `RefsDistinct e g`   — distinct registered models have distinct reference texts (distinct class names);
                             `refsDistinct_of_flat_rendering`: holds for the names a successful flat rendering leaves
                             behind (`_prepare_class_names`), when the conversion leaves the prepared names alone;
      `Typed c e g`        — every registered model's class table exists (`genClass` does not raise in
                             `metadata_to_typing`); `typed_of_WF`: follows from `Reg.WF`, names present, `typable` fields.
-/
import J2M.Proofs.RSound
import J2M.Proofs.RSoundGen
import J2M.Proofs.Render2Eval
import J2M.Props.C01R
namespace J2M.C01S
open J2M J2M.Rend J2M.Reg J2M.RSound

/-! ## 1. `typing_widens` -/

/-- **typing_widens** (every framework style, every layout): every value of the inferred type is admitted by the
    rendered annotation.  Literals beyond the limit and all literals under attrs become `str`, `Unknown` becomes `Any`,
    pseudo-types become their class (exactly the same strings) or — pydantic/sqlmodel — their actual type (bridge),
    model pointers become quoted references to the class table of the same model; everything else is structural. -/
theorem typing_widens {acc : Accepts} {pyd : String → String → Json → Prop} {c : RenderCfg} {e : RefEnv} {g : Graph}
    (hb : c.useActual = true → PydBridge acc pyd c) (hd : RefsDistinct e g) (ht : Typed c e g)
    {t : Ty} {a : Ann} {v : Json} (ha : tyAnn c e t = some a) (h : Inh acc g.look t v) :
    AnnInh acc pyd (clsOf c e g) a v :=
  RSound.typing_widens hb hd ht h a ha

/-- base / attrs / dataclasses: no bridge is involved (`pyd` is arbitrary) -/
theorem typing_widens_exact {acc : Accepts} {pyd : String → String → Json → Prop} {c : RenderCfg} {e : RefEnv}
    {g : Graph} (hfw : c.fw = .base ∨ c.fw = .attrs ∨ c.fw = .dataclasses) (hd : RefsDistinct e g) (ht : Typed c e g)
    {t : Ty} {a : Ann} {v : Json} (ha : tyAnn c e t = some a) (h : Inh acc g.look t v) :
    AnnInh acc pyd (clsOf c e g) a v := by
  refine typing_widens (fun hu => ?_) hd ht ha h
  rw [useActual_false hfw] at hu; cases hu

/-- for the text: what `typingCode` emits is the print of an annotation that admits every value of the type -/
theorem typing_code_widens {acc : Accepts} {pyd : String → String → Json → Prop} {c : RenderCfg} {e : RefEnv}
    {g : Graph} (hb : c.useActual = true → PydBridge acc pyd c) (hd : RefsDistinct e g) (ht : Typed c e g)
    {t : Ty} {imps : List Imp} {s : String} (hc : typingCode c e t = .ok (imps, s)) :
    ∃ a, tyAnn c e t = some a ∧ s = a.print ∧ ∀ v, Inh acc g.look t v → AnnInh acc pyd (clsOf c e g) a v := by
  obtain ⟨a, ha, hs, _⟩ := typingCode_ok c e t imps s hc
  exact ⟨a, ha, hs, fun v h => typing_widens hb hd ht ha h⟩

/-! ## 2. `fields_kept` -/

/-- **fields_kept**: pydantic / sqlmodel's `_filter_fields` removes exactly the keys whose field type is exactly `Null` or
    `Unknown` (`Dropped c fs k := c.useActual ∧ (fs.get? k = some .null ∨ fs.get? k = some .unknown)`) … -/
theorem fields_kept (c : RenderCfg) (fs : Fields) (keys : List String) (k : String) :
    k ∈ filterFields c fs keys ↔ k ∈ keys ∧ ¬ Dropped c fs k := mem_filterFields

/-- … keeping the order of the others … -/
theorem fields_kept_order (c : RenderCfg) (fs : Fields) (keys : List String) :
    (filterFields c fs keys).Sublist keys := filterFields_sublist c fs keys

/-- … and every other framework keeps all fields -/
theorem fields_kept_other {c : RenderCfg} (hfw : c.fw = .base ∨ c.fw = .attrs ∨ c.fw = .dataclasses)
    (fs : Fields) (keys : List String) : filterFields c fs keys = keys := by
  exact filterFields_other (useActual_false hfw) fs keys

/-- `useActual` is "pydantic or sqlmodel" -/
theorem useActual_iff (c : RenderCfg) : c.useActual = true ↔ c.fw = .pydantic ∨ c.fw = .sqlmodel :=
  RSound.useActual_iff c

/-- the declared fields of the class table: one entry per kept key, flagged "has default" iff the field type is an
    `Optional` -/
theorem table_fields {c : RenderCfg} {e : RefEnv} {fs : Fields} {tab : ClsTab} (h : tableOf c e fs = some tab) :
    (∀ x ∈ tab.fields, ¬ Dropped c fs x.1 ∧ (∃ t, (x.1, t) ∈ fs ∧ t.isOpt = x.2.2) ∧
        tyAnn c e ((fs.get? x.1).getD .unknown) = some x.2.1) ∧
    (∀ k t, (k, t) ∈ fs → ¬ Dropped c fs k → ∃ a, (k, a, t.isOpt) ∈ tab.fields) ∧
    (∀ k, k ∈ tab.dropped ↔ k ∈ fs.keys ∧ Dropped c fs k) := by
  unfold tableOf at h
  obtain ⟨es, hes, rfl⟩ := Option.map_eq_some_iff.1 h
  obtain ⟨i1, i2⟩ := annEntries_spec hes
  refine ⟨fun x hx => ?_, fun k t hm hd => ?_, fun k => mem_droppedKeys⟩
  · obtain ⟨a, b⟩ := i1 x hx
    exact ⟨(mem_keptKeys.1 a).1, (mem_keptKeys.1 a).2, b⟩
  · exact i2 (k, t.isOpt) (mem_keptKeys.2 ⟨hd, t, hm, rfl⟩)

/-! ## 3. `class_accepts` -/

/-- **class_accepts**: an object accepted by a registered model is accepted by the field table of the class rendered
    for it. -/
theorem class_accepts {acc : Accepts} {pyd : String → String → Json → Prop} {c : RenderCfg} {e : RefEnv} {g : Graph}
    (hb : c.useActual = true → PydBridge acc pyd c) (hd : RefsDistinct e g) (ht : Typed c e g)
    {m : Model} (hm : m ∈ g.models) {kvs : List (String × Json)} (h : InhFields acc g.look m.fields kvs) :
    ∃ tab, tableOf c e m.fields = some tab ∧ TabAccepts acc pyd (clsOf c e g) tab kvs :=
  RSound.class_accepts hb hd ht hm h

/-- the removed keys, faithfully: in an object of the model
    * no key belongs to a field of type exactly `Unknown` (`Unknown` admits nothing),
    * a key whose field has type exactly `Null` carries `null`,
    so the only keys of the object that the pydantic / sqlmodel class does not declare carry `null`; and a model with a
    REQUIRED field of type exactly `Unknown` has no objects at all. -/
theorem class_accepts_dropped {acc : Accepts} {c : RenderCfg} {g : Graph} {m : Model}
    {kvs : List (String × Json)} (h : InhFields acc g.look m.fields kvs) :
    (∀ kv ∈ kvs, Dropped c m.fields kv.1 → m.fields.get? kv.1 = some .null ∧ kv.2 = .null) ∧
    (∀ k, m.fields.get? k = some .unknown → False) := by
  obtain ⟨h1, h2⟩ := dropped_key_facts h
  refine ⟨fun kv hkv hd => ?_, fun k hk => no_object_of_unknown_field hk h⟩
  rcases hd.2 with e | e
  · exact ⟨e, h2 kv hkv e⟩
  · exact absurd e (h1 kv hkv)

/-- base / attrs / dataclasses: nothing is dropped — every key of the object is a declared field -/
theorem class_accepts_exact {acc : Accepts} {pyd : String → String → Json → Prop} {c : RenderCfg} {e : RefEnv}
    {g : Graph} (hfw : c.fw = .base ∨ c.fw = .attrs ∨ c.fw = .dataclasses) (hd : RefsDistinct e g) (ht : Typed c e g)
    {m : Model} (hm : m ∈ g.models) {kvs : List (String × Json)} (h : InhFields acc g.look m.fields kvs) :
    ∃ tab, tableOf c e m.fields = some tab ∧ tab.dropped = [] ∧ TabAccepts acc pyd (clsOf c e g) tab kvs ∧
      ∀ kv ∈ kvs, ∃ x ∈ tab.fields, x.1 = kv.1 := by
  have hu : c.useActual = false := useActual_false hfw
  obtain ⟨tab, htab, hacc⟩ := class_accepts (pyd := pyd) (fun h' => by rw [hu] at h'; cases h') hd ht hm h
  have hdr : tab.dropped = [] := by
    unfold tableOf at htab
    obtain ⟨es, _, rfl⟩ := Option.map_eq_some_iff.1 htab
    exact droppedKeys_other hu _
  refine ⟨tab, htab, hdr, hacc, fun kv hkv => ?_⟩
  rcases hacc.1 kv hkv with h' | ⟨h', _⟩
  · exact h'
  · rw [hdr] at h'; cases h'

/-! ## 4. `C01_pipeline_sound` -/

/-- **C01_pipeline_sound**: `generate` + `process_meta_data` of every named sample list, `merge_models` (any
    comparators), `generate_names`; then for EVERY framework style `c` and name/path table `e` satisfying the three
    hypotheses, every input has a root model all of whose samples are accepted by the field table of the class
    rendered for that model — for base / attrs / dataclasses with nothing dropped and no bridge
    (`hb` is vacuous there, see `C01_pipeline_sound_exact`), for pydantic / sqlmodel under `PydBridge`. -/
theorem C01_pipeline_sound {cfg : GenCfg} {o : GenOracles} {cmps : List Cmp} {inputs : List (String × List Json)}
    {g0 g1 g2 : Graph} {repl : List (String × List String)} {no : NameOracles}
    {pyd : String → String → Json → Prop} {c : RenderCfg} {e : RefEnv}
    (hwf : ∀ inp ∈ inputs, ∀ s ∈ inp.2, Json.WF s)
    (hnames : ∀ k ∈ cfg.reg.types, wfSerName k = true)
    (hrep : ReplacesSound o.accepts cfg.reg) (hrank : ReplacesRanked cfg.reg)
    (h0 : buildGraph cfg o inputs = .ok g0) (h1 : mergeModels cfg o.str cmps g0 = .ok (g1, repl))
    (h2 : generateNames no g1 = .ok g2)
    (hb : c.useActual = true → PydBridge o.accepts pyd c) (hd : RefsDistinct e g2) (ht : Typed c e g2) :
    WF g2 ∧ ∀ inp ∈ inputs, ∃ root, ∀ s ∈ inp.2,
      ∃ m ∈ g2.models, m.idx = root ∧ ∃ tab kvs, tableOf c e m.fields = some tab ∧ s = .obj kvs ∧
        TabAccepts o.accepts pyd (clsOf c e g2) tab kvs := by
  obtain ⟨wf1, hr⟩ := C01R.registry_sound hwf hnames hrep hrank h0 h1
  refine ⟨generateNames_WF h2 wf1, fun inp hinp => ?_⟩
  obtain ⟨root, hroot⟩ := hr inp hinp
  refine ⟨root, fun s hs => ?_⟩
  have hi := hroot s hs
  rw [← generateNames_look h2] at hi
  cases hi with
  | @ptr i fs kvs hg a b c' =>
    obtain ⟨m, hm, hidx, hf⟩ := look_eq_some hg
    subst hf
    obtain ⟨tab, htab, hacc⟩ := class_accepts hb hd ht hm ⟨a, b, c'⟩
    exact ⟨m, hm, hidx, tab, kvs, htab, rfl, hacc⟩

/-- base / attrs / dataclasses: exactly — no bridge, every key of every sample is a declared field of the class -/
theorem C01_pipeline_sound_exact {cfg : GenCfg} {o : GenOracles} {cmps : List Cmp}
    {inputs : List (String × List Json)} {g0 g1 g2 : Graph} {repl : List (String × List String)} {no : NameOracles}
    {pyd : String → String → Json → Prop} {c : RenderCfg} {e : RefEnv}
    (hwf : ∀ inp ∈ inputs, ∀ s ∈ inp.2, Json.WF s)
    (hnames : ∀ k ∈ cfg.reg.types, wfSerName k = true)
    (hrep : ReplacesSound o.accepts cfg.reg) (hrank : ReplacesRanked cfg.reg)
    (h0 : buildGraph cfg o inputs = .ok g0) (h1 : mergeModels cfg o.str cmps g0 = .ok (g1, repl))
    (h2 : generateNames no g1 = .ok g2)
    (hfw : c.fw = .base ∨ c.fw = .attrs ∨ c.fw = .dataclasses) (hd : RefsDistinct e g2) (ht : Typed c e g2) :
    ∀ inp ∈ inputs, ∃ root, ∀ s ∈ inp.2,
      ∃ m ∈ g2.models, m.idx = root ∧ ∃ tab kvs, tableOf c e m.fields = some tab ∧ tab.dropped = [] ∧ s = .obj kvs ∧
        TabAccepts o.accepts pyd (clsOf c e g2) tab kvs ∧ ∀ kv ∈ kvs, ∃ x ∈ tab.fields, x.1 = kv.1 := by
  have hu : c.useActual = false := useActual_false hfw
  obtain ⟨_, hr⟩ := C01_pipeline_sound (pyd := pyd) hwf hnames hrep hrank h0 h1 h2
    (fun h' => by rw [hu] at h'; cases h') hd ht
  intro inp hinp
  obtain ⟨root, hroot⟩ := hr inp hinp
  refine ⟨root, fun s hs => ?_⟩
  obtain ⟨m, hm, hidx, tab, kvs, htab, rfl, hacc⟩ := hroot s hs
  have hdr : tab.dropped = [] := by
    unfold tableOf at htab
    obtain ⟨es, _, rfl⟩ := Option.map_eq_some_iff.1 htab
    exact droppedKeys_other hu _
  refine ⟨m, hm, hidx, tab, kvs, htab, hdr, rfl, hacc, fun kv hkv => ?_⟩
  rcases hacc.1 kv hkv with h' | ⟨h', _⟩
  · exact h'
  · rw [hdr] at h'; cases h'

/-! ## 5. the table is the table of the class `genClass` writes; successful rendering gives `Typed`

  `Rend2.classLines c o e m` (Proofs/Render2Class.lean) are the field lines of `genClass c o e m _`, in class-body order
  (`C12R.genClass_decomp` / `C12R.classParts_explicit`). -/

/-- **table_is_class_body**: whenever the field lines of the class can be written, the class table exists and
    corresponds to the lines one to one, in order: the `i`-th line is `name: A` + default part, where `A` is the print of
    the `i`-th entry's annotation and `name` is the converted key of that entry -/
theorem table_is_class_body {c : RenderCfg} {o : RenderOracles} {e : RefEnv} {m : Model}
    {lines : List (List Imp × String)} (h : Rend2.classLines c o e m = .ok lines) :
    ∃ tab, tableOf c e m.fields = some tab ∧
      List.Forall₂ (fun (ln : List Imp × String) (x : String × Ann × Bool) =>
        ∃ name rest, convertFieldName c o x.1 = .ok name ∧ ln.2 = name ++ ": " ++ x.2.1.print ++ rest)
        lines tab.fields :=
  classLines_table h

/-- a class that `genClass` can write has a table -/
theorem genClass_has_table {c : RenderCfg} {o : RenderOracles} {e : RefEnv} {m : Model} {nested : List String}
    {r : List Imp × String} (h : genClass c o e m nested = .ok r) : (tableOf c e m.fields).isSome = true :=
  table_of_genClass h

/-- `Typed` from a successful flat rendering -/
theorem typed_of_flat_rendering {c : RenderCfg} {o : RenderOracles} {g : Graph} {l : List String}
    {pre : Option String} {text : String} {F : NameMap} (wf : WF g) (hl : composeFlat g = .ok l)
    (h : generateCode c o g (l.map (fun i => Node.mk i [])) [] pre = .ok (text, F)) : Typed c ⟨F, []⟩ g :=
  typed_of_flat wf.nodup hl h

/-- `Typed` from the registry: well-formed, every model named in the table, every field type `typable` -/
theorem typed_of_registry {c : RenderCfg} {e : RefEnv} {g : Graph} (wf : WF g)
    (hn : ∀ m ∈ g.models, (e.name? m.idx).isSome = true)
    (hty : ∀ m ∈ g.models, ∀ f ∈ m.fields, typable c f.2 = true) : Typed c e g :=
  typed_of_WF wf hn hty

/-- **C01_pipeline_sound_flat**: the whole pipeline with the flat layout.  If `generate_code` succeeds on the flat
    structure of the named registry, leaving the names `F`, then — under the bridge (pydantic / sqlmodel only) and
    distinct final class names — every sample is accepted by the field table of its root model's class, the class
    tables being those of the classes the module text consists of (`table_is_class_body`, `C03S.refs_resolve_flat_module`). -/
theorem C01_pipeline_sound_flat {cfg : GenCfg} {o : GenOracles} {cmps : List Cmp}
    {inputs : List (String × List Json)} {g0 g1 g2 : Graph} {repl : List (String × List String)} {no : NameOracles}
    {pyd : String → String → Json → Prop} {c : RenderCfg} {ro : RenderOracles} {l : List String}
    {pre : Option String} {text : String} {F : NameMap}
    (hwf : ∀ inp ∈ inputs, ∀ s ∈ inp.2, Json.WF s)
    (hnames : ∀ k ∈ cfg.reg.types, wfSerName k = true)
    (hrep : ReplacesSound o.accepts cfg.reg) (hrank : ReplacesRanked cfg.reg)
    (h0 : buildGraph cfg o inputs = .ok g0) (h1 : mergeModels cfg o.str cmps g0 = .ok (g1, repl))
    (h2 : generateNames no g1 = .ok g2) (hl : composeFlat g2 = .ok l)
    (hg : generateCode c ro g2 (l.map (fun i => Node.mk i [])) [] pre = .ok (text, F))
    (hb : c.useActual = true → PydBridge o.accepts pyd c) (hd : RefsDistinct ⟨F, []⟩ g2) :
    ∀ inp ∈ inputs, ∃ root, ∀ s ∈ inp.2,
      ∃ m ∈ g2.models, m.idx = root ∧ ∃ tab kvs, tableOf c ⟨F, []⟩ m.fields = some tab ∧ s = .obj kvs ∧
        TabAccepts o.accepts pyd (clsOf c ⟨F, []⟩ g2) tab kvs := by
  have wf2 : WF g2 := generateNames_WF h2 (C01R.registry_sound hwf hnames hrep hrank h0 h1).1
  exact (C01_pipeline_sound hwf hnames hrep hrank h0 h1 h2 hb hd (typed_of_flat_rendering wf2 hl hg)).2

/-- `ConvFix c o N0 is`: `convert_class_name` leaves the names prepared by `_prepare_class_names` alone (the generator
    constructors convert every name once more); `C03N.ConvFix` -/
def ConvFix (c : RenderCfg) (o : RenderOracles) (N0 : NameMap) (is : List String) : Prop :=
  ∀ i ∈ is, ∀ n, nameOf N0 i = some n → convertClassName c o n = .ok n

/-- **refsDistinct_of_flat_rendering**: since `generate_code` makes the converted class names unique
    (`_prepare_class_names`), `RefsDistinct` holds for the names a successful flat rendering leaves behind — provided
    the conversion leaves the prepared names `N0` alone (`C03N.generateCode_class_names_distinct`). -/
theorem refsDistinct_of_flat_rendering {c : RenderCfg} {o : RenderOracles} {g : Graph} {l : List String}
    {pre : Option String} {text : String} {F N0 : NameMap} (nd : (idxs g).Nodup) (hl : composeFlat g = .ok l)
    (h : generateCode c o g (l.map (fun i => Node.mk i [])) [] pre = .ok (text, F))
    (hN0 : prepareNames c o (g.models.map (fun m => (m.idx, m.name))) (l.map (fun i => Node.mk i [])) = .ok N0)
    (hfix : ConvFix c o N0 l) : RefsDistinct ⟨F, []⟩ g := by
  have hs : Rend2.StableOn c o N0 (Rend2.postL (l.map (fun i => Node.mk i []))) := by
    rw [Rend2.postL_flat]; exact hfix
  have hnd := Rend2.generateCode_names_nodup h hN0 hs
  rw [Rend2.postL_flat] at hnd
  have hd := (PrepNames.nodup_map_distinct.mp hnd).2
  have hmem : ∀ m ∈ g.models, m.idx ∈ l := fun m hm =>
    (LayoutP.composeFlat_perm hl).mem_iff.mpr (List.mem_map_of_mem hm)
  refine refsDistinct_flat nd (fun m hm m' hm' r h1 h2 => ?_)
  apply Classical.byContradiction
  intro hne
  exact hd m.idx (hmem m hm) m'.idx (hmem m' hm') hne (h1.trans h2.symm)

/-- **C01_pipeline_sound_flat_prepared**: `C01_pipeline_sound_flat` with the hypothesis "distinct final class names"
    replaced by what the code under test needs to establish it: the conversion leaves the prepared names alone. -/
theorem C01_pipeline_sound_flat_prepared {cfg : GenCfg} {o : GenOracles} {cmps : List Cmp}
    {inputs : List (String × List Json)} {g0 g1 g2 : Graph} {repl : List (String × List String)} {no : NameOracles}
    {pyd : String → String → Json → Prop} {c : RenderCfg} {ro : RenderOracles} {l : List String}
    {pre : Option String} {text : String} {F N0 : NameMap}
    (hwf : ∀ inp ∈ inputs, ∀ s ∈ inp.2, Json.WF s)
    (hnames : ∀ k ∈ cfg.reg.types, wfSerName k = true)
    (hrep : ReplacesSound o.accepts cfg.reg) (hrank : ReplacesRanked cfg.reg)
    (h0 : buildGraph cfg o inputs = .ok g0) (h1 : mergeModels cfg o.str cmps g0 = .ok (g1, repl))
    (h2 : generateNames no g1 = .ok g2) (hl : composeFlat g2 = .ok l)
    (hg : generateCode c ro g2 (l.map (fun i => Node.mk i [])) [] pre = .ok (text, F))
    (hb : c.useActual = true → PydBridge o.accepts pyd c)
    (hN0 : prepareNames c ro (g2.models.map (fun m => (m.idx, m.name))) (l.map (fun i => Node.mk i [])) = .ok N0)
    (hfix : ConvFix c ro N0 l) :
    RefsDistinct ⟨F, []⟩ g2 ∧
    ∀ inp ∈ inputs, ∃ root, ∀ s ∈ inp.2,
      ∃ m ∈ g2.models, m.idx = root ∧ ∃ tab kvs, tableOf c ⟨F, []⟩ m.fields = some tab ∧ s = .obj kvs ∧
        TabAccepts o.accepts pyd (clsOf c ⟨F, []⟩ g2) tab kvs := by
  have wf2 : WF g2 := generateNames_WF h2 (C01R.registry_sound hwf hnames hrep hrank h0 h1).1
  have hd := refsDistinct_of_flat_rendering wf2.nodup hl hg hN0 hfix
  exact ⟨hd, C01_pipeline_sound_flat hwf hnames hrep hrank h0 h1 h2 hl hg hb hd⟩

/-! ## non-vacuity -/

def cfgP : RenderCfg where
  fw := .pydantic
  maxLiterals := 2
  postInit := false
  convertUnicode := true
  withMeta := false
  decoKwargs := []
  literalModule := "typing"
  blacklist := []
  serInfo := [("IntString", "int", "builtins"), ("IsoDateString", "date", "datetime")]
  metadataFieldName := "J2M_ORIGINAL_FIELD"
def cfgA : RenderCfg := { cfgP with fw := .attrs }

/-- the widening is strict in general: under attrs a literal is shown as `str`, which admits strings the literal does
    not -/
example : tyAnn cfgA ⟨[], []⟩ (.lit false ["a"]) = some .str ∧
    AnnInh (fun _ _ => none) (fun _ _ _ => False) (fun _ => none) .str (.str "zzz") ∧
    ¬ Inh (fun _ _ => none) (fun _ => none) (.lit false ["a"]) (.str "zzz") := by
  refine ⟨rfl, .str, fun h => ?_⟩
  cases h with
  | lit h => simp at h

/-- a registry with a shared, self-referential model, a pseudo-type, a literal over the limit, a `Null` field and an
    optional `Unknown`-list -/
def mRoot : Model :=
  { idx := "1A", fields := [("b", .ptr "1B"), ("n", .null), ("when", .ser "IsoDateString"),
      ("kind", .lit false ["x", "y", "z"])], name := some "Root" }
def mB : Model := { idx := "1B", fields := [("self", .opt (.ptr "1B")), ("xs", .list .unknown)], name := some "B" }
def gEx : Graph where
  models := [mRoot, mB]
  ptrs := [⟨"1A", none, none⟩, ⟨"1B", some "1A", some "b"⟩, ⟨"1B", some "1B", some "self"⟩]
  counter := 2

def eEx : RefEnv := ⟨[("1A", some "Root"), ("1B", some "B")], []⟩
def accEx : Accepts := fun k s => some (k == "IsoDateString" && s == "2020-01-01")
/-- a stand-in for pydantic's reading of `date` / `int`: any string -/
def pydEx : String → String → Json → Prop := fun _ _ v => ∃ s, v = .str s

theorem exBridge : PydBridge accEx pydEx cfgP := by
  intro k p hp s _
  unfold nameSem
  have : p.2.2 ≠ "json_to_models.dynamic_typing" := by
    simp only [cfgP, List.find?_cons] at hp
    split at hp
    · cases hp; decide
    · split at hp
      · cases hp; decide
      · simp at hp
  rw [if_neg this]
  exact ⟨s, rfl⟩

theorem exDistinct : RefsDistinct eEx gEx := by
  intro m hm m' hm' r h1 h2
  simp only [gEx, List.mem_cons, List.mem_nil_iff, or_false] at hm hm'
  rcases hm with rfl | rfl <;> rcases hm' with rfl | rfl <;> first | rfl | (exfalso; revert h1 h2; decide +revert)

theorem exTypedP : Typed cfgP eEx gEx := by
  intro m hm
  simp only [gEx, List.mem_cons, List.mem_nil_iff, or_false] at hm
  rcases hm with rfl | rfl <;> rfl

theorem exTypedA : Typed cfgA eEx gEx := by
  intro m hm
  simp only [gEx, List.mem_cons, List.mem_nil_iff, or_false] at hm
  rcases hm with rfl | rfl <;> rfl

/-- the tables: pydantic drops `n` (type `Null`), writes `date` and — 3 values ≥ limit 2 — `str`; attrs keeps `n` -/
example : (tableOf cfgP eEx mRoot.fields).map (fun t => (t.fields, t.dropped)) =
    some ([("b", .fwd "B", false), ("when", .cls "datetime" "date", false), ("kind", .str, false)], ["n"]) := rfl
example : (tableOf cfgA eEx mRoot.fields).map (fun t => (t.fields, t.dropped)) =
    some ([("b", .fwd "B", false), ("n", .none, false), ("when", .cls "json_to_models.dynamic_typing" "IsoDateString", false),
           ("kind", .str, false)], []) := rfl

def sampleEx : List (String × Json) :=
  [("b", .obj [("self", .obj [("xs", .arr [])]), ("xs", .arr [])]), ("n", .null), ("when", .str "2020-01-01"),
   ("kind", .str "y")]

theorem exInh : InhFields accEx gEx.look mRoot.fields sampleEx := by
  have hB : gEx.look "1B" = some [("self", .opt (.ptr "1B")), ("xs", .list .unknown)] := rfl
  have inner : Inh accEx gEx.look (.ptr "1B") (.obj [("xs", .arr [])]) := by
    refine .ptr hB (by simp [Fields.get?]) ?_ ?_
    · intro kv hkv t ht
      simp at hkv; subst hkv
      simp [Fields.get?] at ht; subst ht
      exact .list (by simp)
    · intro ft hft ho
      simp at hft
      rcases hft with rfl | rfl
      · simp [Ty.isOpt] at ho
      · exact ⟨("xs", .arr []), by simp, rfl⟩
  have outer : Inh accEx gEx.look (.ptr "1B") (.obj [("self", .obj [("xs", .arr [])]), ("xs", .arr [])]) := by
    refine .ptr hB (by simp [Fields.get?]) ?_ ?_
    · intro kv hkv t ht
      simp at hkv
      rcases hkv with rfl | rfl
      · simp [Fields.get?] at ht; subst ht; exact .optSome inner
      · simp [Fields.get?] at ht; subst ht; exact .list (by simp)
    · intro ft hft ho
      simp at hft
      rcases hft with rfl | rfl
      · simp [Ty.isOpt] at ho
      · exact ⟨("xs", .arr []), by simp, rfl⟩
  refine ⟨by simp [sampleEx, mRoot, Fields.get?], ?_, ?_⟩
  · intro kv hkv t ht
    simp [sampleEx] at hkv
    rcases hkv with rfl | rfl | rfl | rfl <;> simp [mRoot, Fields.get?] at ht <;> subst ht
    · exact outer
    · exact .null
    · exact .ser rfl
    · exact .lit (by simp)
  · intro ft hft ho
    simp [mRoot] at hft
    rcases hft with rfl | rfl | rfl | rfl
    · exact ⟨_, List.mem_cons_self .., rfl⟩
    · exact ⟨("n", .null), by simp [sampleEx], rfl⟩
    · exact ⟨("when", .str "2020-01-01"), by simp [sampleEx], rfl⟩
    · exact ⟨("kind", .str "y"), by simp [sampleEx], rfl⟩

-- all hypotheses of `class_accepts` hold: the sample is accepted by the pydantic table (with `n` dropped, carrying null)
example := class_accepts (pyd := pydEx) (fun _ => exBridge) exDistinct exTypedP (List.mem_cons_self ..) exInh
-- … and by the attrs table, where nothing is dropped
example := class_accepts_exact (pyd := pydEx) (c := cfgA) (Or.inr (Or.inl rfl)) exDistinct exTypedA
  (List.mem_cons_self ..) exInh

-- `Dropped`: under pydantic `n` is, `b` is not; under attrs nothing is
example : Dropped cfgP mRoot.fields "n" ∧ ¬ Dropped cfgP mRoot.fields "b" ∧
    ¬ Dropped cfgA mRoot.fields "n" := by
  refine ⟨⟨rfl, Or.inl rfl⟩, ?_, ?_⟩
  · rintro ⟨_, h | h⟩ <;> simp [mRoot, Fields.get?] at h
  · rintro ⟨h, _⟩; cases h

/-! ### `RefsDistinct` cannot be dropped

  Two registered models whose classes get the same name: a quoted reference `'A'` denotes ONE class (in `clsOf` the first
  registered one, in Python the one defined last), so a field pointing to the other model is annotated with a class
  that does not accept its objects. -/

def gDup : Graph where
  models := [{ idx := "1A", fields := [("x", .int)], name := some "A" },
             { idx := "1B", fields := [("y", .str)], name := some "A" }]
  ptrs := [⟨"1A", none, none⟩, ⟨"1B", none, none⟩]
  counter := 2
def eDup : RefEnv := ⟨[("1A", some "A"), ("1B", some "A")], []⟩

/-- `typing_widens` without `RefsDistinct` -/
def typing_widens_no_distinct_Statement : Prop :=
  ∀ (acc : Accepts) (pyd : String → String → Json → Prop) (c : RenderCfg) (e : RefEnv) (g : Graph),
    (c.useActual = true → PydBridge acc pyd c) → Typed c e g →
    ∀ (t : Ty) (a : Ann) (v : Json), tyAnn c e t = some a → Inh acc g.look t v → AnnInh acc pyd (clsOf c e g) a v

theorem typing_widens_no_distinct_false : ¬ typing_widens_no_distinct_Statement := by
  intro H
  have hT : Typed cfgA eDup gDup := by
    intro m hm
    simp only [gDup, List.mem_cons, List.mem_nil_iff, or_false] at hm
    rcases hm with rfl | rfl <;> rfl
  have hI : Inh (fun _ _ => none) gDup.look (.ptr "1B") (.obj [("y", .str "s")]) := by
    refine .ptr (fs := [("y", .str)]) rfl (by simp [Fields.get?]) ?_ ?_
    · intro kv hkv t ht
      simp at hkv; subst hkv
      simp [Fields.get?] at ht; subst ht
      exact .str
    · intro ft hft _
      simp at hft; subst hft
      exact ⟨("y", .str "s"), by simp, rfl⟩
  have := H (fun _ _ => none) (fun _ _ _ => False) cfgA eDup gDup (fun h => by cases h) hT
    (.ptr "1B") (.fwd "A") _ rfl hI
  obtain ⟨tab, kvs, hc, hv, hacc, _, _⟩ := annInh_fwd_iff.1 this
  have hc' : clsOf cfgA eDup gDup "A" = some ⟨[("x", .int, false)], []⟩ := rfl
  rw [hc'] at hc
  cases hc
  cases hv
  rcases hacc ("y", .str "s") (by simp) with ⟨x, hx, hxe⟩ | ⟨hd, _⟩
  · simp at hx; subst hx; simp at hxe
  · simp at hd

/-! ### … and the code under test now establishes it: class names that coincide only after `convert_class_name`

  Input `[{"p": {"a.b": {"x": 1}}, "q": {"ab": {"y": "s"}}}]` (pydantic, flat).  `generate_names` calls the two inner
  models `A.b` and `Ab`; `fix_name_duplicates` sees two different names; `convert_class_name` strips the dot.  Before
  `_prepare_class_names` existed (conversion only in the generator constructor) the module defined `class Ab` twice,
  `P.ab: 'Ab'` and `Q.ab: 'Ab'` denoted the same class, `RefsDistinct` failed for the final names and
  `Root.parse_obj(sample)` raised.  `generate_code` now converts all names first and appends the model index to every
  converted name that is shared: the classes are `Ab_1C` and `Ab_1E`, `RefsDistinct` holds, and the objects of both
  models are accepted.  (General statement: `C03N.generateCode_class_names_distinct`.) -/

/-- label oracles with the real `\W` removal on the characters involved -/
def oClash : RenderOracles where
  label := { unidecode := some,
             stripW := fun s => some (String.ofList (s.toList.filter (fun ch => ch.isAlphanum || ch == '_'))),
             underscore := some, lowerAz := fun _ => some false }
  isPrintable := fun _ => true

/-- the registry after `generate_names` for the input above -/
def gClash : Graph where
  models := [{ idx := "1A", fields := [("p", .ptr "1B"), ("q", .ptr "1D")], name := some "Root", nameGen := some false },
             { idx := "1B", fields := [("a.b", .ptr "1C")], name := some "P", nameGen := some true },
             { idx := "1C", fields := [("x", .int)], name := some "A.b", nameGen := some true },
             { idx := "1D", fields := [("ab", .ptr "1E")], name := some "Q", nameGen := some true },
             { idx := "1E", fields := [("y", .lit false ["s"])], name := some "Ab", nameGen := some true }]
  ptrs := [⟨"1A", none, none⟩, ⟨"1B", some "1A", some "p"⟩, ⟨"1C", some "1B", some "a.b"⟩,
           ⟨"1D", some "1A", some "q"⟩, ⟨"1E", some "1D", some "ab"⟩]
  counter := 5
def FClash : NameMap :=
  [("1A", some "Root"), ("1B", some "P"), ("1C", some "Ab_1C"), ("1D", some "Q"), ("1E", some "Ab_1E")]

/-- `fix_name_duplicates` has nothing to do: the names are pairwise distinct before the conversion -/
example : (gClash.models.map (·.name)).Nodup ∧ (fixNameDuplicates gClash.models).map (·.name) = gClash.models.map (·.name) := by
  decide

/-- … and the conversion alone maps both `A.b` and `Ab` to `Ab` -/
example : (convertClassName (Rend2.exCfg .pydantic) oClash "A.b").toOption = some "Ab" ∧
    (convertClassName (Rend2.exCfg .pydantic) oClash "Ab").toOption = some "Ab" := by decide +kernel

theorem exClash_text : generateCode (Rend2.exCfg .pydantic) oClash gClash
    (["1A", "1B", "1C", "1D", "1E"].map (fun i => Node.mk i [])) [] none = .ok
      ("from pydantic.v1 import BaseModel, Field\nfrom typing import Literal\n\n\nclass Root(BaseModel):\n    p: 'P'\n    q: 'Q'\n\n\nclass P(BaseModel):\n    ab: 'Ab_1C' = Field(..., alias=\"a.b\")\n\n\nclass Ab_1C(BaseModel):\n    x: int\n\n\nclass Q(BaseModel):\n    ab: 'Ab_1E'\n\n\nclass Ab_1E(BaseModel):\n    y: Literal[\"s\"]\n",
       FClash) := Rend2.generateCode_of_eval (by decide +kernel)

/-- the clash is resolved: the two classes are emitted under different names … -/
theorem exClash_resolved : Rend2.lookup FClash "1C" = some "Ab_1C" ∧ Rend2.lookup FClash "1E" = some "Ab_1E" ∧
    Rend2.lookup FClash "1C" ≠ Rend2.lookup FClash "1E" := by decide

/-- … the final names satisfy `RefsDistinct` … -/
theorem exClash_distinct : RefsDistinct ⟨FClash, []⟩ gClash := by
  refine refsDistinct_flat (by decide) ?_
  intro m hm m' hm' r h1 h2
  simp only [gClash, List.mem_cons, List.mem_nil_iff, or_false] at hm hm'
  rcases hm with rfl | rfl | rfl | rfl | rfl <;> rcases hm' with rfl | rfl | rfl | rfl | rfl <;>
    first | rfl | (exfalso; revert h1 h2; decide +revert)

theorem exClash_typed : Typed (Rend2.exCfg .pydantic) ⟨FClash, []⟩ gClash := by
  intro m hm
  simp only [gClash, List.mem_cons, List.mem_nil_iff, or_false] at hm
  rcases hm with rfl | rfl | rfl | rfl | rfl <;> rfl

/-- … and the conclusion of `typing_widens` holds where it failed: the object `{"y": "s"}` lies in model `1E`, the field
    `Q.ab` of that type is annotated `'Ab_1E'`, and the class that `'Ab_1E'` denotes (`y: Literal["s"]`) accepts it. -/
theorem exClash_accepted :
    Inh (fun _ _ => none) gClash.look (.ptr "1E") (.obj [("y", .str "s")]) ∧
    tyAnn (Rend2.exCfg .pydantic) ⟨FClash, []⟩ (.ptr "1E") = some (.fwd "Ab_1E") ∧
    AnnInh (fun _ _ => none) (fun _ _ _ => False) (clsOf (Rend2.exCfg .pydantic) ⟨FClash, []⟩ gClash) (.fwd "Ab_1E")
        (.obj [("y", .str "s")]) := by
  have hI : Inh (fun _ _ => none) gClash.look (.ptr "1E") (.obj [("y", .str "s")]) := by
    refine .ptr (fs := [("y", .lit false ["s"])]) rfl (by simp [Fields.get?]) ?_ ?_
    · intro kv hkv t ht
      simp at hkv; subst hkv
      simp [Fields.get?] at ht; subst ht
      exact .lit (by simp)
    · intro ft hft _
      simp at hft; subst hft
      exact ⟨("y", .str "s"), by simp, rfl⟩
  refine ⟨hI, rfl, typing_widens (fun _ => ?_) exClash_distinct exClash_typed rfl hI⟩
  intro k p hp
  simp [Rend2.exCfg] at hp

/-- `refsDistinct_of_flat_rendering` applies: the prepared names `Ab_1C`, `Ab_1E`, … are fixed points of the conversion -/
theorem exClash_prepared : prepareNames (Rend2.exCfg .pydantic) oClash (gClash.models.map (fun m => (m.idx, m.name)))
    (["1A", "1B", "1C", "1D", "1E"].map (fun i => Node.mk i [])) = .ok FClash :=
  Rend2.ok_of_toOption (by decide +kernel)

theorem exClash_convFix : ConvFix (Rend2.exCfg .pydantic) oClash FClash ["1A", "1B", "1C", "1D", "1E"] := by
  intro i hi n hn
  simp only [List.mem_cons, List.not_mem_nil, or_false] at hi
  rcases hi with rfl | rfl | rfl | rfl | rfl
  · have e : some "Root" = some n := (by decide +kernel : nameOf FClash "1A" = some "Root").symm.trans hn
    cases e; exact Rend2.ok_of_toOption (by decide +kernel)
  · have e : some "P" = some n := (by decide +kernel : nameOf FClash "1B" = some "P").symm.trans hn
    cases e; exact Rend2.ok_of_toOption (by decide +kernel)
  · have e : some "Ab_1C" = some n := (by decide +kernel : nameOf FClash "1C" = some "Ab_1C").symm.trans hn
    cases e; exact Rend2.ok_of_toOption (by decide +kernel)
  · have e : some "Q" = some n := (by decide +kernel : nameOf FClash "1D" = some "Q").symm.trans hn
    cases e; exact Rend2.ok_of_toOption (by decide +kernel)
  · have e : some "Ab_1E" = some n := (by decide +kernel : nameOf FClash "1E" = some "Ab_1E").symm.trans hn
    cases e; exact Rend2.ok_of_toOption (by decide +kernel)

example : RefsDistinct ⟨FClash, []⟩ gClash :=
  refsDistinct_of_flat_rendering (by decide) (Rend2.ok_of_toOption (by decide +kernel)) exClash_text exClash_prepared
    exClash_convFix

/-! ### non-vacuity of the pipeline theorems: the two-level input of `Props/C01R.lean`, pydantic, flat layout -/

/-- the registry `C01R.g1X` after `generate_names` (stand-in oracles: identity): the merged model is named after the
    two fields that refer to it -/
def g2X : Graph :=
  { models := [{ idx := "1A", fields := [("a", .int), ("b", .ptr "1D"), ("c", .list (.ptr "1D"))],
                 name := some "Root", nameGen := some false },
               { idx := "1D", fields := [("x", .int), ("y", .opt .int)], name := some "b_c", nameGen := some true }],
    ptrs := [⟨"1A", none, none⟩, ⟨"1D", some "1A", some "b"⟩, ⟨"1D", some "1A", some "c"⟩],
    counter := 4 }
def FX : NameMap := [("1A", some "Root"), ("1D", some "b_c")]

set_option maxRecDepth 100000 in
theorem exX_names : generateNames ⟨some, some⟩ C01R.g1X = .ok g2X := by rfl
theorem exX_flat : composeFlat g2X = .ok ["1A", "1D"] := Rend2.ok_of_toOption (by decide +kernel)
theorem exX_text : generateCode (Rend2.exCfg .pydantic) Rend2.exOracles g2X (["1A", "1D"].map (fun i => Node.mk i [])) []
    none = .ok ("from pydantic.v1 import BaseModel, Field\nfrom typing import List, Optional\n\n\nclass Root(BaseModel):\n    a: int\n    b: 'b_c'\n    c: List['b_c']\n\n\nclass b_c(BaseModel):\n    x: int\n    y: Optional[int] = None\n",
      FX) := Rend2.generateCode_of_eval (by decide +kernel)

theorem exX_distinct : RefsDistinct ⟨FX, []⟩ g2X := by
  refine refsDistinct_flat (by decide) ?_
  intro m hm m' hm' r h1 h2
  simp only [g2X, List.mem_cons, List.mem_nil_iff, or_false] at hm hm'
  rcases hm with rfl | rfl <;> rcases hm' with rfl | rfl <;> first | rfl | (exfalso; revert h1 h2; decide +revert)

theorem exX_bridge (pyd : String → String → Json → Prop) : PydBridge C01R.oX.accepts pyd (Rend2.exCfg .pydantic) := by
  intro k p hp
  simp [Rend2.exCfg] at hp

/-- all hypotheses of `C01_pipeline_sound_flat` hold; both samples are accepted by the table of class `Root`, their `b`
    objects `{x}` and `c` elements `{x, y}` by the table of the merged class `b_c` (`x: int`, `y: Optional[int] = None`) -/
example := C01_pipeline_sound_flat (pyd := fun _ _ _ => False) (cfg := C01R.cfgX) (o := C01R.oX) C01R.exX_wf
  (by simp [C01R.cfgX]) (by intro a b h; simp [C01R.cfgX] at h) ⟨fun _ => 0, by simp [C01R.cfgX]⟩
  C01R.exX_build C01R.exX_merge exX_names exX_flat exX_text (fun _ => exX_bridge _) exX_distinct

theorem exX_prepared : prepareNames (Rend2.exCfg .pydantic) Rend2.exOracles (g2X.models.map (fun m => (m.idx, m.name)))
    (["1A", "1D"].map (fun i => Node.mk i [])) = .ok FX := Rend2.ok_of_toOption (by decide +kernel)

theorem exX_convFix : ConvFix (Rend2.exCfg .pydantic) Rend2.exOracles FX ["1A", "1D"] := by
  intro i hi n hn
  simp only [List.mem_cons, List.not_mem_nil, or_false] at hi
  rcases hi with rfl | rfl
  · have e : some "Root" = some n := (by decide +kernel : nameOf FX "1A" = some "Root").symm.trans hn
    cases e; exact Rend2.ok_of_toOption (by decide +kernel)
  · have e : some "b_c" = some n := (by decide +kernel : nameOf FX "1D" = some "b_c").symm.trans hn
    cases e; exact Rend2.ok_of_toOption (by decide +kernel)

/-- … and those of `C01_pipeline_sound_flat_prepared`, which derives the distinctness of the class names -/
example := C01_pipeline_sound_flat_prepared (pyd := fun _ _ _ => False) (cfg := C01R.cfgX) (o := C01R.oX) C01R.exX_wf
  (by simp [C01R.cfgX]) (by intro a b h; simp [C01R.cfgX] at h) ⟨fun _ => 0, by simp [C01R.cfgX]⟩
  C01R.exX_build C01R.exX_merge exX_names exX_flat exX_text (fun _ => exX_bridge _) exX_prepared exX_convFix

example : (tableOf (Rend2.exCfg .pydantic) ⟨FX, []⟩ [("a", .int), ("b", .ptr "1D"), ("c", .list (.ptr "1D"))]).map
    (fun t => (t.fields, t.dropped)) =
    some ([("a", .int, false), ("b", .fwd "b_c", false), ("c", .list (.fwd "b_c"), false)], []) := rfl
example : (clsOf (Rend2.exCfg .pydantic) ⟨FX, []⟩ g2X "b_c").map (fun t => (t.fields, t.dropped)) =
    some ([("x", .int, false), ("y", .opt .int, true)], []) := rfl

end J2M.C01S

#print axioms J2M.C01S.typing_widens
#print axioms J2M.C01S.typing_widens_exact
#print axioms J2M.C01S.typing_code_widens
#print axioms J2M.C01S.fields_kept
#print axioms J2M.C01S.fields_kept_order
#print axioms J2M.C01S.fields_kept_other
#print axioms J2M.C01S.table_fields
#print axioms J2M.C01S.class_accepts
#print axioms J2M.C01S.class_accepts_dropped
#print axioms J2M.C01S.class_accepts_exact
#print axioms J2M.C01S.C01_pipeline_sound
#print axioms J2M.C01S.C01_pipeline_sound_exact
#print axioms J2M.C01S.C01_pipeline_sound_flat
#print axioms J2M.C01S.table_is_class_body
#print axioms J2M.C01S.genClass_has_table
#print axioms J2M.C01S.typed_of_flat_rendering
#print axioms J2M.C01S.typed_of_registry
#print axioms J2M.C01S.typing_widens_no_distinct_false
#print axioms J2M.C01S.exClash_text
#print axioms J2M.C01S.refsDistinct_of_flat_rendering
#print axioms J2M.C01S.C01_pipeline_sound_flat_prepared
#print axioms J2M.C01S.exClash_resolved
#print axioms J2M.C01S.exClash_distinct
#print axioms J2M.C01S.exClash_accepted
