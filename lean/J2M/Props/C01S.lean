/-
  C01 (rendering part) — "generated models accept every sample they were inferred from": the per-framework view of a
  field type only widens (DESIGN §8.1, theorems 6 `render_sound` and 7 `C01_pipeline_sound`).
  Helper development: `J2M/Proofs/RSound.lean`.

  Vocabulary
  * `Inh acc L t v` (`J2M/Sem.lean`): JSON value `v` lies in the inferred type `t`; `InhFields acc L fs kvs`: object
    `kvs` lies in field dict `fs` (every key a field whose type holds the value, every non-`Optional` field present).
  * `Ann`, `tyAnn c e t` (`Proofs/Render.lean`, `Props/C04.lean`): the annotation `typingCode` prints for `t` under the
    framework style of `c` and the names/path injections `e`.
  * `AnnInh acc pyd cls a v`: value `v` is admitted by annotation `a`, read as the frameworks / `typing` read it:
      `int ∋` ints, `float ∋` floats and ints, `bool`, `str ∋` strings, `None ∋ null`, `Any ∋` everything,
      `List[a]`, `Dict[str, a]`, `Optional[a]`, `Union[…]`, `Literal[…] ∋` the listed strings,
      a pseudo-type class `K` (module `json_to_models.dynamic_typing`) `∋` the strings `K`'s parser accepts (`acc`),
      any other bare name (`date`, `int`, … written by pydantic/sqlmodel for a pseudo-type) as the parameter `pyd` says,
      a quoted reference `'A.B' ∋` the objects accepted by the field table `cls "A.B"` (`TabAccepts`).
  * `ClsTab`: field table of a rendered class — `(key, annotation, has default)` per declared field in class-body order,
    and the `dropped` keys; `TabAccepts … tab kvs`: every key of the object is a declared field whose annotation admits
    the value, or a dropped key carrying `null`; every field without default is present.
  * `tableOf c e fs`: the table of the class `genClass` writes for a model with field dict `fs`
    (`sort_fields`, `_filter_fields`, annotation of the looked-up type per kept key; `none` iff an annotation does not exist);
    `clsOf c e g r`: the table of the registered model whose reference text is `r` — defined FROM the graph.
  * Hypotheses (all named, all explicit):
      `PydBridge acc pyd c` — only where actual types are written (`c.useActual`, i.e. pydantic / sqlmodel);
      `RefsDistinct e g`   — distinct registered models have distinct reference texts (distinct class names);
      `Typed c e g`        — every registered model's class table exists (`genClass` does not raise in
                             `metadata_to_typing`); `typed_of_WF`: follows from `Reg.WF`, names present, `typable` fields.
-/
import J2M.Proofs.RSound
import J2M.Props.C01R
namespace J2M.C01S
open J2M J2M.Rend J2M.Reg J2M.RSound

/-! ## 1. `typing_widens` -/

/-- **typing_widens** (every framework style, every layout): every value of the inferred type is admitted by the
    rendered annotation.  Literals beyond the limit and all literals under attrs become `str`, `Unknown` becomes `Any`,
    pseudo-types become their class (exactly the same strings) or — pydantic/sqlmodel — their actual type (bridge),
    model pointers become quoted references to the class table of the same model; everything else is structural. -/
theorem typing_widens {acc : Accepts} {pyd : String → String → Json → Prop} {c : RenderCfg} {e : RefEnv} {g : Graph}
    (hb : c.useActual = true → PydBridge acc pyd c) (hd : RefsDistinct e g) (ht : Typed c e g)
    {t : Ty} {a : Ann} {v : Json} (ha : tyAnn c e t = some a) (h : Inh acc g.look t v) :
    AnnInh acc pyd (clsOf c e g) a v :=
  RSound.typing_widens hb hd ht h a ha

/-- base / attrs / dataclasses: no bridge is involved (`pyd` is arbitrary) -/
theorem typing_widens_exact {acc : Accepts} {pyd : String → String → Json → Prop} {c : RenderCfg} {e : RefEnv}
    {g : Graph} (hfw : c.fw = .base ∨ c.fw = .attrs ∨ c.fw = .dataclasses) (hd : RefsDistinct e g) (ht : Typed c e g)
    {t : Ty} {a : Ann} {v : Json} (ha : tyAnn c e t = some a) (h : Inh acc g.look t v) :
    AnnInh acc pyd (clsOf c e g) a v := by
  refine typing_widens (fun hu => ?_) hd ht ha h
  unfold RenderCfg.useActual at hu
  rcases hfw with h | h | h <;> simp [h] at hu

/-- for the text: what `typingCode` emits is the print of an annotation that admits every value of the type -/
theorem typing_code_widens {acc : Accepts} {pyd : String → String → Json → Prop} {c : RenderCfg} {e : RefEnv}
    {g : Graph} (hb : c.useActual = true → PydBridge acc pyd c) (hd : RefsDistinct e g) (ht : Typed c e g)
    {t : Ty} {imps : List Imp} {s : String} (hc : typingCode c e t = .ok (imps, s)) :
    ∃ a, tyAnn c e t = some a ∧ s = a.print ∧ ∀ v, Inh acc g.look t v → AnnInh acc pyd (clsOf c e g) a v := by
  obtain ⟨a, ha, hs, _⟩ := typingCode_ok c e t imps s hc
  exact ⟨a, ha, hs, fun v h => typing_widens hb hd ht ha h⟩

/-- the widening is strict in general: under attrs a literal is shown as `str`, which admits strings the literal does
    not -/
example : tyAnn { fw := .attrs, maxLiterals := 10, postInit := false, convertUnicode := true, withMeta := false,
      decoKwargs := [], literalModule := "typing", blacklist := [], serInfo := [], metadataFieldName := "" }
      ⟨[], []⟩ (.lit false ["a"]) = some .str ∧
    AnnInh (fun _ _ => none) (fun _ _ _ => False) (fun _ => none) .str (.str "zzz") ∧
    ¬ Inh (fun _ _ => none) (fun _ => none) (.lit false ["a"]) (.str "zzz") := by
  refine ⟨rfl, .str, fun h => ?_⟩
  cases h with
  | lit h => simp at h

/-! ## 2. `fields_kept` -/

/-- **fields_kept**: pydantic / sqlmodel's `_filter_fields` removes exactly the keys whose field type is exactly `Null` or
    `Unknown` (`Dropped c fs k := c.useActual ∧ (fs.get? k = some .null ∨ fs.get? k = some .unknown)`) … -/
theorem fields_kept (c : RenderCfg) (fs : Fields) (keys : List String) (k : String) :
    k ∈ filterFields c fs keys ↔ k ∈ keys ∧ ¬ Dropped c fs k := mem_filterFields

/-- … keeping the order of the others … -/
theorem fields_kept_order (c : RenderCfg) (fs : Fields) (keys : List String) :
    (filterFields c fs keys).Sublist keys := filterFields_sublist c fs keys

/-- … and every other framework keeps all fields -/
theorem fields_kept_other {c : RenderCfg} (hfw : c.fw = .base ∨ c.fw = .attrs ∨ c.fw = .dataclasses)
    (fs : Fields) (keys : List String) : filterFields c fs keys = keys := by
  apply filterFields_other
  unfold RenderCfg.useActual
  rcases hfw with h | h | h <;> simp [h]

/-- `useActual` is "pydantic or sqlmodel" -/
theorem useActual_iff (c : RenderCfg) : c.useActual = true ↔ c.fw = .pydantic ∨ c.fw = .sqlmodel := by
  unfold RenderCfg.useActual; simp

/-- the declared fields of the class table: one entry per kept key, flagged "has default" iff the field type is an
    `Optional` -/
theorem table_fields {c : RenderCfg} {e : RefEnv} {fs : Fields} {tab : ClsTab} (h : tableOf c e fs = some tab) :
    (∀ x ∈ tab.fields, ¬ Dropped c fs x.1 ∧ (∃ t, (x.1, t) ∈ fs ∧ t.isOpt = x.2.2) ∧
        tyAnn c e ((fs.get? x.1).getD .unknown) = some x.2.1) ∧
    (∀ k t, (k, t) ∈ fs → ¬ Dropped c fs k → ∃ a, (k, a, t.isOpt) ∈ tab.fields) ∧
    (∀ k, k ∈ tab.dropped ↔ k ∈ fs.keys ∧ Dropped c fs k) := by
  unfold tableOf at h
  obtain ⟨es, hes, rfl⟩ := Option.map_eq_some_iff.1 h
  obtain ⟨i1, i2⟩ := annEntries_spec hes
  refine ⟨fun x hx => ?_, fun k t hm hd => ?_, fun k => mem_droppedKeys⟩
  · obtain ⟨a, b⟩ := i1 x hx
    exact ⟨(mem_keptKeys.1 a).1, (mem_keptKeys.1 a).2, b⟩
  · exact i2 (k, t.isOpt) (mem_keptKeys.2 ⟨hd, t, hm, rfl⟩)

/-! ## 3. `class_accepts` -/

/-- **class_accepts**: an object accepted by a registered model is accepted by the field table of the class rendered
    for it. -/
theorem class_accepts {acc : Accepts} {pyd : String → String → Json → Prop} {c : RenderCfg} {e : RefEnv} {g : Graph}
    (hb : c.useActual = true → PydBridge acc pyd c) (hd : RefsDistinct e g) (ht : Typed c e g)
    {m : Model} (hm : m ∈ g.models) {kvs : List (String × Json)} (h : InhFields acc g.look m.fields kvs) :
    ∃ tab, tableOf c e m.fields = some tab ∧ TabAccepts acc pyd (clsOf c e g) tab kvs :=
  RSound.class_accepts hb hd ht hm h

/-- the removed keys, faithfully: in an object of the model
    * no key belongs to a field of type exactly `Unknown` (`Unknown` admits nothing),
    * a key whose field has type exactly `Null` carries `null`,
    so the only keys of the object that the pydantic / sqlmodel class does not declare carry `null`; and a model with a
    REQUIRED field of type exactly `Unknown` has no objects at all. -/
theorem class_accepts_dropped {acc : Accepts} {c : RenderCfg} {g : Graph} {m : Model}
    {kvs : List (String × Json)} (h : InhFields acc g.look m.fields kvs) :
    (∀ kv ∈ kvs, Dropped c m.fields kv.1 → m.fields.get? kv.1 = some .null ∧ kv.2 = .null) ∧
    (∀ k, m.fields.get? k = some .unknown → False) := by
  obtain ⟨h1, h2⟩ := dropped_key_facts h
  refine ⟨fun kv hkv hd => ?_, fun k hk => no_object_of_unknown_field hk h⟩
  rcases hd.2 with e | e
  · exact ⟨e, h2 kv hkv e⟩
  · exact absurd e (h1 kv hkv)

/-- base / attrs / dataclasses: nothing is dropped — every key of the object is a declared field -/
theorem class_accepts_exact {acc : Accepts} {pyd : String → String → Json → Prop} {c : RenderCfg} {e : RefEnv}
    {g : Graph} (hfw : c.fw = .base ∨ c.fw = .attrs ∨ c.fw = .dataclasses) (hd : RefsDistinct e g) (ht : Typed c e g)
    {m : Model} (hm : m ∈ g.models) {kvs : List (String × Json)} (h : InhFields acc g.look m.fields kvs) :
    ∃ tab, tableOf c e m.fields = some tab ∧ tab.dropped = [] ∧ TabAccepts acc pyd (clsOf c e g) tab kvs ∧
      ∀ kv ∈ kvs, ∃ x ∈ tab.fields, x.1 = kv.1 := by
  have hu : c.useActual = false := by
    unfold RenderCfg.useActual
    rcases hfw with h | h | h <;> simp [h]
  obtain ⟨tab, htab, hacc⟩ := class_accepts (pyd := pyd) (fun h' => by rw [hu] at h'; cases h') hd ht hm h
  have hdr : tab.dropped = [] := by
    unfold tableOf at htab
    obtain ⟨es, _, rfl⟩ := Option.map_eq_some_iff.1 htab
    exact droppedKeys_other hu _
  refine ⟨tab, htab, hdr, hacc, fun kv hkv => ?_⟩
  rcases hacc.1 kv hkv with h' | ⟨h', _⟩
  · exact h'
  · rw [hdr] at h'; cases h'

/-! ## 4. `C01_pipeline_sound` -/

/-- **C01_pipeline_sound**: `generate` + `process_meta_data` of every named sample list, `merge_models` (any
    comparators), `generate_names`; then for EVERY framework style `c` and name/path table `e` satisfying the three
    hypotheses, every input has a root model all of whose samples are accepted by the field table of the class
    rendered for that model — for base / attrs / dataclasses with nothing dropped and no bridge
    (`hb` is vacuous there, see `C01_pipeline_sound_exact`), for pydantic / sqlmodel under `PydBridge`. -/
theorem C01_pipeline_sound {cfg : GenCfg} {o : GenOracles} {cmps : List Cmp} {inputs : List (String × List Json)}
    {g0 g1 g2 : Graph} {repl : List (String × List String)} {no : NameOracles}
    {pyd : String → String → Json → Prop} {c : RenderCfg} {e : RefEnv}
    (hwf : ∀ inp ∈ inputs, ∀ s ∈ inp.2, Json.WF s)
    (hnames : ∀ k ∈ cfg.reg.types, wfSerName k = true)
    (hrep : ReplacesSound o.accepts cfg.reg) (hrank : ReplacesRanked cfg.reg)
    (h0 : buildGraph cfg o inputs = .ok g0) (h1 : mergeModels cfg o.str cmps g0 = .ok (g1, repl))
    (h2 : generateNames no g1 = .ok g2)
    (hb : c.useActual = true → PydBridge o.accepts pyd c) (hd : RefsDistinct e g2) (ht : Typed c e g2) :
    WF g2 ∧ ∀ inp ∈ inputs, ∃ root, ∀ s ∈ inp.2,
      ∃ m ∈ g2.models, m.idx = root ∧ ∃ tab kvs, tableOf c e m.fields = some tab ∧ s = .obj kvs ∧
        TabAccepts o.accepts pyd (clsOf c e g2) tab kvs := by
  obtain ⟨wf1, hr⟩ := C01R.registry_sound hwf hnames hrep hrank h0 h1
  refine ⟨generateNames_WF h2 wf1, fun inp hinp => ?_⟩
  obtain ⟨root, hroot⟩ := hr inp hinp
  refine ⟨root, fun s hs => ?_⟩
  have hi := hroot s hs
  rw [← generateNames_look h2] at hi
  cases hi with
  | @ptr i fs kvs hg a b c' =>
    obtain ⟨m, hm, hidx, hf⟩ := look_eq_some hg
    subst hf
    obtain ⟨tab, htab, hacc⟩ := class_accepts hb hd ht hm ⟨a, b, c'⟩
    exact ⟨m, hm, hidx, tab, kvs, htab, rfl, hacc⟩

/-- base / attrs / dataclasses: exactly — no bridge, every key of every sample is a declared field of the class -/
theorem C01_pipeline_sound_exact {cfg : GenCfg} {o : GenOracles} {cmps : List Cmp}
    {inputs : List (String × List Json)} {g0 g1 g2 : Graph} {repl : List (String × List String)} {no : NameOracles}
    {pyd : String → String → Json → Prop} {c : RenderCfg} {e : RefEnv}
    (hwf : ∀ inp ∈ inputs, ∀ s ∈ inp.2, Json.WF s)
    (hnames : ∀ k ∈ cfg.reg.types, wfSerName k = true)
    (hrep : ReplacesSound o.accepts cfg.reg) (hrank : ReplacesRanked cfg.reg)
    (h0 : buildGraph cfg o inputs = .ok g0) (h1 : mergeModels cfg o.str cmps g0 = .ok (g1, repl))
    (h2 : generateNames no g1 = .ok g2)
    (hfw : c.fw = .base ∨ c.fw = .attrs ∨ c.fw = .dataclasses) (hd : RefsDistinct e g2) (ht : Typed c e g2) :
    ∀ inp ∈ inputs, ∃ root, ∀ s ∈ inp.2,
      ∃ m ∈ g2.models, m.idx = root ∧ ∃ tab kvs, tableOf c e m.fields = some tab ∧ tab.dropped = [] ∧ s = .obj kvs ∧
        TabAccepts o.accepts pyd (clsOf c e g2) tab kvs ∧ ∀ kv ∈ kvs, ∃ x ∈ tab.fields, x.1 = kv.1 := by
  have hu : c.useActual = false := by
    unfold RenderCfg.useActual
    rcases hfw with h | h | h <;> simp [h]
  obtain ⟨_, hr⟩ := C01_pipeline_sound (pyd := pyd) hwf hnames hrep hrank h0 h1 h2
    (fun h' => by rw [hu] at h'; cases h') hd ht
  intro inp hinp
  obtain ⟨root, hroot⟩ := hr inp hinp
  refine ⟨root, fun s hs => ?_⟩
  obtain ⟨m, hm, hidx, tab, kvs, htab, rfl, hacc⟩ := hroot s hs
  have hdr : tab.dropped = [] := by
    unfold tableOf at htab
    obtain ⟨es, _, rfl⟩ := Option.map_eq_some_iff.1 htab
    exact droppedKeys_other hu _
  refine ⟨m, hm, hidx, tab, kvs, htab, hdr, rfl, hacc, fun kv hkv => ?_⟩
  rcases hacc.1 kv hkv with h' | ⟨h', _⟩
  · exact h'
  · rw [hdr] at h'; cases h'

/-! ## non-vacuity -/

def cfgP : RenderCfg where
  fw := .pydantic
  maxLiterals := 2
  postInit := false
  convertUnicode := true
  withMeta := false
  decoKwargs := []
  literalModule := "typing"
  blacklist := []
  serInfo := [("IntString", "int", "builtins"), ("IsoDateString", "date", "datetime")]
  metadataFieldName := "J2M_ORIGINAL_FIELD"
def cfgA : RenderCfg := { cfgP with fw := .attrs }

/-- a registry with a shared, self-referential model, a pseudo-type, a literal over the limit, a `Null` field and an
    optional `Unknown`-list -/
def gEx : Graph where
  models := [{ idx := "1A", fields := [("b", .ptr "1B"), ("n", .null), ("when", .ser "IsoDateString"),
                 ("kind", .lit false ["x", "y", "z"])], name := some "Root" },
             { idx := "1B", fields := [("self", .opt (.ptr "1B")), ("xs", .list .unknown)], name := some "B" }]
  ptrs := [⟨"1A", none, none⟩, ⟨"1B", some "1A", some "b"⟩, ⟨"1B", some "1B", some "self"⟩]
  counter := 2

def eEx : RefEnv := ⟨[("1A", some "Root"), ("1B", some "B")], []⟩
def accEx : Accepts := fun k s => some (k == "IsoDateString" && s == "2020-01-01")
/-- a stand-in for pydantic's reading of `date` / `int`: any string -/
def pydEx : String → String → Json → Prop := fun _ _ v => ∃ s, v = .str s

theorem exBridge : PydBridge accEx pydEx cfgP := by
  intro k p hp s _
  unfold nameSem
  have : p.2.2 ≠ "json_to_models.dynamic_typing" := by
    simp only [cfgP, List.find?_cons] at hp
    split at hp
    · cases hp; decide
    · split at hp
      · cases hp; decide
      · simp at hp
  rw [if_neg this]
  exact ⟨s, rfl⟩

theorem exDistinct : RefsDistinct eEx gEx := by
  intro m hm m' hm' r h1 h2
  simp only [gEx, List.mem_cons, List.mem_nil_iff, or_false] at hm hm'
  rcases hm with rfl | rfl <;> rcases hm' with rfl | rfl <;> first | rfl | (exfalso; revert h1 h2; decide +revert)

theorem exTypedP : Typed cfgP eEx gEx := by
  intro m hm
  simp only [gEx, List.mem_cons, List.mem_nil_iff, or_false] at hm
  rcases hm with rfl | rfl <;> rfl

theorem exTypedA : Typed cfgA eEx gEx := by
  intro m hm
  simp only [gEx, List.mem_cons, List.mem_nil_iff, or_false] at hm
  rcases hm with rfl | rfl <;> rfl

/-- the tables: pydantic drops `n` (type `Null`), writes `date` and — 3 values ≥ limit 2 — `str`; attrs keeps `n` -/
example : (tableOf cfgP eEx (gEx.models.head!).fields).map (fun t => (t.fields, t.dropped)) =
    some ([("b", .fwd "B", false), ("when", .cls "datetime" "date", false), ("kind", .str, false)], ["n"]) := rfl
example : (tableOf cfgA eEx (gEx.models.head!).fields).map (fun t => (t.fields, t.dropped)) =
    some ([("b", .fwd "B", false), ("n", .none, false), ("when", .cls "json_to_models.dynamic_typing" "IsoDateString", false),
           ("kind", .str, false)], []) := rfl

def sampleEx : List (String × Json) :=
  [("b", .obj [("self", .obj [("xs", .arr [])]), ("xs", .arr [])]), ("n", .null), ("when", .str "2020-01-01"),
   ("kind", .str "y")]

theorem exInh : InhFields accEx gEx.look (gEx.models.head!).fields sampleEx := by
  have hB : gEx.look "1B" = some [("self", .opt (.ptr "1B")), ("xs", .list .unknown)] := rfl
  have inner : Inh accEx gEx.look (.ptr "1B") (.obj [("xs", .arr [])]) := by
    refine .ptr hB (by simp [Fields.get?]) ?_ ?_
    · intro kv hkv t ht
      simp at hkv; subst hkv
      simp [Fields.get?] at ht; subst ht
      exact .list (by simp)
    · intro ft hft ho
      simp at hft
      rcases hft with rfl | rfl
      · simp [Ty.isOpt] at ho
      · exact ⟨_, by simp, rfl⟩
  have outer : Inh accEx gEx.look (.ptr "1B") (.obj [("self", .obj [("xs", .arr [])]), ("xs", .arr [])]) := by
    refine .ptr hB (by simp [Fields.get?]) ?_ ?_
    · intro kv hkv t ht
      simp at hkv
      rcases hkv with rfl | rfl
      · simp [Fields.get?] at ht; subst ht; exact .optSome inner
      · simp [Fields.get?] at ht; subst ht; exact .list (by simp)
    · intro ft hft ho
      simp at hft
      rcases hft with rfl | rfl
      · simp [Ty.isOpt] at ho
      · exact ⟨("xs", .arr []), by simp, rfl⟩
  refine ⟨by simp [sampleEx, gEx, Fields.get?], ?_, ?_⟩
  · intro kv hkv t ht
    simp [sampleEx] at hkv
    rcases hkv with rfl | rfl | rfl | rfl <;> simp [gEx, Fields.get?] at ht <;> subst ht
    · exact outer
    · exact .null
    · exact .ser rfl
    · exact .lit (by simp)
  · intro ft hft ho
    simp [gEx] at hft
    rcases hft with rfl | rfl | rfl | rfl
    · exact ⟨_, List.mem_cons_self .., rfl⟩
    · exact ⟨("n", .null), by simp [sampleEx], rfl⟩
    · exact ⟨("when", .str "2020-01-01"), by simp [sampleEx], rfl⟩
    · exact ⟨("kind", .str "y"), by simp [sampleEx], rfl⟩

-- all hypotheses of `class_accepts` hold: the sample is accepted by the pydantic table (with `n` dropped, carrying null)
example := class_accepts (pyd := pydEx) (fun _ => exBridge) exDistinct exTypedP (List.mem_cons_self ..) exInh
-- … and by the attrs table, where nothing is dropped
example := class_accepts_exact (pyd := pydEx) (c := cfgA) (Or.inr (Or.inl rfl)) exDistinct exTypedA
  (List.mem_cons_self ..) exInh

-- `Dropped`: under pydantic `n` is, `b` is not; under attrs nothing is
example : Dropped cfgP (gEx.models.head!).fields "n" ∧ ¬ Dropped cfgP (gEx.models.head!).fields "b" ∧
    ¬ Dropped cfgA (gEx.models.head!).fields "n" := by
  refine ⟨⟨rfl, Or.inl rfl⟩, ?_, ?_⟩
  · rintro ⟨_, h | h⟩ <;> simp [gEx, Fields.get?] at h
  · rintro ⟨h, _⟩; cases h

end J2M.C01S

#print axioms J2M.C01S.typing_widens
#print axioms J2M.C01S.typing_widens_exact
#print axioms J2M.C01S.typing_code_widens
#print axioms J2M.C01S.fields_kept
#print axioms J2M.C01S.fields_kept_order
#print axioms J2M.C01S.fields_kept_other
#print axioms J2M.C01S.table_fields
#print axioms J2M.C01S.class_accepts
#print axioms J2M.C01S.class_accepts_dropped
#print axioms J2M.C01S.class_accepts_exact
#print axioms J2M.C01S.C01_pipeline_sound
#print axioms J2M.C01S.C01_pipeline_sound_exact
