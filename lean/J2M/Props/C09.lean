/-
  C09 — "String pseudo-types are detected soundly and convert losslessly"   (DESIGN §8.9)
-/
import J2M.Sem
import J2M.Lex
import J2M.Proofs.StringsReg
import J2M.Proofs.StringsInt
import J2M.Proofs.StringsKinds
import J2M.Proofs.StringsOptimize
namespace J2M.C09

open J2M J2M.Strings

/-! ## 1. detection = first registered kind whose parser accepts -/

/-- the `accepts` oracle answers for every registered kind on `s` -/
def TotalOn (reg : StrRegistry) (acc : Accepts) (s : String) : Prop :=
  ∀ k ∈ reg.types, ∃ b, acc k s = some b

theorem detect_first_match (reg : StrRegistry) (acc : Accepts) (s : String) (h : TotalOn reg acc s)
    (k : String) :
    detectStr reg acc s = .ok (some k) ↔
      ∃ pre post, reg.types = pre ++ k :: post ∧ acc k s = some true ∧ ∀ k' ∈ pre, acc k' s = some false :=
  detectGo_some acc s k reg.types h

theorem detect_none_iff (reg : StrRegistry) (acc : Accepts) (s : String) (h : TotalOn reg acc s) :
    detectStr reg acc s = .ok none ↔ ∀ k ∈ reg.types, acc k s = some false :=
  detectGo_none acc s reg.types h

/-- without any assumption on the oracle: a detected kind is registered and accepted the string -/
theorem detect_some_mem (reg : StrRegistry) (acc : Accepts) (s : String) (k : String)
    (h : detectStr reg acc s = .ok (some k)) : k ∈ reg.types ∧ acc k s = some true :=
  detectGo_mem acc s k reg.types h

-- non-vacuity: a two-kind registry and a total oracle; "1" is an int (first match), "x" is nothing
private def reg0 : StrRegistry := ⟨["IntString", "FloatString"], [("IntString", "FloatString")], []⟩
private def acc0 : Accepts := fun k s => some ((k == "IntString" || k == "FloatString") && s == "1")
example : TotalOn reg0 acc0 "1" := fun _ _ => ⟨_, rfl⟩
example : detectStr reg0 acc0 "1" = .ok (some "IntString") := by rfl
example : detectStr reg0 acc0 "x" = .ok none := by rfl

/-! ## 2. `resolve` -/

/-- `Replaces⁺` restricted to members of `ts`: a chain `t = t₀, t₁, …, tₙ = u` of pairwise different
    neighbours, all in `ts`, with `(tᵢ, tᵢ₊₁) ∈ reg.replaces` -/
abbrev ReplacesPlus (reg : StrRegistry) (ts : List String) : String → String → Prop := ReplPlus reg ts

/-- no replacement cycle `a → … → a` (through different kinds; `(a, a)` pairs are ignored by `resolve`) -/
def Acyclic (reg : StrRegistry) : Prop := ∀ ts a, ¬ ReplacesPlus reg ts a a

/-- a pair `(particular, general)` promises that the general parser accepts whatever the particular does -/
def ReplacesSound (acc : Accepts) (reg : StrRegistry) : Prop :=
  ∀ a b, (a, b) ∈ reg.replaces → ∀ s, acc a s = some true → acc b s = some true

/-- a registry whose pairs go upwards in some ranking has no cycles -/
theorem acyclic_of_rank (reg : StrRegistry) (rank : String → Nat)
    (h : ∀ a b, (a, b) ∈ reg.replaces → a ≠ b → rank a < rank b) : Acyclic reg := by
  intro ts a hc
  have key : ∀ x y, ReplPlus reg ts x y → rank x < rank y := by
    intro x y hxy
    induction hxy with
    | single s => exact h _ _ s.2.2.2 s.2.2.1
    | tail _ s ih => exact Nat.lt_trans ih (h _ _ s.2.2.2 s.2.2.1)
  exact Nat.lt_irrefl _ (key a a hc)

/-- two rounds always suffice, with or without cycles: the second round finds nothing to remove.
    (The generator calls `resolve` with fuel `length + 2`.) -/
theorem resolve_terminates (reg : StrRegistry) (ts : List String) :
    ∃ r, resolve reg ts (ts.length + 2) = .ok r :=
  ⟨_, resolve_eq reg ts ts.length⟩

/-- the result, explicitly: the (first occurrences of the) kinds that no other member replaces -/
theorem resolve_mem_iff {reg : StrRegistry} {ts : List String} {fuel : Nat} {r : List String}
    (h : resolve reg ts fuel = .ok r) (u : String) :
    u ∈ r ↔ u ∈ ts ∧ ∀ t2 ∈ ts, u ≠ t2 → (u, t2) ∉ reg.replaces := by
  rw [resolve_ok h, mem_survivors]
  simp only [mem_dedupStr]

theorem resolve_subset {reg : StrRegistry} {ts : List String} {fuel : Nat} {r : List String}
    (h : resolve reg ts fuel = .ok r) : ∀ u ∈ r, u ∈ ts :=
  fun u hu => ((resolve_mem_iff h u).1 hu).1

theorem resolve_nodup {reg : StrRegistry} {ts : List String} {fuel : Nat} {r : List String}
    (h : resolve reg ts fuel = .ok r) : r.Nodup := by
  rw [resolve_ok h]; exact nodup_survivors (nodup_dedupStr ts)

theorem resolve_covers {reg : StrRegistry} (hac : Acyclic reg) {ts : List String} {fuel : Nat}
    {r : List String} (h : resolve reg ts fuel = .ok r) :
    ∀ t ∈ ts, t ∈ r ∨ ∃ u ∈ r, ReplacesPlus reg ts t u := by
  intro t ht
  obtain ⟨u, hu, hreach, hmax⟩ := exists_maximal reg ts.length ts (Nat.le_refl _) (hac ts) t ht
  have hur : u ∈ r := (resolve_mem_iff h u).2 ⟨hu, hmax⟩
  rcases hreach with rfl | hreach
  · exact .inl hur
  · exact .inr ⟨u, hur, hreach⟩

theorem resolve_ne_nil {reg : StrRegistry} (hac : Acyclic reg) {ts : List String} {fuel : Nat}
    {r : List String} (h : resolve reg ts fuel = .ok r) (hne : ts ≠ []) : r ≠ [] := by
  obtain ⟨t, ht⟩ := List.exists_mem_of_ne_nil ts hne
  rcases resolve_covers hac h t ht with h' | ⟨u, hu, _⟩
  · exact List.ne_nil_of_mem h'
  · exact List.ne_nil_of_mem hu

/-- what one general kind accepts along a chain -/
theorem accepts_of_replacesPlus {acc : Accepts} {reg : StrRegistry} (hs : ReplacesSound acc reg)
    {ts : List String} {t u : String} (h : ReplacesPlus reg ts t u) (s : String)
    (ht : acc t s = some true) : acc u s = some true := by
  induction h with
  | single st => exact hs _ _ st.2.2.2 s ht
  | tail _ st ih => exact hs _ _ st.2.2.2 s ih

/-- `_optimize_union` keeps a pseudo-type only when `resolve` returns a single kind: that kind then
    accepts every string any of the merged kinds accepted -/
theorem resolve_single_sound {acc : Accepts} {reg : StrRegistry} (hac : Acyclic reg)
    (hs : ReplacesSound acc reg) {ts : List String} {fuel : Nat} {u : String}
    (h : resolve reg ts fuel = .ok [u]) :
    ∀ t ∈ ts, ∀ s, acc t s = some true → acc u s = some true := by
  intro t ht s hts
  rcases resolve_covers hac h t ht with h' | ⟨u', hu', hch⟩
  · have : t = u := by simpa using h'
    subst this; exact hts
  · have : u' = u := by simpa using hu'
    subst this; exact accepts_of_replacesPlus hs hch s hts

-- non-vacuity: the library's registry shape (one pair, Int ⊑ Float) is acyclic; its oracle is sound
example : Acyclic reg0 :=
  acyclic_of_rank reg0 (fun k => if k = "FloatString" then 1 else 0) (by
    intro a b h _
    have : a = "IntString" ∧ b = "FloatString" := by simpa [reg0] using h
    obtain ⟨rfl, rfl⟩ := this; decide)
example : ReplacesSound acc0 reg0 := by
  intro a b h s
  have : a = "IntString" ∧ b = "FloatString" := by simpa [reg0] using h
  obtain ⟨rfl, rfl⟩ := this
  simp [acc0]
example : resolve reg0 ["IntString", "FloatString", "IntString"] 5 = .ok ["FloatString"] := by rfl
/-- kinds not touched by any pair are kept (the unrepaired Python dropped them: D3) -/
example : resolve reg0 ["IntString", "FloatString", "BooleanString"] 5 = .ok ["FloatString", "BooleanString"] := by
  rfl

/-- acyclicity is needed: with `(A, B)` and `(B, A)` both kinds are removed and nothing covers them
    (the unrepaired Python loops forever on this registry) -/
private def regCyc : StrRegistry := ⟨["A", "B"], [("A", "B"), ("B", "A")], []⟩
theorem resolve_cyclic_witness : resolve regCyc ["A", "B"] 4 = .ok [] ∧ ¬ Acyclic regCyc := by
  refine ⟨by rfl, fun h => h ["A", "B"] "A" ?_⟩
  have s1 : Step regCyc ["A", "B"] "A" "B" := ⟨by simp, by simp, by decide, by simp [regCyc]⟩
  have s2 : Step regCyc ["A", "B"] "B" "A" := ⟨by simp, by simp, by decide, by simp [regCyc]⟩
  exact .tail (.single s1) s2


/-- `resolve_covers` without the acyclicity hypothesis -/
def resolve_covers_Statement : Prop :=
  ∀ (reg : StrRegistry) (ts : List String) (fuel : Nat) (r : List String), resolve reg ts fuel = .ok r →
    ∀ t ∈ ts, t ∈ r ∨ ∃ u ∈ r, ReplacesPlus reg ts t u

/-- ... is false (so `resolve_covers` is the `_partial` form: it excludes registries with replacement cycles) -/
theorem resolve_covers_Statement_false : ¬ resolve_covers_Statement := by
  intro h
  rcases h regCyc ["A", "B"] 4 [] resolve_cyclic_witness.1 "A" (by simp) with h | ⟨u, hu, _⟩
  · cases h
  · cases hu

/-! ## 3. disabled kinds never appear

  `Ty.kinds t` (defined next to the helper lemmas, by the same mutual recursion as `Ty.size`) lists the
  names `k` of all `ser k` occurring in `t`. -/

example : (Ty.obj [("a", .opt (.union [.ser "IntString", .list (.ser "FloatString")])), ("b", .str)]).kinds
    = ["IntString", "FloatString"] := by simp [Ty.kinds, Ty.kindsList, Ty.kindsFields]

/-- `cls.actual_type.__name__` as recorded in the registry -/
def actualName (reg : StrRegistry) (k : String) : Option String := (reg.actual.find? (·.1 == k)).map (·.2)

/-- `remove_by_name(name)` unregisters exactly the kinds whose class name or actual-type name is `name`
    (all occurrences, should a kind be registered twice) ... -/
theorem removeByName_types (reg : StrRegistry) (name k : String) :
    k ∈ (reg.removeByName name).types ↔ k ∈ reg.types ∧ k ≠ name ∧ actualName reg k ≠ some name := by
  rw [mem_removeByName_types]
  simp [matchesName, actualName]

/-- ... and drops every `replaces` pair that mentions one of them -/
theorem removeByName_replaces' (reg : StrRegistry) (name k : String) (hk : k ∈ reg.types)
    (hm : k = name ∨ actualName reg k = some name) :
    ∀ pr ∈ (reg.removeByName name).replaces, pr.1 ≠ k ∧ pr.2 ≠ k :=
  removeByName_replaces reg name k hk (by
    rcases hm with h | h
    · simp [matchesName, h]
    · simp only [actualName] at h
      simp [matchesName, h])

/-- the registry is the only source of `ser`: every kind in a detected type is registered
    (whatever the oracles answer) -/
theorem detect_kinds_registered (cfg : GenCfg) (o : GenOracles) (cd : Bool) (v : Json) (t : Ty)
    (h : detect cfg o cd v = .ok t) : ∀ k ∈ t.kinds, k ∈ cfg.reg.types :=
  kinds_detect cfg o v cd t h

theorem convert_kinds_registered (cfg : GenCfg) (o : GenOracles) (v : Json) (fs : Fields)
    (h : convert cfg o v = .ok fs) : ∀ k ∈ Ty.kindsFields fs, k ∈ cfg.reg.types := by
  cases v with
  | obj kvs => exact kinds_convertFields cfg o kvs fs h
  | _ => cases h

/-- `--disable-str-serializable-types name`: detection with the reduced registry never yields a kind
    whose class name or actual-type name is `name` -/
theorem disabled_never_appear (cfg : GenCfg) (o : GenOracles) (name : String) (cd : Bool) (v : Json)
    (t : Ty) (h : detect { cfg with reg := cfg.reg.removeByName name } o cd v = .ok t) :
    ∀ k ∈ t.kinds, k ≠ name ∧ actualName cfg.reg k ≠ some name := by
  intro k hk
  have := detect_kinds_registered _ o cd v t h k hk
  exact ((removeByName_types cfg.reg name k).1 this).2

/-- `optimize_type` (any fuel, any comparison environment) never introduces a kind that was not in its
    input: `resolve` only selects among the kinds present, merging and union building only rearrange -/
theorem optimize_kinds_subset (cfg : GenCfg) (e : EqEnv) (fuel : Nat) (t t' : Ty)
    (h : optimize cfg e fuel t = .ok t') : ∀ k ∈ t'.kinds, k ∈ t.kinds :=
  kinds_optimize cfg e fuel t t' h

/-- the whole generator stage (`generate` = convert, merge, optimize): only registered kinds -/
theorem generate_kinds_registered (cfg : GenCfg) (o : GenOracles) (samples : List Json) (t : Ty)
    (h : generate cfg o samples = .ok t) : ∀ k ∈ t.kinds, k ∈ cfg.reg.types :=
  kinds_generate cfg o samples t h

theorem disabled_never_appear_generate (cfg : GenCfg) (o : GenOracles) (name : String)
    (samples : List Json) (t : Ty)
    (h : generate { cfg with reg := cfg.reg.removeByName name } o samples = .ok t) :
    ∀ k ∈ t.kinds, k ≠ name ∧ actualName cfg.reg k ≠ some name := by
  intro k hk
  have := generate_kinds_registered _ o samples t h k hk
  exact ((removeByName_types cfg.reg name k).1 this).2

-- non-vacuity: disabling "float" (an actual-type name) and "IntString" (a class name)
private def reg1 : StrRegistry :=
  ⟨["IntString", "FloatString", "BooleanString"], [("IntString", "FloatString")],
   [("IntString", "int"), ("FloatString", "float"), ("BooleanString", "bool")]⟩
example : (reg1.removeByName "float").types = ["IntString", "BooleanString"] ∧
    (reg1.removeByName "float").replaces = [] := by decide
example : (reg1.removeByName "IntString").types = ["FloatString", "BooleanString"] := by decide
private def cfg1 : GenCfg := ⟨⟨15, 20⟩, reg1, [], []⟩
private def orc1 : GenOracles :=
  ⟨fun k s => some ((k == "IntString" || k == "FloatString") && s == "1"), fun _ _ => some false, StrOracle.default⟩
example : detect cfg1 orc1 true (.arr [.str "1"]) = .ok (.list (.ser "IntString")) := by rfl
example : detect { cfg1 with reg := cfg1.reg.removeByName "int" } orc1 true (.arr [.str "1"])
    = .ok (.list (.ser "FloatString")) := by rfl

/-! ## 4. lossless conversion: `BooleanString` and `IntString`

  `to_representation(to_internal_value(s))` parses back to the same value. (For float / date / time /
  datetime the parsers and printers are CPython's `float`/`repr` and `dateutil`: not modelled, the round
  trip is an obligation on the recorded oracle, checked by the correspondence harness only.) -/

/-- `str.lower` leaves the two ASCII words alone -/
def LowerFixes (lower : String → String) : Prop := lower "true" = "true" ∧ lower "false" = "false"

theorem bool_render_parse (lower : String → String) (hl : LowerFixes lower) (b : Bool) :
    parseBool lower (renderBool b) = some b := by
  cases b
  · have : ¬ ("false" : String) = "true" := by decide
    simp [parseBool, renderBool, hl.2, this]
  · simp [parseBool, renderBool, hl.1]

theorem bool_roundtrip (lower : String → String) (hl : LowerFixes lower) (s : String) (b : Bool)
    (_h : parseBool lower s = some b) : parseBool lower (renderBool b) = some b :=
  bool_render_parse lower hl b

-- non-vacuity: an ASCII lower-casing function; "TRUE" parses to `true`, which renders as "true"
private def asciiLower (s : String) : String := String.ofList (s.toList.map Char.toLower)
example : LowerFixes asciiLower := ⟨by decide, by decide⟩
example : parseBool asciiLower "TRUE" = some true := by decide
example : parseBool asciiLower "yes" = none := by decide

/-- `int(str(i)) == i` for every integer -/
theorem int_render_parse (i : Int) : parseInt (renderInt i) = some i := parseInt_renderInt i

theorem int_roundtrip (s : List Char) (i : Int) (_h : parseInt s = some i) :
    parseInt (renderInt i) = some i := parseInt_renderInt i

-- non-vacuity: accepted spellings that are not canonical
example : parseInt " +0_12\n".toList = some 12 := by decide
example : renderInt 12 = "12".toList := by decide
example : parseInt "-007".toList = some (-7) := by decide
example : renderInt (-7) = "-7".toList := by decide
example : parseInt "1__2".toList = none ∧ parseInt "_1".toList = none ∧ parseInt "1_".toList = none ∧
    parseInt "".toList = none ∧ parseInt "-".toList = none ∧ parseInt "+ 1".toList = none := by decide

end J2M.C09
