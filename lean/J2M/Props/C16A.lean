/-
  C16 (option mapping): facts about the argument helpers of CliArgs.lean
  (`--code-generator-kwargs` item parsing cli.py:239-246, `bool_js_style`, the pattern split of `process_path`
  cli.py:473-499, `-m` tuple shapes cli.py:185-192).
-/
import J2M.CliArgs
namespace J2M.C16A
open J2M.CliArgs

/-! ## helper lemmas on `List Char` -/

theorem span_loop {α} (p : α → Bool) (l acc : List α) :
    List.span.loop p l acc = (acc.reverse ++ l.takeWhile p, l.dropWhile p) := by
  induction l generalizing acc with
  | nil => simp [List.span.loop]
  | cons a as ih =>
    cases h : p a <;> simp [List.span.loop, h, ih]

/-- `span` is `takeWhile` / `dropWhile` -/
theorem span_eq {α} (p : α → Bool) (l : List α) : l.span p = (l.takeWhile p, l.dropWhile p) := by
  simp [List.span, span_loop]

theorem of_mem_takeWhile {α} (p : α → Bool) (l : List α) (a : α) (h : a ∈ l.takeWhile p) : p a = true :=
  List.all_eq_true.mp List.all_takeWhile a h

theorem lookup_cons_ite {β} (q k : String) (b : β) (as : List (String × β)) :
    ((k, b) :: as).lookup q = if q = k then some b else as.lookup q := by
  rw [List.lookup_cons]
  by_cases h : q = k
  · simp [h]
  · have hb : (q == k) = false := by simpa using h
    rw [hb]; simp [h]

/-- `span` at the first `=`: everything before it has no `=` -/
theorem span_at_eq (xs value : List Char) (h : ∀ x ∈ xs, x ≠ '=') :
    (xs ++ '=' :: value).span (· != '=') = (xs, '=' :: value) := by
  rw [span_eq]
  have hall : ∀ x ∈ xs, (x != '=') = true := by
    intro x hx; simpa using h x hx
  rw [List.takeWhile_append_of_pos hall, List.dropWhile_append_of_pos hall]
  simp

/-- `span` when there is no `=` at all -/
theorem span_no_eq (xs : List Char) (h : ∀ x ∈ xs, x ≠ '=') :
    xs.span (· != '=') = (xs, []) := by
  have hall : ∀ x ∈ xs, (x != '=') = true := by
    intro x hx; simpa using h x hx
  have ht : xs.takeWhile (· != '=') = xs := by
    simpa using List.takeWhile_append_of_pos (l₂ := []) hall
  have hd : xs.dropWhile (· != '=') = [] := by
    simpa using List.dropWhile_append_of_pos (l₂ := []) hall
  rw [span_eq, ht, hd]

/-- `parseKwargItem` on a non-empty character list whose ends are not double quotes: only the `split("=", 1)` -/
theorem parse_unquoted (cs : List Char) (h0 : cs.head? ≠ some '"') (hl : cs.getLast? ≠ some '"') (hne : cs ≠ []) :
    parseKwargItem (String.ofList cs) =
      match cs.span (· != '=') with
      | (_, []) => .error .valueError
      | (name, _ :: value) => .ok (String.ofList name, String.ofList value) := by
  unfold parseKwargItem
  cases cs with
  | nil => exact absurd rfl hne
  | cons c rest =>
    have hc : c ≠ '"' := by simpa using h0
    simp only [String.toList_ofList, hc, ↓reduceIte]
    have hlast : (c :: rest).getLast? = (c :: rest).reverse.head? := List.getLast?_eq_head?_reverse
    match hr : (c :: rest).reverse with
    | [] => simp at hr
    | l :: revInit =>
      rw [hr] at hlast
      have hl' : l ≠ '"' := by
        intro h; apply hl; rw [hlast, h]; rfl
      simp only [hl', ↓reduceIte]
      rfl

/-- `parseKwargItem` on a character list wrapped in one pair of double quotes: the quotes are removed -/
theorem parse_quoted (cs : List Char) :
    parseKwargItem (String.ofList ('"' :: (cs ++ ['"']))) =
      match cs.span (· != '=') with
      | (_, []) => .error .valueError
      | (name, _ :: value) => .ok (String.ofList name, String.ofList value) := by
  unfold parseKwargItem
  simp only [String.toList_ofList, ↓reduceIte, List.reverse_append, List.reverse_cons, List.reverse_nil,
    List.nil_append, List.singleton_append, List.reverse_reverse]
  rfl

/-! ## `--code-generator-kwargs` items -/

/-- a plain `name=value` item (no quotes at the ends, no `=` in the name) parses to exactly that pair
    (general form: the name may even be empty) -/
theorem kwarg_plain_gen (name value : List Char) (hne : ∀ c ∈ name, c ≠ '=') (h0 : name.head? ≠ some '"')
    (hl : (name ++ '=' :: value).getLast? ≠ some '"') :
    parseKwargItem (String.ofList (name ++ '=' :: value)) = .ok (String.ofList name, String.ofList value) := by
  rw [parse_unquoted _ _ hl (by simp), span_at_eq name value hne]
  cases name with
  | nil => simp
  | cons c rest => simpa using h0

set_option linter.unusedVariables false in
/-- a plain `name=value` item (no quotes at the ends, no `=` in the name) parses to exactly that pair
    (`hn` is not needed, see `kwarg_plain_gen`; it is kept because an empty option name is of no use) -/
theorem kwarg_plain (name value : List Char) (hn : name ≠ []) (hne : ∀ c ∈ name, c ≠ '=') (h0 : name.head? ≠ some '"')
    (hl : (name ++ '=' :: value).getLast? ≠ some '"') :
    parseKwargItem (String.ofList (name ++ '=' :: value)) = .ok (String.ofList name, String.ofList value) :=
  kwarg_plain_gen name value hne h0 hl

/-- the documented `"argument_name=value with space"` form: the same item wrapped in one pair of double quotes
    parses to the same pair (general form: no condition on the ends of the item, the name may be empty) -/
theorem kwarg_quoted_gen (name value : List Char) (hne : ∀ c ∈ name, c ≠ '=') :
    parseKwargItem (String.ofList ('"' :: ((name ++ '=' :: value) ++ ['"']))) =
      .ok (String.ofList name, String.ofList value) := by
  rw [parse_quoted, span_at_eq name value hne]

/-- the documented `"argument_name=value with space"` form, under the hypotheses of `kwarg_plain`, and stated
    on strings: `"\"" ++ item ++ "\""` parses to the same pair as `item` -/
theorem kwarg_quoted (name value : List Char) (hn : name ≠ []) (hne : ∀ c ∈ name, c ≠ '=')
    (h0 : name.head? ≠ some '"') (hl : (name ++ '=' :: value).getLast? ≠ some '"') :
    parseKwargItem ("\"" ++ String.ofList (name ++ '=' :: value) ++ "\"") =
      .ok (String.ofList name, String.ofList value) ∧
    parseKwargItem ("\"" ++ String.ofList (name ++ '=' :: value) ++ "\"") =
      parseKwargItem (String.ofList (name ++ '=' :: value)) := by
  have hs : "\"" ++ String.ofList (name ++ '=' :: value) ++ "\"" =
      String.ofList ('"' :: ((name ++ '=' :: value) ++ ['"'])) := by
    apply String.toList_injective
    simp
  rw [hs, kwarg_quoted_gen name value hne, kwarg_plain name value hn hne h0 hl]
  exact ⟨rfl, rfl⟩

/-- an item without `=` is rejected (Python: not enough values to unpack); the empty item fails at `item[0]` -/
theorem kwarg_no_eq :
    (∀ (s : List Char), s ≠ [] → (∀ c ∈ s, c ≠ '=' ∧ c ≠ '"') →
      parseKwargItem (String.ofList s) = .error .valueError) ∧
    parseKwargItem "" = .error .indexError := by
  refine ⟨?_, rfl⟩
  intro s hs h
  have h0 : s.head? ≠ some '"' := by
    intro hh
    exact (h _ (List.mem_of_head? hh)).2 rfl
  have hl : s.getLast? ≠ some '"' := by
    intro hh
    exact (h _ (List.mem_of_getLast? hh)).2 rfl
  rw [parse_unquoted s h0 hl hs, span_no_eq s (fun c hc => (h c hc).1)]

/-- a lone double quote fails at `item[-1]` (after the first quote is removed nothing is left) -/
theorem kwarg_lone_quote : parseKwargItem "\"" = .error .indexError := rfl

/-! ## the kwargs dict: Python `d[name] = value` semantics -/

/-- the dict after storing the pairs `kvs` (in order) into `acc` -/
def storeAll (acc kvs : List (String × String)) : List (String × String) :=
  kvs.foldl (fun acc kv => setKw acc kv.1 kv.2) acc

theorem keys_setKw (acc : List (String × String)) (k v : String) :
    (setKw acc k v).map Prod.fst = if k ∈ acc.map Prod.fst then acc.map Prod.fst else acc.map Prod.fst ++ [k] := by
  induction acc with
  | nil => simp [setKw]
  | cons kv rest ih =>
    obtain ⟨k', v'⟩ := kv
    simp only [setKw]
    by_cases hk : k' = k
    · subst hk; simp
    · have hk' : ¬ k = k' := fun h => hk h.symm
      simp only [beq_iff_eq, hk, ↓reduceIte, List.map_cons, ih, List.mem_cons, hk', false_or]
      split <;> simp

theorem lookup_setKw (acc : List (String × String)) (k v q : String) :
    (setKw acc k v).lookup q = if q = k then some v else acc.lookup q := by
  induction acc with
  | nil => simp only [setKw, lookup_cons_ite]
  | cons kv rest ih =>
    obtain ⟨k', v'⟩ := kv
    simp only [setKw]
    by_cases hk : k' = k
    · subst hk
      simp only [beq_self_eq_true, ↓reduceIte, lookup_cons_ite]
      split <;> rfl
    · simp only [beq_iff_eq, hk, ↓reduceIte, lookup_cons_ite, ih]
      by_cases hq : q = k'
      · subst hq; simp [hk]
      · simp [hq]

theorem keys_storeAll (kvs acc : List (String × String)) :
    (storeAll acc kvs).map Prod.fst =
      acc.map Prod.fst ++ ((kvs.map Prod.fst).filter (fun k => !(acc.map Prod.fst).contains k)).eraseDups := by
  induction kvs generalizing acc with
  | nil => simp [storeAll]
  | cons kv rest ih =>
    obtain ⟨k, v⟩ := kv
    have hstep : storeAll acc ((k, v) :: rest) = storeAll (setKw acc k v) rest := rfl
    rw [hstep, ih, keys_setKw]
    by_cases hk : k ∈ acc.map Prod.fst
    · simp only [hk, ↓reduceIte, List.map_cons, List.filter_cons, List.contains_eq_mem, decide_true,
        Bool.not_true, Bool.false_eq_true]
    · simp only [hk, ↓reduceIte, List.map_cons, List.filter_cons, List.contains_eq_mem, decide_false,
        Bool.not_false, List.eraseDups_cons, List.filter_filter, List.append_assoc, List.singleton_append]
      congr 3
      apply List.filter_congr
      intro x _
      by_cases hx : x = k
      · subst hx; simp
      · have hb : (x == k) = false := by simpa using hx
        simp [hx, hb]

theorem lookup_storeAll (kvs acc : List (String × String)) (q : String) :
    (storeAll acc kvs).lookup q = (kvs.reverse.lookup q).or (acc.lookup q) := by
  induction kvs generalizing acc with
  | nil => simp [storeAll]
  | cons kv rest ih =>
    obtain ⟨k, v⟩ := kv
    have hstep : storeAll acc ((k, v) :: rest) = storeAll (setKw acc k v) rest := rfl
    rw [hstep, ih, lookup_setKw, List.reverse_cons, List.lookup_append, lookup_cons_ite]
    by_cases hq : q = k
    · subst hq
      cases rest.reverse.lookup q <;> simp
    · cases rest.reverse.lookup q <;> simp [hq]

theorem nodup_keys_setKw (acc : List (String × String)) (k v : String) (h : (acc.map Prod.fst).Nodup) :
    ((setKw acc k v).map Prod.fst).Nodup := by
  rw [keys_setKw]
  split
  · exact h
  · rename_i hk
    rw [List.nodup_append]
    refine ⟨h, by simp, ?_⟩
    intro a ha b hb
    simp only [List.mem_singleton] at hb
    subst hb
    intro hab; subst hab; exact hk ha

theorem nodup_keys_storeAll (kvs acc : List (String × String)) (h : (acc.map Prod.fst).Nodup) :
    ((storeAll acc kvs).map Prod.fst).Nodup := by
  induction kvs generalizing acc with
  | nil => simpa [storeAll] using h
  | cons kv rest ih => exact ih _ (nodup_keys_setKw acc kv.1 kv.2 h)

/-- when every item parses, `parseKwargs` is the left-to-right store of the parsed pairs -/
theorem parseKwargs_eq_storeAll (items : List String) (kvs : List (String × String))
    (hp : items.map parseKwargItem = kvs.map .ok) :
    parseKwargs items = .ok (storeAll [] kvs) := by
  unfold parseKwargs
  suffices H : ∀ (acc : List (String × String)),
      items.foldlM (fun acc it => do
        let (k, v) ← parseKwargItem it
        pure (setKw acc k v)) acc = .ok (storeAll acc kvs) from H []
  induction items generalizing kvs with
  | nil =>
    intro acc
    cases kvs with
    | nil => rfl
    | cons _ _ => simp at hp
  | cons it rest ih =>
    intro acc
    cases kvs with
    | nil => simp at hp
    | cons kv kvs' =>
      simp only [List.map_cons, List.cons.injEq] at hp
      obtain ⟨h1, h2⟩ := hp
      rw [List.foldlM_cons, h1]
      exact ih kvs' h2 _

/-- Python dict update semantics (`self.model_generator_kwargs[name] = value` in a loop): for items that parse to
    the pairs `kvs`, the result has every name exactly once, names in first-occurrence order, and each name is
    bound to the value of its LAST occurrence -/
theorem parseKwargs_last_wins (items : List String) (kvs : List (String × String))
    (hp : items.map parseKwargItem = kvs.map .ok) :
    ∃ r, parseKwargs items = .ok r ∧
      (r.map Prod.fst).Nodup ∧
      r.map Prod.fst = (kvs.map Prod.fst).eraseDups ∧
      (∀ q, r.lookup q = kvs.reverse.lookup q) ∧
      (∀ k v, (k, v) ∈ r ↔ kvs.reverse.lookup k = some v) := by
  refine ⟨storeAll [] kvs, parseKwargs_eq_storeAll items kvs hp, nodup_keys_storeAll kvs [] (by simp), ?_, ?_, ?_⟩
  · have := keys_storeAll kvs []
    simpa [List.filter_eq_self.mpr] using this
  · intro q; simpa using lookup_storeAll kvs [] q
  · intro k v
    have hnd := nodup_keys_storeAll kvs [] (by simp)
    have hl := lookup_storeAll kvs [] k
    simp only [List.lookup_nil, Option.or_none] at hl
    rw [← hl]
    generalize storeAll [] kvs = r at hnd
    clear hl
    induction r with
    | nil => simp
    | cons kv rest ih =>
      obtain ⟨k', v'⟩ := kv
      simp only [List.map_cons, List.nodup_cons] at hnd
      by_cases hk : k = k'
      · subst hk
        simp only [List.mem_cons, Prod.mk.injEq, true_and, List.lookup_cons, beq_self_eq_true, Option.some.injEq]
        constructor
        · rintro (h | h)
          · exact h.symm
          · exact absurd (List.mem_map_of_mem (f := Prod.fst) h) hnd.1
        · intro h; exact Or.inl h.symm
      · have : (k == k') = false := by simpa using hk
        simp only [List.mem_cons, Prod.mk.injEq, hk, false_and, false_or, List.lookup_cons, this]
        exact ih hnd.2

/-- non-vacuity of `parseKwargs_last_wins`: three items, one name repeated -/
example : ["a=1", "b=2", "a=3"].map parseKwargItem = [("a", "1"), ("b", "2"), ("a", "3")].map .ok := rfl

/-! ## `bool_js_style`, `process_path`, `-m` -/

theorem boolJs_table : boolJsStyle "true" = some true ∧ boolJsStyle "false" = some false ∧
    boolJsStyle "True" = none ∧ boolJsStyle "1" = none := by decide

/-- `bool_js_style` accepts exactly the two JS spellings -/
theorem boolJs_spec (s : String) :
    (boolJsStyle s = some true ↔ s = "true") ∧ (boolJsStyle s = some false ↔ s = "false") ∧
    (boolJsStyle s = none ↔ s ≠ "true" ∧ s ≠ "false") := by
  unfold boolJsStyle
  by_cases h1 : s = "true"
  · subst h1; decide
  · by_cases h2 : s = "false"
    · subst h2; decide
    · simp [h1, h2]

/-- a component is a wildcard component iff it contains `*` or `?` (`"*" in part or "?" in part`) -/
theorem hasWild_iff (p : String) : hasWild p = true ↔ '*' ∈ p.toList ∨ '?' ∈ p.toList := by
  simp only [hasWild, List.any_eq_true, Bool.or_eq_true, decide_eq_true_eq]
  constructor
  · rintro ⟨c, hc, h | h⟩
    · exact Or.inl (h ▸ hc)
    · exact Or.inr (h ▸ hc)
  · rintro (h | h)
    · exact ⟨_, h, Or.inl rfl⟩
    · exact ⟨_, h, Or.inr rfl⟩

/-- the directory part has no wildcard component and the pattern part starts at the first wildcard component -/
theorem splitPattern_spec (parts : List String) :
    (splitPattern parts).1 ++ (splitPattern parts).2 = parts ∧
    (∀ p ∈ (splitPattern parts).1, hasWild p = false) ∧
    (∀ p, (splitPattern parts).2.head? = some p → hasWild p = true) := by
  refine ⟨by simp [splitPattern], ?_, ?_⟩
  · intro p hp
    have := of_mem_takeWhile _ _ _ hp
    simpa using this
  · intro p hp
    unfold splitPattern at hp
    have := List.head?_dropWhile_not (fun p => !hasWild p) parts
    simp only [hp] at this
    simpa using this

/-- the split is the only one with these properties: any decomposition `dir ++ pat` with a wildcard-free `dir` and
    `pat` empty or starting with a wildcard component is the one computed -/
theorem splitPattern_unique (dir pat : List String) (hd : ∀ p ∈ dir, hasWild p = false)
    (hp : ∀ p, pat.head? = some p → hasWild p = true) :
    splitPattern (dir ++ pat) = (dir, pat) := by
  unfold splitPattern
  have hall : ∀ p ∈ dir, (!hasWild p) = true := by
    intro p h; simp [hd p h]
  rw [List.takeWhile_append_of_pos hall, List.dropWhile_append_of_pos hall]
  cases pat with
  | nil => simp
  | cons q rest =>
    have hq : hasWild q = true := hp q rfl
    simp [hq]

theorem modelTuple_table (n l p : String) :
    modelTuple [n, p] = .ok (n, "-", p) ∧ modelTuple [n, l, p] = .ok (n, l, p) ∧
    modelTuple [n] = .error .valueError ∧ modelTuple [n, l, p, p] = .error .valueError := by
  simp [modelTuple]

/-- `-m` accepts exactly the lists of length 2 or 3 -/
theorem modelTuple_ok_iff (xs : List String) : (∃ t, modelTuple xs = .ok t) ↔ xs.length = 2 ∨ xs.length = 3 := by
  unfold modelTuple
  match xs with
  | [] => simp
  | [_] => simp
  | [_, _] => simp
  | [_, _, _] => simp
  | _ :: _ :: _ :: _ :: _ => simp

/-! ## concrete instances -/

example : parseKwargItem "meta=true" = .ok ("meta", "true") := rfl
example : parseKwargItem "\"a=b c\"" = .ok ("a", "b c") := rfl
example : parseKwargs ["a=1", "b=2", "a=3"] = .ok [("a", "3"), ("b", "2")] := rfl
example : splitPattern ["data", "2020", "*.json"] = (["data", "2020"], ["*.json"]) := by decide

/-- non-vacuity of `kwarg_plain` / `kwarg_quoted`: `meta=true` -/
example : (['m', 'e', 't', 'a'] : List Char) ≠ [] ∧ (∀ c ∈ ['m', 'e', 't', 'a'], c ≠ '=') ∧
    (['m', 'e', 't', 'a'] : List Char).head? ≠ some '"' ∧
    (['m', 'e', 't', 'a'] ++ '=' :: ['t', 'r', 'u', 'e']).getLast? ≠ some '"' := by decide

/-- non-vacuity of `kwarg_no_eq` -/
example : (['a', 'b'] : List Char) ≠ [] ∧ ∀ c ∈ ['a', 'b'], c ≠ '=' ∧ c ≠ '"' := by decide

end J2M.C16A
