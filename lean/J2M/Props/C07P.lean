/-
  C07 at the level of `generate` — "permuting the samples, or repeating samples already given, yields the
  same model with the same fields, the same required/optional status and the same type for every field
  when types are compared as sets (field order, union member order may differ)".

  Relations (`J2M/Proofs/Perm.lean`, `PermN.lean`):
  * `a ≈ b` (`Eqv`, = `Perm.Sim true`): equal up to order — atoms / literals equal, `list`/`dict`/`opt`
    congruent, unions: every member of one has an `≈`-equal member in the other and the member lists have the
    same length, objects: same keys and `≈` types key by key (field order irrelevant);
  * `a ≃ b` (`MEqv`, = `Perm.NSim`): the same with every type position compared by its *member set*
    (a non-union counts as its single member) — what holds between the raw, not yet optimised types of two
    runs (`merge_field_sets` skips an incoming type that is `==` to the current one, so one run may hold
    `T` where another holds `Union[T', T'']` with `T ≈ T' ≈ T''`).

  Results, for sample lists with the same *set* of samples (covers permutation and repetition):
  1. `convert_rawSets`       — what `detect` builds is raw (`RawN`), field types are not unions;
  2. `mergeFieldSets_equiv`  — `merge_field_sets` on raw field sets that correspond up to order: same keys,
                               same optional status, same member sets up to order;
  3. `optimize_congr`        — `optimize_type` maps `≃`-equal generator-stage arguments to `≃`-equal results;
  4. `generate_perm_members` — `generate` on the two sample lists: results `≃`;
  5. `generate_perm`         — … and, the results being canonical normal forms (C08 `generate_nfc`), `≈`.
-/
import J2M.Proofs.PermSingle
import J2M.Proofs.PermUp
import J2M.Props.C07
import J2M.Props.C08
import J2M.Proofs.InhGenerate
namespace J2M.C07P
open J2M J2M.Perm

/-- equal up to order (field order, union member order) -/
def Eqv (a b : Ty) : Prop := Sim true a b
/-- member sets equal up to order in every type position -/
def MEqv (a b : Ty) : Prop := NSim a b

@[inherit_doc] infix:50 " ≈ₒ " => Eqv
@[inherit_doc] infix:50 " ≃ₒ " => MEqv

/-- `≈` is an equivalence relation -/
theorem eqv_equivalence : Equivalence Eqv := sim_equivalence true
/-- `≃` is an equivalence relation -/
theorem meqv_equivalence : Equivalence MEqv := ⟨NSim.refl, NSim.symm, NSim.trans⟩

/-- what `≈` says about unions and objects -/
theorem eqv_union {as bs : List Ty} : Ty.union as ≈ₒ Ty.union bs ↔
    ((∀ a ∈ as, ∃ b ∈ bs, a ≈ₒ b) ∧ (∀ b ∈ bs, ∃ a ∈ as, a ≈ₒ b)) ∧ as.length = bs.length := by
  unfold Eqv; rw [sim_union_union]; simp [SetSim]
theorem eqv_obj {fs gs : Fields} : Ty.obj fs ≈ₒ Ty.obj gs ↔
    (∀ kv ∈ fs, ∃ u, (kv.1, u) ∈ gs ∧ kv.2 ≈ₒ u) ∧ (∀ kv ∈ gs, ∃ t, (kv.1, t) ∈ fs ∧ t ≈ₒ kv.2) := by
  unfold Eqv; rw [sim_obj_obj]; rfl
theorem eqv_list {a b : Ty} : Ty.list a ≈ₒ Ty.list b ↔ a ≈ₒ b := sim_list_list
theorem eqv_dict {a b : Ty} : Ty.dict a ≈ₒ Ty.dict b ↔ a ≈ₒ b := sim_dict_dict
theorem eqv_opt {a b : Ty} : Ty.opt a ≈ₒ Ty.opt b ↔ a ≈ₒ b := sim_opt_opt
/-- on atoms, pseudo-types and literals `≈` is equality -/
theorem eqv_leaf {a b : Ty} (h : Perm.Ty.isLeaf a = true) : a ≈ₒ b ↔ b = a := sim_leaf h

-- non-vacuity: member and field order do not matter, repetition of members does
example : Ty.union [.int, .list (.obj [("a", .str), ("b", .null)])] ≈ₒ
    Ty.union [.list (.obj [("b", .null), ("a", .str)]), .int] := by
  rw [eqv_union]
  have h : Ty.list (.obj [("a", .str), ("b", .null)]) ≈ₒ Ty.list (.obj [("b", .null), ("a", .str)]) := by
    rw [eqv_list, eqv_obj]
    constructor <;> intro kv hkv <;> simp at hkv <;> rcases hkv with rfl | rfl <;>
      first
        | exact ⟨.str, by simp, (eqv_leaf rfl).2 rfl⟩
        | exact ⟨.null, by simp, (eqv_leaf rfl).2 rfl⟩
  refine ⟨⟨?_, ?_⟩, rfl⟩
  · intro a ha; simp at ha
    rcases ha with rfl | rfl
    · exact ⟨.int, by simp, (eqv_leaf rfl).2 rfl⟩
    · exact ⟨_, by simp, h⟩
  · intro b hb; simp at hb
    rcases hb with rfl | rfl
    · exact ⟨_, by simp, h⟩
    · exact ⟨.int, by simp, (eqv_leaf rfl).2 rfl⟩
example : ¬ (Ty.union [.int, .int] ≈ₒ Ty.union [.int]) := by
  rw [eqv_union]; simp

/-! ## 1. the per-sample field sets -/

/-- registered pseudo-type class names are well-formed identifiers (needed for the injectivity of the
    hash string that `DUnion` de-duplicates by) -/
def NamesOk (cfg : GenCfg) : Prop := ∀ k ∈ cfg.reg.types, wfSerName k = true
/-- every sample is JSON with distinct keys at every level -/
def SamplesOk (samples : List Json) : Prop := ∀ s ∈ samples, Json.WF s

/-- `detect` is a function of the value, and what it builds is raw: the field sets `generate` merges for a
    sample list depend only on the set of samples, and every field type is a raw non-union type -/
theorem convert_rawSets {cfg : GenCfg} {o : GenOracles} (hn : NamesOk cfg) {samples : List Json}
    {sets : List Fields} (wf : SamplesOk samples) (h : samples.mapM (convert cfg o) = .ok sets) :
    RawSets cfg.lit sets := Perm.convert_rawSets hn wf h

/-! ## 2. `merge_field_sets` -/

/-- **`mergeFieldSets_equiv`** for field sets that are the same *set* (`C07.SameSets`: any order, any
    repetition), all raw: the merged dicts have the same keys, and for each key the same optional
    status and the same member set up to order (`≃`; `Optional[T]` is `≃` only to an `Optional`). -/
theorem mergeFieldSets_equiv {c : LitCfg} {e : EqEnv} {sets₁ sets₂ : List Fields} {r₁ r₂ : Fields}
    (hs : C07.SameSets sets₁ sets₂) (hr : RawSets c sets₁)
    (h₁ : mergeFieldSets c e sets₁ = .ok r₁) (h₂ : mergeFieldSets c e sets₂ = .ok r₂) :
    (∀ kv ∈ r₁, ∃ u, (kv.1, u) ∈ r₂ ∧ kv.2 ≃ₒ u) ∧ (∀ kv ∈ r₂, ∃ t, (kv.1, t) ∈ r₁ ∧ t ≃ₒ kv.2) :=
  mergeFieldSets_congr hr (fun fs hfs => hr fs ((hs fs).2 hfs)) (SetsN.of_same hs) h₁ h₂

/-- the general form: the two lists of raw field sets correspond up to `≃` (what `_optimize_union` passes
    for the inline-object members of two `≃`-equal unions) -/
theorem mergeFieldSets_equiv_upto {c : LitCfg} {e : EqEnv} {sets₁ sets₂ : List Fields} {r₁ r₂ : Fields}
    (hr₁ : RawSets c sets₁) (hr₂ : RawSets c sets₂) (hs : SetsN sets₁ sets₂)
    (h₁ : mergeFieldSets c e sets₁ = .ok r₁) (h₂ : mergeFieldSets c e sets₂ = .ok r₂) :
    Ty.obj r₁ ≃ₒ Ty.obj r₂ :=
  nsim_of_asim' (asim_obj_obj.2 (mergeFieldSets_congr hr₁ hr₂ hs h₁ h₂))

/-- `≃` between an `Optional` and anything else forces an `Optional`: "same optional status" -/
theorem meqv_opt_iff {a t : Ty} (h : Ty.opt a ≃ₒ t) (ht : t.isUnion = false) : ∃ b, t = .opt b ∧ a ≃ₒ b :=
  asim_opt.1 (asim_of_nsim rfl ht h)

-- non-vacuity of `RawSets` / `SameSets`: `{"a": 1, "b": "x"}`, `{"a": 2.5}` and a permutation with a repeat
def cEx : LitCfg := ⟨10, 50⟩
example : RawSets cEx [[("a", .int), ("b", .lit false ["x"])], [("a", .float)]] := by
  intro fs hfs kv hkv
  simp at hfs
  rcases hfs with rfl | rfl <;> simp at hkv
  · rcases hkv with rfl | rfl
    · exact ⟨by simp, rfl⟩
    · refine ⟨?_, rfl⟩
      simp only [rawN_lit]
      exact .inr ⟨rfl, by simp, by simp, by simp [Strings.Overflows, cEx]; decide⟩
  · subst hkv; exact ⟨by simp, rfl⟩
example : C07.SameSets [[("a", Ty.int), ("b", .lit false ["x"])], [("a", .float)]]
    [[("a", .float)], [("a", .int), ("b", .lit false ["x"])], [("a", .float)]] := by
  intro fs; simp; grind

/-! ## 3. `optimize_type` -/

/-- **`optimize_congr`**: generator-stage arguments of the same kind (`GPair`: two raw types, two
    `Optional[raw]`, or two merged dicts) that are `≃` are mapped to `≃` results, for any fuels.
    No restriction on inline objects in unions. -/
theorem optimize_congr {cfg : GenCfg} {e : EqEnv} {f₁ f₂ : Nat} {t₁ t₂ u₁ u₂ : Ty}
    (hp : GPair cfg.lit t₁ t₂) (hs : t₁ ≃ₒ t₂)
    (h₁ : optimize cfg e f₁ t₁ = .ok u₁) (h₂ : optimize cfg e f₂ t₂ = .ok u₂) : u₁ ≃ₒ u₂ :=
  Perm.optimize_congr hp hs h₁ h₂

/-- `resolve` depends only on the set of kinds (used inside `optimize_congr`) -/
theorem resolve_perm {reg : StrRegistry} {ts₁ ts₂ r₁ r₂ : List String} {f₁ f₂ : Nat}
    (hs : ∀ k, k ∈ ts₁ ↔ k ∈ ts₂) (h₁ : resolve reg ts₁ f₁ = .ok r₁) (h₂ : resolve reg ts₂ f₂ = .ok r₂) :
    r₁.Perm r₂ := by
  rw [Strings.resolve_ok h₁, Strings.resolve_ok h₂]
  have hD : ∀ k, k ∈ dedupStr ts₁ ↔ k ∈ dedupStr ts₂ := fun k => by rw [mem_dedupStr, mem_dedupStr, hs]
  apply (List.perm_ext_iff_of_nodup (Strings.nodup_survivors (nodup_dedupStr _))
    (Strings.nodup_survivors (nodup_dedupStr _))).2
  intro k
  rw [Strings.mem_survivors, Strings.mem_survivors, hD]
  constructor
  · rintro ⟨h1, h2⟩; exact ⟨h1, fun t2 ht2 => h2 t2 ((hD t2).2 ht2)⟩
  · rintro ⟨h1, h2⟩; exact ⟨h1, fun t2 ht2 => h2 t2 ((hD t2).1 ht2)⟩

-- non-vacuity of `GPair`: two raw unions with the members in different order
theorem ex_mkUM : mkUnionMembers cEx [.int, .bool] = [.int, .bool] := by
  simp [mkUnionMembers, flattenUnion, handleType, hashStr, Ty.isStr]
theorem ex_mkUM' : mkUnionMembers cEx [.bool, .int] = [.bool, .int] := by
  simp [mkUnionMembers, flattenUnion, handleType, hashStr, Ty.isStr]
example : GPair cEx (.union [.int, .bool]) (.union [.bool, .int]) ∧ Ty.union [.int, .bool] ≃ₒ Ty.union [.bool, .int] := by
  refine ⟨.inl ⟨?_, ?_⟩, nsim_union_union.2 (SetA.of_mem_iff (fun t => by simp; exact Or.comm))⟩
  · rw [rawN_union]
    refine ⟨?_, by simp, ?_⟩
    · intro t ht; simp at ht
      rcases ht with rfl | rfl <;> exact ⟨by simp, rfl, rfl⟩
    · rw [← ex_mkUM]
      exact mstable_mkUM ⟨by intro t ht; simp at ht; rcases ht with rfl | rfl <;> rfl,
        by intro t ht; simp at ht; rcases ht with rfl | rfl <;> decide⟩
  · rw [rawN_union]
    refine ⟨?_, by simp, ?_⟩
    · intro t ht; simp at ht
      rcases ht with rfl | rfl <;> exact ⟨by simp, rfl, rfl⟩
    · rw [← ex_mkUM']
      exact mstable_mkUM ⟨by intro t ht; simp at ht; rcases ht with rfl | rfl <;> rfl,
        by intro t ht; simp at ht; rcases ht with rfl | rfl <;> decide⟩

/-! ## 4. `generate` -/

/-- **`generate_perm_members`**: for sample lists with the same set of samples (`C07.SameSamples` — any
    order, any repetition), if both runs of `generate` return a type, the two types have the same member
    sets up to order in every type position. -/
theorem generate_perm_members {cfg : GenCfg} {o : GenOracles} {s₁ s₂ : List Json} {t₁ t₂ : Ty}
    (hn : NamesOk cfg) (wf₁ : SamplesOk s₁) (hs : C07.SameSamples s₁ s₂)
    (h₁ : generate cfg o s₁ = .ok t₁) (h₂ : generate cfg o s₂ = .ok t₂) : t₁ ≃ₒ t₂ := by
  have wf₂ : SamplesOk s₂ := fun s hs' => wf₁ s ((hs s).2 hs')
  rw [generate_eq, Except.bind_eq_ok] at h₁ h₂
  obtain ⟨sets₁, m₁, h₁⟩ := h₁
  obtain ⟨sets₂, m₂, h₂⟩ := h₂
  rw [Except.bind_eq_ok] at h₁ h₂
  obtain ⟨f₁, g₁, h₁⟩ := h₁
  obtain ⟨f₂, g₂, h₂⟩ := h₂
  have r₁ := Perm.convert_rawSets hn wf₁ m₁
  have r₂ := Perm.convert_rawSets hn wf₂ m₂
  have hN := mergeFieldSets_congr r₁ r₂ (SetsN.of_same (C07.sameSets_of_sameSamples hs m₁ m₂)) g₁ g₂
  exact Perm.optimize_congr
    (.inr (.inr ⟨f₁, f₂, rfl, rfl, mergeFieldSets_rawT r₁ g₁, mergeFieldSets_rawT r₂ g₂⟩))
    (nsim_of_asim' (asim_obj_obj.2 hN)) h₁ h₂

/-! ## 5. the final statement -/

mutual
theorem wf_keysOk : ∀ v : Json, Json.WF v → C08P.keysOk v = true
  | .arr xs, h => by
      rw [C08P.keysOk]; exact wfList_keysOk xs (by simpa [Json.WF] using h)
  | .obj kvs, h => by
      have h' : (kvs.map (·.1)).Nodup ∧ Json.WFKvs kvs := by simpa [Json.WF] using h
      rw [C08P.keysOk, Bool.and_eq_true]
      exact ⟨(C08P.nodupStr_iff _).2 h'.1, wfKvs_keysOk kvs h'.2⟩
  | .null, _ | .bool _, _ | .int _, _ | .float _, _ | .str _, _ => by simp [C08P.keysOk]
theorem wfList_keysOk : ∀ xs : List Json, Json.WFList xs → C08P.keysOkList xs = true
  | [], _ => by simp [C08P.keysOkList]
  | x :: xs, h => by
      simp only [Json.WFList] at h
      rw [C08P.keysOkList, Bool.and_eq_true]; exact ⟨wf_keysOk x h.1, wfList_keysOk xs h.2⟩
theorem wfKvs_keysOk : ∀ kvs : List (String × Json), Json.WFKvs kvs → C08P.keysOkKvs kvs = true
  | [], _ => by simp [C08P.keysOkKvs]
  | (k, x) :: kvs, h => by
      simp only [Json.WFKvs] at h
      rw [C08P.keysOkKvs, Bool.and_eq_true]; exact ⟨wf_keysOk x h.1, wfKvs_keysOk kvs h.2⟩
end

/-- on canonical normal forms (what `generate` returns, C08) `≃` is `≈` -/
theorem meqv_to_eqv {cfg : GenCfg} {t₁ t₂ : Ty} (n₁ : C08P.nfc cfg t₁ = true) (n₂ : C08P.nfc cfg t₂ = true)
    (h : t₁ ≃ₒ t₂) : t₁ ≈ₒ t₂ := nsim_to_sim n₁ n₂ h

/-- **`generate_perm` (C07 at generator level).**  For every configuration whose registered pseudo-type
    class names are well-formed, every oracle, and two lists of well-formed JSON samples with the same *set*
    of samples (any permutation, any repetition): if both runs of `generate` return a type, the two types
    are equal up to field order and union member order — same fields, same required/optional status, same
    type for every field when types are compared as sets. -/
theorem generate_perm {cfg : GenCfg} {o : GenOracles} {s₁ s₂ : List Json} {t₁ t₂ : Ty}
    (hn : NamesOk cfg) (wf₁ : SamplesOk s₁) (hs : C07.SameSamples s₁ s₂)
    (h₁ : generate cfg o s₁ = .ok t₁) (h₂ : generate cfg o s₂ = .ok t₂) : t₁ ≈ₒ t₂ := by
  have wf₂ : SamplesOk s₂ := fun s hs' => wf₁ s ((hs s).2 hs')
  exact meqv_to_eqv
    (C08.generate_nfc cfg o s₁ t₁ (fun v hv => wf_keysOk v (wf₁ v hv)) h₁)
    (C08.generate_nfc cfg o s₂ t₂ (fun v hv => wf_keysOk v (wf₂ v hv)) h₂)
    (generate_perm_members hn wf₁ hs h₁ h₂)

/-- permutations and repetitions are instances of `SameSamples` -/
theorem sameSamples_of_perm {s₁ s₂ : List Json} (h : s₁.Perm s₂) : C07.SameSamples s₁ s₂ := fun _ => h.mem_iff
theorem sameSamples_of_dups {s dups : List Json} (h : ∀ v ∈ dups, v ∈ s) : C07.SameSamples s (s ++ dups) := by
  intro v; rw [List.mem_append]; exact ⟨.inl, fun h' => h'.elim id (h v)⟩

-- non-vacuity: three samples (an object field with its keys in two orders, a long string, a missing key),
-- and the same set of samples in another order with a repetition
def cfgE : GenCfg := ⟨⟨15, 20⟩, ⟨["IntString"], [], []⟩, [], []⟩
def oE : GenOracles := ⟨fun _ s => some (s == "1"), fun _ _ => some false, StrOracle.default⟩
def sA : Json := .obj [("x", .obj [("a", .int 1), ("b", .str "u")]), ("y", .str "1")]
def sB : Json := .obj [("x", .obj [("b", .str "u"), ("a", .int 1)]), ("y", .str "a string of more than twenty characters")]
def sC : Json := .obj [("x", .int 3)]

example : NamesOk cfgE := by intro k hk; simp [cfgE] at hk; subst hk; decide
example : SamplesOk [sA, sB, sC] := by
  intro s hs; simp at hs
  rcases hs with rfl | rfl | rfl <;> simp [sA, sB, sC, Json.WF, Json.WFKvs]
example : C07.SameSamples [sA, sB, sC] [sC, sB, sA, sB] := by intro v; simp; grind
/- `#eval` gives (the kernel cannot run the string comparisons of `DUnion` by `rfl`):
   generate cfgE oE [sA, sB, sC]     = {"x": Union[int, {"a": int, "b": Literal["u"]}], "y": Optional[str]}
   generate cfgE oE [sC, sB, sA, sB] = {"x": Union[int, {"b": Literal["u"], "a": int}], "y": Optional[str]} -/

-- a smaller instance that the kernel evaluates: a missing key, a pseudo-type, a repeated sample
def sD : Json := .obj [("a", .int 1), ("c", .arr [.int 1])]
def sE : Json := .obj [("b", .str "1")]
theorem ex_gen₁ : generate cfgE oE [sD, sE] =
    .ok (.obj [("a", .opt .int), ("c", .opt (.list .int)), ("b", .opt (.ser "IntString"))]) := by rfl
theorem ex_gen₂ : generate cfgE oE [sE, sD, sE] =
    .ok (.obj [("b", .opt (.ser "IntString")), ("a", .opt .int), ("c", .opt (.list .int))]) := by rfl
example : SamplesOk [sD, sE] := by
  intro s hs; simp at hs
  rcases hs with rfl | rfl <;> simp [sD, sE, Json.WF, Json.WFKvs, Json.WFList]
theorem ex_same : C07.SameSamples [sD, sE] [sE, sD, sE] := by intro v; simp; grind
theorem ex_names : NamesOk cfgE := by intro k hk; simp [cfgE] at hk; subst hk; decide
theorem ex_wf : SamplesOk [sD, sE] := by
  intro s hs; simp at hs
  rcases hs with rfl | rfl <;> simp [sD, sE, Json.WF, Json.WFKvs, Json.WFList]
/-- the theorem applied to the instance: the two results differ only in field order -/
example : Ty.obj [("a", .opt .int), ("c", .opt (.list .int)), ("b", .opt (.ser "IntString"))] ≈ₒ
    Ty.obj [("b", .opt (.ser "IntString")), ("a", .opt .int), ("c", .opt (.list .int))] :=
  generate_perm ex_names ex_wf ex_same ex_gen₁ ex_gen₂

end J2M.C07P

#print axioms J2M.C07P.eqv_equivalence
#print axioms J2M.C07P.mergeFieldSets_equiv
#print axioms J2M.C07P.optimize_congr
#print axioms J2M.C07P.generate_perm_members
#print axioms J2M.C07P.generate_perm

