/-
  C16 — "The command line is a faithful front end to the library pipeline"   (DESIGN §8.16)

  Model: `J2M.Cli` — `dictLookup` / `iterJsonFile` / `assemble` (= `setup_models_data` with
  `args = models ++ lists`, each `Arg` = one `-m`/`-l` tuple after path expansion and file parsing) and
  `parseMerge` (one `--merge` item). Globbing and file parsing are inputs of the model.
  Samples of one model name = the objects of every matching document, concatenated in argument order;
  a top-level list contributes its elements, an object itself, a dotted lookup selects a sub-document.
-/
import J2M.Proofs.Cli
namespace J2M.C16
open J2M J2M.Cli

/-! ## 1. `lookup_path` -/

/-- no segment contains a dot -/
def DotFree (ks : List String) : Prop := ∀ k ∈ ks, '.' ∉ k.toList
/-- the last segment is a real key (a trailing `""` or `"-"` segment ends `dict_lookup`'s loop) -/
def LastIsKey (ks : List String) : Prop := ks.getLast? ≠ some "" ∧ ks.getLast? ≠ some "-"

/--
  **C16.1** `dict_lookup(d, "k₁.k₂.….kₙ") = d[k₁][k₂]…[kₙ]` for dot-free segments whose last one is neither
  empty nor `"-"` (inner segments may be anything dot-free, including `""` and `"-"`).
-/
theorem lookup_path (d : Json) (ks : List String) (hne : ks ≠ []) (hdot : DotFree ks) (hlast : LastIsKey ks) :
    dictLookup d (".".intercalate ks) = ks.foldlM subscript d := by
  rw [dictLookup_intercalate d ks hne hdot, descend, effKeys, if_neg]
  rintro (h | h)
  · exact hlast.1 h
  · exact hlast.2 h

/-- without the side condition on the last segment: a trailing `""`/`"-"` segment is dropped
    (`"a.b."` and `"a.b.-"` behave as `"a.b"`) -/
theorem lookup_path_general (d : Json) (ks : List String) (hne : ks ≠ []) (hdot : DotFree ks) :
    dictLookup d (".".intercalate ks) = (effKeys ks).foldlM subscript d :=
  dictLookup_intercalate d ks hne hdot

/-- every lookup string, no side condition: descent along the effective keys of its dot-separated segments -/
theorem lookup_path_any (d : Json) (lookup : String) :
    dictLookup d lookup = (effKeys (segments lookup)).foldlM subscript d ∧
    ".".intercalate (segments lookup) = lookup ∧ segments lookup ≠ [] ∧ DotFree (segments lookup) :=
  ⟨dictLookup_eq_descend d lookup, intercalate_segments lookup, segments_ne_nil lookup, segments_nodot lookup⟩

theorem lookup_dash (d : Json) : dictLookup d "-" = .ok d := rfl
theorem lookup_empty (d : Json) : dictLookup d "" = .ok d := rfl

/-- the lookup fails iff some subscript along the path fails — with that subscript's error, at the first
    failing key -/
theorem lookup_fails_iff (d : Json) (ks : List String) (hne : ks ≠ []) (hdot : DotFree ks)
    (hlast : LastIsKey ks) (e : PyErr) :
    dictLookup d (".".intercalate ks) = .error e ↔
      ∃ pre k post d', ks = pre ++ k :: post ∧ pre.foldlM subscript d = .ok d' ∧ subscript d' k = .error e := by
  rw [lookup_path d ks hne hdot hlast]
  exact foldlM_error_iff subscript ks d e

/-- a subscript fails iff the key is missing (`KeyError`) or the value is not an object (`TypeError`) -/
theorem subscript_fails_iff (d : Json) (k : String) (e : PyErr) :
    subscript d k = .error e ↔
      (∃ kvs, d = .obj kvs ∧ kvs.find? (·.1 == k) = none ∧ e = .keyError) ∨
      ((∀ kvs, d ≠ .obj kvs) ∧ e = .typeError) :=
  subscript_error_iff d k e

def doc₀ : Json := .obj [("a", .obj [("b", .obj [("c", .arr [.int 1])]), ("-", .int 5)]), ("x", .int 0)]

example : DotFree ["a", "b", "c"] := by unfold DotFree; decide
example : LastIsKey ["a", "b", "c"] := by unfold LastIsKey; decide
example : ".".intercalate ["a", "b", "c"] = "a.b.c" := by decide
example : dictLookup doc₀ "a.b.c" = .ok (.arr [.int 1]) := by rfl
example : ["a", "b", "c"].foldlM subscript doc₀ = .ok (.arr [.int 1]) := by rfl
example : dictLookup doc₀ "a.z.c" = .error .keyError := by rfl     -- missing key
example : dictLookup doc₀ "x.y" = .error .typeError := by rfl      -- descends into a scalar
example : dictLookup doc₀ "a.b." = dictLookup doc₀ "a.b" := by rfl  -- trailing empty segment dropped
example : dictLookup doc₀ "a.-" = dictLookup doc₀ "a" := by rfl     -- trailing "-" is not a key …
example : dictLookup doc₀ "a.-.q" = .error .typeError := by rfl     -- … but an inner "-" is

/-! ## 2. `assemble_concat` -/

/-- every `iter_json_file` call of the run succeeds -/
def AllDocsOk (args : List Arg) : Prop :=
  ∀ a ∈ args, ∀ d ∈ a.docs, ∃ xs, iterJsonFile d a.lookup = .ok xs

/--
  **C16.2 (closed form)** `assemble` raises the first error of `iter_json_file` in processing order
  (arguments in order, documents in order); otherwise it returns, for each model name in order of first
  occurrence among arguments having at least one document, the concatenation of its samples.
-/
theorem assemble_closed_form (args : List Arg) :
    assemble args = match (errors args).head? with
      | none => .ok ((names args).map (fun n => (n, samples args n)))
      | some e => .error e :=
  assemble_eq args

/--
  **C16.2** For a successful `assemble`: the result is exactly names-in-first-occurrence-order paired with
  `samples`; each name occurs once; the list stored under a name `n` is
  `(args.filter (·.name == n)).flatMap (fun a => a.docs.flatMap items)` where `items` are the successful
  results of `iterJsonFile`; a name is present iff some argument with that name has a document.
-/
theorem assemble_concat (args : List Arg) (r : List (String × List Json)) (h : assemble args = .ok r) :
    r = (names args).map (fun n => (n, samples args n)) ∧
    r.map (·.1) = names args ∧ (r.map (·.1)).Nodup ∧
    (∀ n, r.find? (·.1 == n) = if n ∈ names args then some (n, samples args n) else none) ∧
    (∀ n, n ∈ names args ↔ ∃ a ∈ args, a.name = n ∧ a.docs ≠ []) ∧
    (∀ n, samples args n = (args.filter (·.name == n)).flatMap (fun a => a.docs.flatMap (itemsOf a.lookup))) ∧
    (∀ a ∈ args, ∀ d ∈ a.docs, iterJsonFile d a.lookup = .ok (itemsOf a.lookup d)) := by
  rw [assemble_eq] at h
  cases he : (errors args).head? with
  | some e => rw [he] at h; cases h
  | none =>
    rw [he] at h
    simp only [Except.ok.injEq] at h
    have hall : AllDocsOk args := by
      rw [AllDocsOk, ← errors_eq_nil_iff]
      simpa using he
    subst h
    refine ⟨rfl, ?_, ?_, find_assembled args, mem_names args, fun _ => rfl, ?_⟩
    · simp [assembled, List.map_map, Function.comp_def]
    · have : (assembled args).map (·.1) = names args := by
        simp [assembled, List.map_map, Function.comp_def]
      rw [this]; exact assembled_nodup args
    · intro a ha d hd
      obtain ⟨xs, hxs⟩ := hall a ha d hd
      rw [hxs, itemsOf_of_ok hxs]

/-- `assemble` succeeds iff every `iter_json_file` call succeeds -/
theorem assemble_ok_iff (args : List Arg) : (∃ r, assemble args = .ok r) ↔ AllDocsOk args := by
  rw [assemble_eq, AllDocsOk, ← errors_eq_nil_iff]
  cases he : errors args with
  | nil => simp
  | cons e es => simp

/-- `assemble` fails with `e` iff, in processing order, the first document whose `iter_json_file` fails,
    fails with `e` -/
theorem assemble_fails_iff (args : List Arg) (e : PyErr) :
    assemble args = .error e ↔
      ∃ pre x post, docsInOrder args = pre ++ x :: post ∧
        (∀ y ∈ pre, ∃ xs, iterJsonFile y.1 y.2 = .ok xs) ∧ iterJsonFile x.1 x.2 = .error e := by
  rw [assemble_eq, errors_eq_docsInOrder]
  have := head?_filterMap_eq_some (fun x : Json × String => errOf x.2 x.1) (docsInOrder args) e
  simp only [errOf_eq_none_iff, errOf_eq_some_iff] at this
  rw [← this]
  cases (List.filterMap (fun x : Json × String => errOf x.2 x.1) (docsInOrder args)).head? with
  | none => simp
  | some e' => simp

def x1 : Json := .obj [("x", .int 1)]
def x2 : Json := .obj [("x", .int 2)]
def x3 : Json := .obj [("x", .int 3)]
def y1 : Json := .obj [("y", .null)]

/-- `-m A f1.json  -m B data.items g.json  -m C nothing-matched  -l A "" h.json` -/
def args₀ : List Arg :=
  [⟨"A", "-", [.arr [x1, x2]]⟩,
   ⟨"B", "data.items", [.obj [("data", .obj [("items", .arr [y1])])], .obj [("data", .obj [("items", .arr [])])]]⟩,
   ⟨"C", "-", []⟩,
   ⟨"A", "", [x3]⟩]

example : assemble args₀ = .ok [("A", [x1, x2, x3]), ("B", [y1])] := by rfl
example : names args₀ = ["A", "B"] := by decide          -- "C" matched no file: no entry
example : errors args₀ = [] := by rfl
/-- the second document of the first argument is a scalar: `TypeError`, raised before `B` is looked at -/
example : assemble (⟨"A", "-", [.arr [x1], .int 7]⟩ :: ⟨"B", "nope", [x1]⟩ :: args₀) = .error .typeError := by rfl
example : assemble (⟨"B", "nope", [x1]⟩ :: args₀) = .error .keyError := by rfl

/-! ## 3. `split_invariant` -/

/-- **C16.3a** one list document `xs ++ ys` replaced by two adjacent list documents `xs`, `ys`
    (same argument, hence same name and lookup — any lookup, in particular `-`) -/
theorem split_doc (pre post : List Arg) (n l : String) (ds₁ ds₂ : List Json) (xs ys : List Json) :
    assemble (pre ++ ⟨n, l, ds₁ ++ .arr (xs ++ ys) :: ds₂⟩ :: post)
      = assemble (pre ++ ⟨n, l, ds₁ ++ .arr xs :: .arr ys :: ds₂⟩ :: post) :=
  assemble_split_doc pre post n l ds₁ ds₂ xs ys

/-- **C16.3b** one argument with documents `d₁ ++ d₂` replaced by two adjacent arguments with the same name
    and lookup holding `d₁` and `d₂` -/
theorem split_arg (pre post : List Arg) (n l : String) (d₁ d₂ : List Json) :
    assemble (pre ++ ⟨n, l, d₁ ++ d₂⟩ :: post) = assemble (pre ++ ⟨n, l, d₁⟩ :: ⟨n, l, d₂⟩ :: post) :=
  assemble_split_arg pre post n l d₁ d₂

/-- **C16.3c** top-level lists under the root lookup (`-` or empty) replaced by `{"k": list}` documents under
    lookup `k`, for any plain key `k` (dot-free, non-empty, not `-`) -/
theorem wrap_list (pre post : List Arg) (n k r : String) (hk : PlainKey k) (hr : isRootLookup r = true)
    (xss : List (List Json)) :
    assemble (pre ++ ⟨n, r, xss.map .arr⟩ :: post)
      = assemble (pre ++ ⟨n, k, xss.map (fun xs => .obj [(k, .arr xs)])⟩ :: post) :=
  assemble_wrap pre post n k r hk hr xss

/-- the per-document facts behind 3c and 3d -/
theorem contributes (k : String) (hk : PlainKey k) (xs : List Json) (kvs : List (String × Json)) :
    iterJsonFile (.arr xs) "-" = .ok xs ∧
    iterJsonFile (.obj [(k, .arr xs)]) k = .ok xs ∧
    iterJsonFile (.obj kvs) "-" = .ok [.obj kvs] :=
  ⟨by rw [iterJsonFile_arr]; rfl, iterJsonFile_wrapped k hk xs, iterJsonFile_obj_root kvs "-" rfl⟩

/-- **C16.3d** an object document contributes itself as a single sample -/
theorem obj_is_one_sample (n : String) (kvs : List (String × Json)) :
    assemble [⟨n, "-", [.obj kvs]⟩] = .ok [(n, [.obj kvs])] := by
  simp [assemble, iterJsonFile_obj_root kvs "-" rfl, extend, pure, Except.pure, bind, Except.bind]

/-- anything that is neither a list nor an object is rejected -/
theorem scalar_rejected (d : Json) (hl : ∀ xs, d ≠ .arr xs) (ho : ∀ kvs, d ≠ .obj kvs) :
    iterJsonFile d "-" = .error .typeError := by
  unfold iterJsonFile
  rw [dictLookup_root d "-" rfl]
  cases d with
  | arr xs => exact absurd rfl (hl xs)
  | obj kvs => exact absurd rfl (ho kvs)
  | _ => rfl

example : PlainKey "items" := by unfold PlainKey; decide
example : isRootLookup "-" = true ∧ isRootLookup "" = true ∧ isRootLookup "a" = false := by decide
example : assemble [⟨"A", "-", [.arr [x1, x2, x3]]⟩] = assemble [⟨"A", "-", [.arr [x1]]⟩, ⟨"A", "-", [.arr [x2, x3]]⟩] := by
  rfl
example : assemble [⟨"A", "items", [.obj [("items", .arr [x1, x2])]]⟩] = .ok [("A", [x1, x2])] := by rfl

/-! ## 4. `opts_table` -/

/--
  **C16.4** the `--merge` decision table, as a function of `mergeParts m`
  (`m.split("_") if "_" in m else m`): `percent` ↦ the default percent policy; `percent_N` ↦ `N/100` as
  given by the float oracle, `ValueError` when `float(N)` raises; `number`, `number_N` likewise with `int`;
  `exact`; extra arguments ↦ `TypeError` (the comparator constructor's arity) once the first argument has been converted — an
  unparsable first argument is a `ValueError` whatever follows (the converter runs first); unknown name ↦ `ValueError`.
-/
theorem opts_table (po : PercentOracle) (io : IntOracle) (dp : Nat × Nat) (dn : Nat) (m : String) :
    (mergeParts m = ["percent"] → parseMerge po io dp dn m = .ok (.percent dp.1 dp.2)) ∧
    (∀ a n d, mergeParts m = ["percent", a] → po a = some (some (n, d)) →
        parseMerge po io dp dn m = .ok (.percent n d)) ∧
    (∀ a, mergeParts m = ["percent", a] → po a = some none → parseMerge po io dp dn m = .error .valueError) ∧
    (mergeParts m = ["number"] → parseMerge po io dp dn m = .ok (.number dn)) ∧
    (∀ a i, mergeParts m = ["number", a] → io a = some (some i) →
        parseMerge po io dp dn m = .ok (.number i.toNat)) ∧
    (∀ a, mergeParts m = ["number", a] → io a = some none → parseMerge po io dp dn m = .error .valueError) ∧
    (mergeParts m = ["exact"] → parseMerge po io dp dn m = .ok .exact) ∧
    (∀ a, mergeParts m = ["exact", a] → parseMerge po io dp dn m = .error .typeError) ∧
    (∀ name a b rest, mergeParts m = name :: a :: b :: rest →
        ((name = "percent" ∧ ∃ v, po a = some (some v)) ∨ (name = "number" ∧ ∃ i, io a = some (some i)) ∨ name = "exact") →
        parseMerge po io dp dn m = .error .typeError) ∧
    (∀ a b rest, mergeParts m = "percent" :: a :: b :: rest → po a = some none →
        parseMerge po io dp dn m = .error .valueError) ∧
    (∀ a b rest, mergeParts m = "number" :: a :: b :: rest → io a = some none →
        parseMerge po io dp dn m = .error .valueError) ∧
    (∀ name rest, mergeParts m = name :: rest → name ≠ "percent" → name ≠ "number" → name ≠ "exact" →
        parseMerge po io dp dn m = .error .valueError) := by
  rw [parseMerge_eq]
  refine ⟨?_, ?_, ?_, ?_, ?_, ?_, ?_, ?_, ?_, ?_, ?_, ?_⟩
  · intro h; rw [h]; rfl
  · intro a n d h hp; rw [h]; simp [parseParts, hp, pure, Except.pure]
  · intro a h hp; rw [h]; simp [parseParts, hp]
  · intro h; rw [h]; rfl
  · intro a i h hi; rw [h]; simp [parseParts, hi, pure, Except.pure]
  · intro a h hi; rw [h]; simp [parseParts, hi]
  · intro h; rw [h]; rfl
  · intro a h; rw [h]; exact parseParts_exact_arg po io dp dn a
  · intro name a b rest h hn; rw [h]; exact parseParts_too_many po io dp dn name a b rest hn
  · intro a b rest h hp; rw [h]; exact (parseParts_bad_first po io dp dn a b rest).1 hp
  · intro a b rest h hi; rw [h]; exact (parseParts_bad_first po io dp dn a b rest).2 hi
  · intro name rest h h1 h2 h3; rw [h]; exact parseParts_unknown po io dp dn name rest h1 h2 h3

/-- names without an underscore are not split: the bare-policy rows need no hypothesis on `mergeParts` -/
theorem opts_bare (po : PercentOracle) (io : IntOracle) (dp : Nat × Nat) (dn : Nat) :
    parseMerge po io dp dn "percent" = .ok (.percent dp.1 dp.2) ∧
    parseMerge po io dp dn "number" = .ok (.number dn) ∧
    parseMerge po io dp dn "exact" = .ok .exact ∧
    (∀ m, '_' ∉ m.toList → m ≠ "percent" → m ≠ "number" → m ≠ "exact" →
        parseMerge po io dp dn m = .error .valueError) := by
  have hp : mergeParts "percent" = ["percent"] := mergeParts_of_no_underscore _ (by decide)
  have hn : mergeParts "number" = ["number"] := mergeParts_of_no_underscore _ (by decide)
  have he : mergeParts "exact" = ["exact"] := mergeParts_of_no_underscore _ (by decide)
  refine ⟨((opts_table po io dp dn _).1 hp), ((opts_table po io dp dn _).2.2.2.1 hn),
    ((opts_table po io dp dn _).2.2.2.2.2.2.1 he), ?_⟩
  intro m hm h1 h2 h3
  exact (opts_table po io dp dn m).2.2.2.2.2.2.2.2.2.2.2 m [] (mergeParts_of_no_underscore m hm) h1 h2 h3

/-- a policy argument without an underscore -/
def NoUnderscore (a : String) : Prop := '_' ∉ a.toList

/--
  **C16.4 (hypothesis-free rows)** `percent_N`, `number_N`, `exact_N` for every argument string `N` without an
  underscore — `str.split("_")` is computed, not assumed (`mergeParts_eq`: for every `m`, `mergeParts m` is the
  list of underscore-separated segments of `m`).
-/
theorem opts_with_arg (po : PercentOracle) (io : IntOracle) (dp : Nat × Nat) (dn : Nat) (a : String)
    (ha : NoUnderscore a) :
    parseMerge po io dp dn ("percent_" ++ a) = (match po a with
      | none => .error (.oracleMiss ("percent " ++ a))
      | some none => .error .valueError
      | some (some (n, d)) => .ok (.percent n d)) ∧
    parseMerge po io dp dn ("number_" ++ a) = (match io a with
      | none => .error (.oracleMiss ("int " ++ a))
      | some none => .error .valueError
      | some (some i) => .ok (.number i.toNat)) ∧
    parseMerge po io dp dn ("exact_" ++ a) = .error .typeError := by
  have h1 : mergeParts ("percent_" ++ a) = ["percent", a] :=
    mergeParts_name_arg "percent" a (by decide) ha
  have h2 : mergeParts ("number_" ++ a) = ["number", a] :=
    mergeParts_name_arg "number" a (by decide) ha
  have h3 : mergeParts ("exact_" ++ a) = ["exact", a] :=
    mergeParts_name_arg "exact" a (by decide) ha
  refine ⟨?_, ?_, ?_⟩
  · rw [parseMerge_eq, h1]; rfl
  · rw [parseMerge_eq, h2]; rfl
  · rw [parseMerge_eq, h3]; exact parseParts_exact_arg po io dp dn a

/-- every merge item is the `_`-join of its underscore-free segments, and is decided on those segments:
    an unknown first segment is a `ValueError`, a known one with two or more arguments a `TypeError` once its first
    argument converts, a `ValueError` when it does not -/
theorem opts_by_segments (po : PercentOracle) (io : IntOracle) (dp : Nat × Nat) (dn : Nat)
    (name : String) (rest : List String) (h : ∀ p ∈ name :: rest, NoUnderscore p) :
    (name ≠ "percent" → name ≠ "number" → name ≠ "exact" →
      parseMerge po io dp dn ("_".intercalate (name :: rest)) = .error .valueError) ∧
    (∀ a b rest', rest = a :: b :: rest' →
      ((name = "percent" ∧ ∃ v, po a = some (some v)) ∨ (name = "number" ∧ ∃ i, io a = some (some i)) ∨ name = "exact") →
      parseMerge po io dp dn ("_".intercalate (name :: rest)) = .error .typeError) ∧
    (∀ a b rest', rest = a :: b :: rest' → name = "percent" → po a = some none →
      parseMerge po io dp dn ("_".intercalate (name :: rest)) = .error .valueError) ∧
    (∀ a b rest', rest = a :: b :: rest' → name = "number" → io a = some none →
      parseMerge po io dp dn ("_".intercalate (name :: rest)) = .error .valueError) := by
  have hp : mergeParts ("_".intercalate (name :: rest)) = name :: rest :=
    mergeParts_intercalate _ (by simp) h
  refine ⟨fun h1 h2 h3 => ?_, fun a b rest' hr hn => ?_, fun a b rest' hr hn hv => ?_, fun a b rest' hr hn hv => ?_⟩
  · rw [parseMerge_eq, hp]; exact parseParts_unknown po io dp dn name rest h1 h2 h3
  · rw [parseMerge_eq, hp, hr]; exact parseParts_too_many po io dp dn name a b rest' hn
  · rw [parseMerge_eq, hp, hr, hn]; exact (parseParts_bad_first po io dp dn a b rest').1 hv
  · rw [parseMerge_eq, hp, hr, hn]; exact (parseParts_bad_first po io dp dn a b rest').2 hv

/-- a concrete float oracle: `float("95")/100 = 95/100`, `float("x")` raises -/
def po₀ : PercentOracle := fun s => if s = "95" then some (some (95, 100)) else if s = "x" then some none else none
def io₀ : IntOracle := fun s => if s = "3" then some (some 3) else if s = "x" then some none else none

example : NoUnderscore "95" := by unfold NoUnderscore; decide
example : parseMerge po₀ io₀ (70, 100) 10 "percent_95" = .ok (.percent 95 100) :=
  (opts_with_arg po₀ io₀ (70, 100) 10 "95" (by unfold NoUnderscore; decide)).1
example : parseMerge po₀ io₀ (70, 100) 10 "percent_x" = .error .valueError :=
  (opts_with_arg po₀ io₀ (70, 100) 10 "x" (by unfold NoUnderscore; decide)).1
example : parseMerge po₀ io₀ (70, 100) 10 "number_3" = .ok (.number 3) :=
  (opts_with_arg po₀ io₀ (70, 100) 10 "3" (by unfold NoUnderscore; decide)).2.1
example : parseMerge po₀ io₀ (70, 100) 10 "percent" = .ok (.percent 70 100) := (opts_bare po₀ io₀ (70, 100) 10).1
example : parseMerge po₀ io₀ (70, 100) 10 "fuzzy" = .error .valueError :=
  (opts_bare po₀ io₀ (70, 100) 10).2.2.2 "fuzzy" (by decide) (by decide) (by decide) (by decide)
example : parseMerge po₀ io₀ (70, 100) 10 "percent_95_2" = .error .typeError :=
  (opts_by_segments po₀ io₀ (70, 100) 10 "percent" ["95", "2"] (by unfold NoUnderscore; decide)).2.1 "95" "2" [] rfl
    (.inl ⟨rfl, (95, 100), by simp [po₀]⟩)
example : parseMerge po₀ io₀ (70, 100) 10 "percent_x_2" = .error .valueError :=     -- the converter runs before the arity check
  (opts_by_segments po₀ io₀ (70, 100) 10 "percent" ["x", "2"] (by unfold NoUnderscore; decide)).2.2.1 "x" "2" [] rfl rfl
    (by simp [po₀])

end J2M.C16
