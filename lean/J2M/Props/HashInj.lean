/-
  Injectivity of the (repaired) hash string `hashStr`, the key used by `DUnion.__init__` to
  de-duplicate union members, and non-injectivity of the original encoding (DESIGN §10 D1/D2).
-/
import J2M.Union
import J2M.Proofs.HashInj
import J2M.Proofs.HashInjUnion
namespace J2M.HashInj

/-! ## 1. The repaired encoding is injective -/

/-- **`hashStr` is injective on well-formed types.** `Ty.WFHash` (= `wfHash t = true`, see
    `J2M/Proofs/HashInj.lean`) asks that every `.ser k` carries a non-empty identifier
    (ASCII letters/digits/underscore) other than `int/float/bool/str`, every `.ptr i` an alphanumeric index,
    and that an overflowed literal carries no values; literal values and field keys are arbitrary strings. -/
theorem hashStr_inj : ∀ a b : Ty, a.WFHash → b.WFHash → hashStr a = hashStr b → a = b :=
  hashStr_inj_core

theorem hashStr_eq_iff {a b : Ty} (wa : a.WFHash) (wb : b.WFHash) : hashStr a = hashStr b ↔ a = b :=
  ⟨hashStr_inj a b wa wb, fun h => h ▸ rfl⟩

/-- prefix form: a hash string followed by `,`/`]`/`}`/end of input determines the type and the rest -/
theorem hashStr_prefix_unique (a b : Ty) (r₁ r₂ : List Char) (wa : a.WFHash) (wb : b.WFHash)
    (d₁ : Delim r₁) (d₂ : Delim r₂) (h : (hashStr a).toList ++ r₁ = (hashStr b).toList ++ r₂) :
    a = b ∧ r₁ = r₂ := dec_ty a b r₁ r₂ wa wb d₁ d₂ h

/-- sub-lemma (i): `json.dumps(s)` (ASCII mode) is injective, for arbitrary strings -/
theorem jsonDumps_injective : ∀ s₁ s₂ : String, jsonDumps true s₁ = jsonDumps true s₂ → s₁ = s₂ :=
  fun _ _ h => jsonDumps_inj h

/-- `StringLiteral(...)` as built by `mkLit` is always well-formed, whatever the values -/
theorem mkLit_wf (c : LitCfg) (vals : List String) : (mkLit c vals).WFHash := by
  unfold mkLit; split <;> simp [Ty.WFHash, wfHash]

/-- non-vacuity: a nested type with hostile literal values and keys is well-formed -/
def wfExample : Ty :=
  .list (.union [.list (.union [.int, .bool]), .ser "IntString", .lit false ["a,b", "\"]", "😀"],
    .lit true [], .tuple [.ptr "12C", .null], .obj [("k\",]}", .opt .unknown), ("", .dict .float)]])

example : wfExample.WFHash := by decide
example : ¬ (Ty.ser "int").WFHash := by decide
example : ¬ (Ty.ptr "1,A").WFHash := by decide

/-! ## 2. The original encoding is not injective (DESIGN §10 D1, D2) -/

/-- `get_hash_string` as in the unrepaired code: members of a `ComplexType` joined by `,` without
    brackets (complex.py:132-133), literal values joined by `,` without escaping (complex.py:288-300) -/
def litReprOld (ov : Bool) (vals : List String) : String :=
  if ov then "..." else ",".intercalate vals

mutual
def hashStrOld : Ty → String
  | .int => "<class 'int'>" | .float => "<class 'float'>" | .bool => "<class 'bool'>"
  | .str => "<class 'str'>" | .null => "NoneType" | .unknown => "Unknown"
  | .ser k => "<class '" ++ k ++ "'>"
  | .lit o vs => "StringLiteral/" ++ litReprOld o vs
  | .list t => "DList/" ++ hashStrOld t
  | .dict t => "DDict/" ++ hashStrOld t
  | .opt t => "DOptional/" ++ hashStrOld t
  | .union ts => "DUnion/" ++ ",".intercalate (hashStrsOld ts)
  | .tuple ts => "DTuple/" ++ ",".intercalate (hashStrsOld ts)
  | .obj fs => "{" ++ ",".intercalate (hashFieldsOld fs) ++ "}"
  | .ptr i => "ModelPtr_#" ++ i
def hashStrsOld : List Ty → List String
  | [] => []
  | t :: ts => hashStrOld t :: hashStrsOld ts
def hashFieldsOld : List (String × Ty) → List String
  | [] => []
  | (k, t) :: fs => (jsonDumps true k ++ ":" ++ hashStrOld t) :: hashFieldsOld fs
end

/-- D1: the literal sets `{"a,b"}` and `{"a","b"}` -/
def d1a : Ty := .lit false ["a,b"]
def d1b : Ty := .lit false ["a", "b"]

/-- D2: `[[1,true],[1.5,{}],null]` and `[[1,true],[1.5,{},null]]` -/
def d2a : Ty := .list (.union [.list (.union [.int, .bool]), .list (.union [.float, .dict .unknown]), .null])
def d2b : Ty := .list (.union [.list (.union [.int, .bool]), .list (.union [.float, .dict .unknown, .null])])

theorem hashStrOld_d1 : hashStrOld d1a = hashStrOld d1b := by decide
theorem hashStrOld_d2 : hashStrOld d2a = hashStrOld d2b := by decide
theorem d1_ne : d1a ≠ d1b := by simp [d1a, d1b]
theorem d2_ne : d2a ≠ d2b := by simp [d2a, d2b]
example : hashStrOld d2a = "DList/DUnion/DList/DUnion/<class 'int'>,<class 'bool'>,DList/DUnion/<class 'float'>,DDict/Unknown,NoneType" := by
  decide

/-- the statement of injectivity for the original encoding … -/
def hashStrOld_inj_Statement : Prop := ∀ a b : Ty, a.WFHash → b.WFHash → hashStrOld a = hashStrOld b → a = b

/-- … is false, with well-formed witnesses for both defects -/
theorem hashStrOld_not_inj : ¬ hashStrOld_inj_Statement := fun h =>
  d1_ne (h d1a d1b (by decide) (by decide) hashStrOld_d1)

theorem hashStrOld_not_inj_D2 : ∃ a b : Ty, a.WFHash ∧ b.WFHash ∧ hashStrOld a = hashStrOld b ∧ a ≠ b :=
  ⟨d2a, d2b, by decide, by decide, hashStrOld_d2, d2_ne⟩

/-- the repaired encoding separates both pairs -/
example : hashStr d1a ≠ hashStr d1b := by decide
example : hashStr d2a ≠ hashStr d2b := by decide

/-! ## 3. `DUnion(*ts)` keeps every non-literal member -/

/-- nothing that is not a `StringLiteral` is ever dropped by `DUnion.__init__` except as an exact duplicate
    of a member that is kept: every non-literal element of the flattened argument list is a member of the
    resulting union -/
theorem mkUnion_keeps_all (c : LitCfg) (ts : List Ty) (wf : ∀ t ∈ flattenUnion ts, t.WFHash) :
    ∀ t ∈ flattenUnion ts, ¬ t.isLit → t ∈ mkUnionMembers c ts := by
  intro t ht hl
  have inv := inv_fold (flattenUnion ts) ⟨[], [], true, []⟩ [] (by simpa using wf) inv_init
  exact fold_unique_sub_members c ts t (inv.keep t (by simpa using ht) (by simpa using hl))

/-- non-vacuity, on the D2 shape: both inner lists survive although their old hash strings collide -/
theorem flattenUnion_ex :
    flattenUnion [d2a, .union [d2b, .ser "IntString"], d2a] = [d2a, d2b, .ser "IntString", d2a] := by
  simp [flattenUnion, d2a, d2b]
example : ∀ t ∈ flattenUnion [d2a, .union [d2b, .ser "IntString"], d2a], t.WFHash := by
  rw [flattenUnion_ex]; decide
example : mkUnionMembers ⟨10, 20⟩ [d2a, .union [d2b, .ser "IntString"], d2a] = [d2a, d2b, .ser "IntString"] := by
  unfold mkUnionMembers
  rw [flattenUnion_ex]
  rfl

end J2M.HashInj
