/-
  C13 — "Dict-field options turn objects into mappings, and only those"   (DESIGN §8.13)

  Model: `J2M.detect` / `J2M.convertFields` / `J2M.generate` (generator.py:45-110).
  Regular-expression matching is the oracle `o.reMatch pattern key : Option Bool`
  (`none` = the oracle table has no entry → the model reports `oracleMiss`).
-/
import J2M.Proofs.MergeDetect
import J2M.Proofs.MergeUnion
namespace J2M.C13
open J2M

/-- "some configured pattern matches every key" -/
def RegexHit (cfg : GenCfg) (o : GenOracles) (keys : List String) : Prop :=
  ∃ p ∈ cfg.dictRegex, ∀ k ∈ keys, o.reMatch p k = some true

/-- The decision for a non-empty object detected with flag `cd` (`convert_dict`). -/
def DictLike (cfg : GenCfg) (o : GenOracles) (cd : Bool) (keys : List String) : Prop :=
  cd = false ∨ RegexHit cfg o keys

/-- the oracle answers every (pattern, key) query the decision may make -/
def OracleTotalOn (cfg : GenCfg) (o : GenOracles) (keys : List String) : Prop :=
  ∀ p ∈ cfg.dictRegex, ∀ k ∈ keys, (o.reMatch p k).isSome = true

/-! ## 1. `dict_iff` -/

/-- the empty object is always a mapping of unknown value type -/
theorem dict_empty (cfg : GenCfg) (o : GenOracles) (cd : Bool) :
    detect cfg o cd (.obj []) = .ok (.dict .unknown) := by
  simp [detect, pure, Except.pure]

/--
  **C13.1** For a non-empty object: the detected type is a mapping (`.dict _`) iff the object was
  reached with `convert_dict = False` or some configured pattern matches all its keys;
  in that case the value type is `wrapElems` of the value types detected with `convert_dict = True`;
  otherwise it is a field dict with exactly the object's keys, in order.
-/
theorem dict_iff {cfg : GenCfg} {o : GenOracles} {cd : Bool} {kv : String × Json}
    {kvs : List (String × Json)} {t : Ty}
    (h : detect cfg o cd (.obj (kv :: kvs)) = .ok t) :
    let keys := (kv :: kvs).map (·.1)
    (t.isDict = true ↔ DictLike cfg o cd keys) ∧
    (DictLike cfg o cd keys → ∃ ts, detectVals cfg o (kv :: kvs) = .ok ts ∧
        t = wrapElems cfg.lit .dict ts ∧ ∃ T, t = .dict T) ∧
    (¬ DictLike cfg o cd keys → ∃ fs, convertFields cfg o (kv :: kvs) = .ok fs ∧
        t = .obj fs ∧ Fields.keys fs = keys) := by
  intro keys
  obtain ⟨rx, hrx, hcase⟩ := detect_obj_cons h
  have hiff := anyRegexMatches_ok hrx
  rcases hcase with ⟨hr, hc, fs, hfs, ht⟩ | ⟨hd, ts, hts, ht⟩
  · have hnd : ¬ DictLike cfg o cd keys := by
      rintro (h1 | h1)
      · simp [hc] at h1
      · have := hiff.2 h1; simp [hr] at this
    refine ⟨?_, fun hd => absurd hd hnd, fun _ => ⟨fs, hfs, ht, convertFields_keys hfs⟩⟩
    subst ht
    simp [Ty.isDict, hnd]
  · have hd' : DictLike cfg o cd keys := by
      rcases hd with h1 | h1
      · exact .inr (hiff.1 h1)
      · exact .inl h1
    obtain ⟨T, hT⟩ := wrapElems_cases cfg.lit .dict ts
    refine ⟨?_, fun _ => ⟨ts, hts, ht, T, ht.trans hT⟩, fun hn => absurd hd' hn⟩
    rw [ht, hT]
    simp [Ty.isDict, hd']

/-- under a total oracle the decision never fails by itself: the regex loop returns -/
theorem dict_decision_total {cfg : GenCfg} {o : GenOracles} {keys : List String}
    (ht : OracleTotalOn cfg o keys) : ∃ b, anyRegexMatches o cfg.dictRegex keys = .ok b :=
  anyRegexMatches_total ht

/--
  **C13.1 (connection to `dict_keys_fields`)**: `_convert` detects the value of key `k` with
  `convert_dict = (k not in dict_keys_fields)`; keys and order are preserved.
-/
theorem field_flag {cfg : GenCfg} {o : GenOracles} {kvs : List (String × Json)} {fs : Fields}
    (h : convertFields cfg o kvs = .ok fs) :
    List.Forall₂ (fun kv ft => ft.1 = kv.1 ∧
      detect cfg o (!cfg.dictFields.contains kv.1) kv.2 = .ok ft.2) kvs fs :=
  convertFields_ok h

/-- elements of a list are detected with `convert_dict = True` (so `dictFields` does not apply) -/
theorem list_elems_flag {cfg : GenCfg} {o : GenOracles} {cd : Bool} {x : Json} {xs : List Json} {t : Ty}
    (h : detect cfg o cd (.arr (x :: xs)) = .ok t) :
    ∃ ts, List.Forall₂ (fun x t => detect cfg o true x = .ok t) (x :: xs) ts ∧
      t = wrapElems cfg.lit .list ts := by
  obtain ⟨ts, h1, h2⟩ := detect_arr_cons h
  exact ⟨ts, detectList_ok h1, h2⟩

/-- values of a dict-like object are detected with `convert_dict = True` -/
theorem dict_values_flag {cfg : GenCfg} {o : GenOracles} {kvs : List (String × Json)} {ts : List Ty}
    (h : detectVals cfg o kvs = .ok ts) :
    List.Forall₂ (fun kv t => detect cfg o true kv.2 = .ok t) kvs ts :=
  detectVals_ok h

/--
  **C13.1, as DESIGN states it**: an object that is the direct value of key `k` of a model is a mapping
  iff it is empty, or `k ∈ dictFields`, or some pattern matches all its keys.
-/
theorem field_dict_iff {cfg : GenCfg} {o : GenOracles} {k : String} {kvs : List (String × Json)} {t : Ty}
    (h : detect cfg o (!cfg.dictFields.contains k) (.obj kvs) = .ok t) :
    (t.isDict = true ↔ kvs = [] ∨ k ∈ cfg.dictFields ∨ RegexHit cfg o (kvs.map (·.1))) ∧
    (t.isDict = false → ∃ fs, t = .obj fs ∧ Fields.keys fs = kvs.map (·.1)) := by
  cases kvs with
  | nil =>
    rw [dict_empty, Except.ok.injEq] at h
    subst h; simp [Ty.isDict]
  | cons kv kvs =>
    obtain ⟨h1, _, h3⟩ := dict_iff h
    have e : DictLike cfg o (!cfg.dictFields.contains k) ((kv :: kvs).map (·.1)) ↔
        (k ∈ cfg.dictFields ∨ RegexHit cfg o ((kv :: kvs).map (·.1))) := by
      simp [DictLike]
    refine ⟨?_, ?_⟩
    · rw [h1, e]; simp
    · intro hf
      have : ¬ DictLike cfg o (!cfg.dictFields.contains k) ((kv :: kvs).map (·.1)) := by
        rw [← h1, hf]; simp
      obtain ⟨fs, _, ht, hk⟩ := h3 this
      exact ⟨fs, ht, hk⟩

/-- … while an object that is a list element or a value of a dict-like object ignores `dictFields` -/
theorem nested_dict_iff {cfg : GenCfg} {o : GenOracles} {kvs : List (String × Json)} {t : Ty}
    (h : detect cfg o true (.obj kvs) = .ok t) :
    (t.isDict = true ↔ kvs = [] ∨ RegexHit cfg o (kvs.map (·.1))) := by
  cases kvs with
  | nil =>
    rw [dict_empty, Except.ok.injEq] at h
    subst h; simp [Ty.isDict]
  | cons kv kvs =>
    obtain ⟨h1, _, _⟩ := dict_iff h
    rw [h1]; simp [DictLike]

/-! ### non-vacuity: a concrete configuration exercising every clause -/

def cfgEx : GenCfg :=
  { lit := ⟨10, 50⟩, reg := ⟨[], [], []⟩, dictFields := ["d"], dictRegex := ["^[0-9]+$"] }
/-- a two-entry table standing for `re.compile("^[0-9]+$").match` -/
def oEx : GenOracles :=
  ⟨fun _ _ => some false,
   fun p k => if p == "^[0-9]+$" then some (k == "1" || k == "22") else none,
   StrOracle.default⟩

/-- regex clause: all keys numeric → mapping -/
example : detect cfgEx oEx true (.obj [("1", .int 1), ("22", .int 5)]) = .ok (.dict .int) := by
  simp [detect, detectVals, anyRegexMatches, allKeysMatch, cfgEx, oEx, wrapElems, bind, Except.bind,
    pure, Except.pure, mkUnionMembers, flattenUnion, handleType, hashStr, Ty.isStr]
/-- partially matching key set → model -/
example : detect cfgEx oEx true (.obj [("a", .int 1), ("22", .int 5)]) =
    .ok (.obj [("a", .int), ("22", .int)]) := by
  simp [detect, convertFields, anyRegexMatches, allKeysMatch, cfgEx, oEx, bind, Except.bind,
    pure, Except.pure]
/-- `dictFields` clause applies to the direct value of `"d"`, not to `"d"` inside a list element's … -/
example : convertFields cfgEx oEx [("d", .obj [("x", .int 5)]), ("e", .obj [("x", .int 5)])] =
    .ok [("d", .dict .int), ("e", .obj [("x", .int)])] := by
  simp [detect, convertFields, detectVals, anyRegexMatches, allKeysMatch, cfgEx, oEx, wrapElems,
    bind, Except.bind, pure, Except.pure]
example : OracleTotalOn cfgEx oEx ["1", "22", "a"] := by
  simp [OracleTotalOn, cfgEx, oEx]

/-! ## 2. `toplevel_always_model` -/

/--
  **C13.2** `generate` returns a field dict (a model) whatever the options; its keys are those of the
  merge of the converted samples.
-/
theorem toplevel_always_model {cfg : GenCfg} {o : GenOracles} {samples : List Json} {t : Ty}
    (h : generate cfg o samples = .ok t) : ∃ fs, t = .obj fs := by
  obtain ⟨_, _, fs, _, _, ht, _⟩ := generate_ok h
  exact ⟨fs, ht⟩

theorem toplevel_keys {cfg : GenCfg} {o : GenOracles} {samples : List Json} {t : Ty}
    (h : generate cfg o samples = .ok t) :
    ∃ sets fields fs, samples.mapM (convert cfg o) = .ok sets ∧
      mergeFieldSets cfg.lit (genEnv o) sets = .ok fields ∧
      t = .obj fs ∧ Fields.keys fs = Fields.keys fields :=
  generate_ok h

/-- … even when every key of the top-level object matches a configured pattern and is in `dictFields` -/
example : generate cfgEx oEx [.obj [("1", .int 1), ("22", .int 5)]] =
    .ok (.obj [("1", .int), ("22", .int)]) := by
  simp [generate, convert, convertFields, detect, mergeFieldSets, mergeFieldSets.go, mergeStep, mergeOne,
    Fields.get?, Fields.set, Fields.keys, Fields.has, Ty.isOpt, Ty.fuelFor, optimize, bind, Except.bind,
    pure, Except.pure, cfgEx, oEx]

/-! ## 3. `dict_value_sound` -/

/-- each value's own detected type admits it (an instance of C01's `detect_inh`, taken as hypothesis) -/
def ValuesSound (cfg : GenCfg) (o : GenOracles) (g : ModelLookup) (kvs : List (String × Json)) : Prop :=
  ∀ kv ∈ kvs, ∀ t, detect cfg o true kv.2 = .ok t → Inh o.accepts g t kv.2

/-- hash soundness (DESIGN §8.1-2) on the value types of this object, together with `str` -/
def ValuesHashSound (cfg : GenCfg) (o : GenOracles) (g : ModelLookup) (kvs : List (String × Json)) : Prop :=
  ∀ ts, detectVals cfg o kvs = .ok ts → HashSound o.accepts g (.str :: flattenUnion ts)

theorem forall₂_mem_left {α β} {R : α → β → Prop} {l₁ : List α} {l₂ : List β}
    (h : List.Forall₂ R l₁ l₂) {a : α} (ha : a ∈ l₁) : ∃ b ∈ l₂, R a b := by
  induction h with
  | nil => simp at ha
  | cons hr _ ih =>
    rcases List.mem_cons.1 ha with h | h
    · subst h; exact ⟨_, List.mem_cons_self .., hr⟩
    · obtain ⟨b, hb, hr⟩ := ih h; exact ⟨b, List.mem_cons_of_mem _ hb, hr⟩

/--
  **C13.3** when an object is detected as a mapping `Dict[str, T]`, every one of its values inhabits `T`
  (hence the object inhabits `.dict T`).
-/
theorem dict_value_sound {cfg : GenCfg} {o : GenOracles} {g : ModelLookup} {cd : Bool}
    {kvs : List (String × Json)} {T : Ty}
    (h : detect cfg o cd (.obj kvs) = .ok (.dict T))
    (VS : ValuesSound cfg o g kvs) (HS : ValuesHashSound cfg o g kvs) :
    (∀ kv ∈ kvs, Inh o.accepts g T kv.2) ∧ Inh o.accepts g (.dict T) (.obj kvs) := by
  suffices hh : ∀ kv ∈ kvs, Inh o.accepts g T kv.2 from ⟨hh, .dict hh⟩
  cases kvs with
  | nil => simp
  | cons kv0 kvs =>
    obtain ⟨rx, _, hcase⟩ := detect_obj_cons h
    rcases hcase with ⟨_, _, fs, _, ht⟩ | ⟨_, ts, hts, ht⟩
    · cases ht
    · intro kv hkv
      obtain ⟨t, htm, hdt⟩ := forall₂_mem_left (detectVals_ok hts) hkv
      obtain ⟨T', hw, hi⟩ := wrapElems_inh (c := cfg.lit) (wrap := .dict) (HS ts hts) htm (VS kv hkv t hdt)
      rw [hw] at ht
      cases ht
      exact hi

/-- non-vacuity: `{"1": 1, "22": 2.5}` under the pattern `^[0-9]+$` -/
example : detect cfgEx oEx true (.obj [("1", .int 1), ("22", .float 0)]) =
    .ok (.dict (.union [.int, .float])) := by
  simp [detect, detectVals, anyRegexMatches, allKeysMatch, cfgEx, oEx, wrapElems, bind, Except.bind,
    pure, Except.pure, mkUnionMembers, flattenUnion, handleType, hashStr, Ty.isStr]
example : ValuesSound cfgEx oEx (fun _ => none) [("1", .int 1), ("22", .float 0)] := by
  intro kv hkv t ht
  simp at hkv
  rcases hkv with rfl | rfl <;> simp [detect, pure, Except.pure] at ht <;> subst ht
  · exact .int
  · exact .floatF
example : ValuesHashSound cfgEx oEx (fun _ => none) [("1", .int 1), ("22", .float 0)] := by
  intro ts hts
  simp [detectVals, detect, bind, Except.bind, pure, Except.pure] at hts
  subst hts
  intro a ha b hb he v hi
  simp [flattenUnion] at ha hb
  rcases ha with rfl | rfl | rfl <;> rcases hb with rfl | rfl | rfl <;>
    first | exact hi | (simp [hashStr] at he)

end J2M.C13
