/-
  C08 at the REGISTRY stage — "type simplification reaches a stable normal form" for merged models.
  (repaired `_optimize_union`: the members of a union hidden under an `Optional` member take part in the category
  split — `splitMembersAux` in `J2M/Generator.lean`, commit `6a1879f` of the library.)

  `merge_models` builds the field types of a merged model with `merge_field_sets` from ALREADY simplified member
  fields, applies one `optimize_type` to the merged model and, at the end, one more to every registered model.
  This file proves that these two passes always reach the normal form `nf` of `Sem.lean`, that one pass does not,
  and documents (section 6) that before the repair two passes were not enough either.

  Helper developments: `J2M/Proofs/TwoPass*.lean`.  The two classes:
  * `adm cfg t`  — admissible registry-stage metadata: no inline dict, no tuple, registered pseudo-types, literals as
                   `StringLiteral(...)` builds them, no `Optional` directly inside `Optional`; ANY nesting of unions,
                   `Optional` members, `null` / `Unknown` members.  (This is the class `NFm` of the task: what
                   `merge_field_sets` builds — `mergeFieldSets_NFm`.)
  * `out cfg t`  — "one pass from normal" (`NF1`): unions are flat, without `Optional`/`null` members, with at most one
                   `int`, one `Unknown`, one list, one dict, one literal; what may remain is exactly
                   (i) `int` next to `float`, (ii) ONE `Unknown` member, (iii) several string types side by side
                   (`str` / pseudo-types).  No condition mentions hash strings: `out` is invariant under the pointer
                   retargeting that `_merge` performs between the two passes.
-/
import J2M.Proofs.TwoPassGen
import J2M.Proofs.TwoPassWitnessPipe
namespace J2M.C08M
open J2M J2M.TwoPass

/-! ## 0. the classes, unfolded once -/

/-- `adm`, by constructor -/
example (cfg : GenCfg) (k : String) (t : Ty) (ts : List Ty) (ov : Bool) (vs : List String) (fs : Fields) :
    adm cfg (.ser k) = cfg.reg.types.contains k ∧ adm cfg (.list t) = adm cfg t ∧
    adm cfg (.opt t) = (!t.isOpt && adm cfg t) ∧ adm cfg (.union ts) = admList cfg ts ∧
    adm cfg (.lit ov vs) = C08P.litRawOk cfg.lit ov vs ∧ adm cfg (.tuple ts) = false ∧ adm cfg (.obj fs) = false ∧
    adm cfg .null = true ∧ adm cfg .unknown = true ∧ adm cfg (.ptr k) = true := by
  simp [adm]

/-- the union-level conditions of `out` -/
example (ms : List Ty) : outU ms = true ↔
    ms ≠ [] ∧ (∀ t ∈ ms, t.isUnion = false) ∧ (∀ t ∈ ms, t.isOpt = false) ∧ (∀ t ∈ ms, t.isNull = false) ∧
    (ms.filter Ty.isInt).length ≤ 1 ∧ (ms.filter Ty.isUnknown).length ≤ 1 ∧ (ms.filter Ty.isList).length ≤ 1 ∧
    (ms.filter Ty.isDict).length ≤ 1 ∧ (ms.filter Ty.isLit).length ≤ 1 := by
  rw [outU_iff]
  exact ⟨fun h => ⟨h.ne, h.flat, h.noOpt, h.noNull, h.oneInt, h.oneUnknown, h.oneList, h.oneDict, h.oneLit⟩,
    fun ⟨a, b, c, d, e, f, g, h, i⟩ => ⟨a, b, c, d, e, f, g, h, i⟩⟩

/-- an `out` type is admissible -/
theorem out_adm (cfg : GenCfg) (t : Ty) (h : out cfg t = true) : adm cfg t = true := TwoPass.out_adm cfg t h

/-! ## 1. what `merge_field_sets` builds from simplified fields (`NFm`) -/

/-- **mergeFieldSets_NFm**: if every field type of every incoming field set is `out` (in particular: is what
    `merge_models` finds in the registry — `buildGraph_out`, `mergeModels_nf`), every field type of the result is
    admissible — whatever `==` answers.  The content: a merged field never puts `Optional` directly inside
    `Optional`, although an incoming `Optional[...]` field becomes a MEMBER of the new union. -/
theorem mergeFieldSets_NFm {cfg : GenCfg} {e : EqEnv} {sets : List Fields} {r : Fields}
    (hsets : ∀ m ∈ sets, ∀ kv ∈ m, out cfg kv.2 = true)
    (h : mergeFieldSets cfg.lit e sets = .ok r) : ∀ kv ∈ r, adm cfg kv.2 = true :=
  mergeFieldSets_adm hsets h

open J2M.TwoPass.W in
/-- non-vacuity: `{g: int, f: List[float]}` and `{g: int, f: Optional[Union[bool, List[Optional[Union[int, 'a']]]]]}`
    are `out` field sets; `merge_field_sets` puts the second `f` as an `Optional` MEMBER next to the first
    (`tW = Union[Optional[Union[bool, List[...]]], List[float]]`), which is admissible and not `out` -/
example (so : StrOracle) :
    (∀ m ∈ [[("g", Ty.int), ("f", fB)], [("g", Ty.int), ("f", fA)]], ∀ kv ∈ m, out cfgW kv.2 = true) ∧
    mergeFieldSets cfgW.lit (g0W.eqEnv so) [[("g", .int), ("f", fB)], [("g", .int), ("f", fA)]] =
      .ok [("g", .int), ("f", tW)] ∧
    adm cfgW tW = true ∧ out cfgW tW = false :=
  ⟨by decide, mergeFieldsW so, by decide, by decide⟩

/-! ## 2. ONE pass: from `adm` to `out` (`NF1`) -/

/-- **optimize_once_NFm_shape**: whatever the fuel and the comparison environment, if `optimize_type` returns on
    admissible metadata, the result is `out`: normal except for the three residues listed at the top -/
theorem optimize_once_NFm_shape (cfg : GenCfg) (e : EqEnv) (fuel : Nat) (t t' : Ty) (ht : adm cfg t = true)
    (h : optimize cfg e fuel t = .ok t') : out cfg t' = true :=
  optimize_adm_out cfg e fuel t t' ht h

open J2M.TwoPass.W in
/-- the three residues occur (each is the result of ONE pass on an admissible merge result, is `out`, and is not a
    normal form):
    * `List[Optional[Union[int, Any]]]` from `Union[List[int], List[Any], List[Optional[Any]]]`
      (`types.remove(Unknown)` removes one of two `Unknown`s);
    * `Optional[Union[float, int, 'a']]` from `Union[float, Optional[Union[int, 'a']], int]`
      (`other_types.remove(int)` removes one of two `int`s);
    * `Optional[Union[K, str]]` from `Union['a', Optional[Union[K, 'b']]]` with a literal limit of one value
      (the folded literal overflows in the final `DUnion`, after the string types were resolved). -/
example (e : EqEnv) :
    (adm cfgW tU = true ∧ optimize cfgW e 9 tU = .ok tU1 ∧ out cfgW tU1 = true ∧ nf tU1 = false) ∧
    (adm cfgW tI = true ∧ optimize cfgW e 9 tI = .ok tI1 ∧ out cfgW tI1 = true ∧ nf tI1 = false) ∧
    (adm cfgS tS = true ∧ optimize cfgS e 9 tS = .ok tS1 ∧ out cfgS tS1 = true ∧ nf tS1 = false) :=
  ⟨⟨by decide, tU_pass1 e 0, by decide, by decide⟩, ⟨by decide, tI_pass1 e 0, by decide, by decide⟩,
    ⟨by decide, tS_pass1 e 0, by decide, by decide⟩⟩

/-- the statement "ONE pass after `_merge` reaches the normal form" -/
def optimize_once_nf_Statement : Prop :=
  ∀ (cfg : GenCfg) (e : EqEnv) (fuel : Nat) (t t' : Ty), adm cfg t = true → optimize cfg e fuel t = .ok t' →
    nf t' = true

/-- … is FALSE (model and Python code): the final pass of `merge_models` is needed -/
theorem optimize_once_nf_false : ¬ optimize_once_nf_Statement := by
  intro H
  have := H W.cfgW W.eW 9 W.tU W.tU1 (by decide) (W.tU_pass1 W.eW 0)
  rw [W.tU1_not_nf] at this
  cases this

/-! ## 3. TWO passes reach the normal form -/

/-- **one pass from `out` reaches the normal form** (and stays `out`) -/
theorem optimize_out_nf (cfg : GenCfg) (e : EqEnv) (fuel : Nat) (t t' : Ty) (ht : out cfg t = true)
    (h : optimize cfg e fuel t = .ok t') : nf t' = true ∧ out cfg t' = true :=
  ⟨TwoPass.optimize_out_nf cfg e fuel t t' ht h, optimize_adm_out cfg e fuel t t' (TwoPass.out_adm cfg t ht) h⟩

/-- **optimize_twice_nf**: for every admissible `t` — in particular every field type `_merge` builds — the result
    of two `optimize_type` passes is in normal form.  Any fuel, any comparison environments (they may differ:
    `merge_models` runs the second pass in a registry that has changed), no hypothesis on the registry of
    pseudo-types; "if the passes return". -/
theorem optimize_twice_nf (cfg : GenCfg) (e e' : EqEnv) (fuel fuel' : Nat) (t t1 t2 : Ty) (ht : adm cfg t = true)
    (h1 : optimize cfg e fuel t = .ok t1) (h2 : optimize cfg e' fuel' t1 = .ok t2) : nf t2 = true :=
  (optimize_out_nf cfg e' fuel' t1 t2 (optimize_adm_out cfg e fuel t t1 ht h1) h2).1

/-- **optimize_merged_nf**: the same, stated for a field of `merge_field_sets` of simplified field sets -/
theorem optimize_merged_nf {cfg : GenCfg} {e0 e e' : EqEnv} {fuel fuel' : Nat} {sets : List Fields} {r : Fields}
    (hsets : ∀ m ∈ sets, ∀ kv ∈ m, out cfg kv.2 = true) (hm : mergeFieldSets cfg.lit e0 sets = .ok r)
    {kv : String × Ty} (hkv : kv ∈ r) {t1 t2 : Ty}
    (h1 : optimize cfg e fuel kv.2 = .ok t1) (h2 : optimize cfg e' fuel' t1 = .ok t2) : nf t2 = true :=
  optimize_twice_nf cfg e e' fuel fuel' kv.2 t1 t2 (mergeFieldSets_NFm hsets hm kv hkv) h1 h2

/-- **every further pass keeps the normal form**: from the second pass on, every result is in normal form (and
    `out`, so the statement iterates).  NOT proved here: that the third pass returns the SAME term
    (`optimize_thrice_idem`) — that needs the canonical normal form `nfc` of `C08.optimize_idem` for the result of
    the second pass (member order, sorted literal sets), which `nf` does not record. -/
theorem optimize_further_nf (cfg : GenCfg) (e e' e'' : EqEnv) (f f' f'' : Nat) (t t1 t2 t3 : Ty)
    (ht : adm cfg t = true) (h1 : optimize cfg e f t = .ok t1) (h2 : optimize cfg e' f' t1 = .ok t2)
    (h3 : optimize cfg e'' f'' t2 = .ok t3) : nf t3 = true ∧ out cfg t3 = true :=
  optimize_out_nf cfg e'' f'' t2 t3
    (optimize_out_nf cfg e' f' t1 t2 (optimize_adm_out cfg e f t t1 ht h1) h2).2 h3

/-- **a stable type is a normal form**: an admissible type that one `optimize_type` pass returns unchanged is in
    normal form (so "repeat until nothing changes" can only stop at a normal form).  The converse direction is
    `C08.optimize_idem` (canonical normal forms are fixed points). -/
theorem optimize_fixed_nf (cfg : GenCfg) (e : EqEnv) (fuel : Nat) (t : Ty) (ht : adm cfg t = true)
    (h : optimize cfg e fuel t = .ok t) : nf t = true :=
  (optimize_out_nf cfg e fuel t t (optimize_adm_out cfg e fuel t t ht h) h).1

open J2M.TwoPass.W in
/-- non-vacuity: the merged field of section 4 is a fixed point -/
example (e : EqEnv) : adm cfgW tW3 = true ∧ optimize cfgW e 16 tW3 = .ok tW3 := ⟨by decide, fix_tW3 e 0⟩

open J2M.TwoPass.W in
/-- non-vacuity of `optimize_twice_nf`, on the three residue inputs: the second pass repairs them -/
example (e : EqEnv) :
    (optimize cfgW e 9 tU1 = .ok tU2 ∧ nf tU2 = true) ∧ (optimize cfgW e 9 tI1 = .ok tI2 ∧ nf tI2 = true) ∧
    (optimize cfgS e 9 tS1 = .ok tS2 ∧ nf tS2 = true) :=
  ⟨⟨tU_pass2 e 0, by decide⟩, ⟨tI_pass2 e 0, by decide⟩, ⟨tS_pass2 e 0, by decide⟩⟩

/-! ## 4. the pipeline -/

/-- every field of every registered model is `out` -/
abbrev AllOut := TwoPass.AllOut

/-- `AllOut`, as a computation -/
theorem allOut_iff (cfg : GenCfg) (g : Graph) :
    AllOut cfg g ↔ g.models.all (fun m => m.fields.all (fun kv => out cfg kv.2)) = true := by
  simp [TwoPass.AllOut, List.all_eq_true]

/-- **buildGraph_out**: after `generate` + `process_meta_data` of every named sample list, every field of every
    registered model is `out` — all inputs, options, oracles (no hypothesis) -/
theorem buildGraph_out {cfg : GenCfg} {o : GenOracles} {inputs : List (String × List Json)} {g : Graph}
    (h : buildGraph cfg o inputs = .ok g) : AllOut cfg g :=
  buildGraph_allOut h

/-- **mergeModels_nf**: if every field of every registered model is `out`, then after `merge_models` (any
    comparators, any string oracle) every field of every registered model is in normal form — and `out`, so the
    statement holds again for a further `merge_models` -/
theorem mergeModels_nf {cfg : GenCfg} {so : StrOracle} {cmps : List Cmp} {g g' : Graph}
    {repl : List (String × List String)} (hg : AllOut cfg g)
    (h : mergeModels cfg so cmps g = .ok (g', repl)) :
    (∀ m ∈ g'.models, ∀ kv ∈ m.fields, nf kv.2 = true) ∧ AllOut cfg g' :=
  mergeModels_out_nf hg h

/-- **registry_nf (C08 through the registry)**: for all inputs, options, oracles and comparators — after
    `generate` + `process_meta_data` of every named sample list and `merge_models`, every field of every
    registered model is in normal form. -/
theorem registry_nf {cfg : GenCfg} {o : GenOracles} {cmps : List Cmp} {inputs : List (String × List Json)}
    {g0 g1 : Graph} {repl : List (String × List String)}
    (h0 : buildGraph cfg o inputs = .ok g0) (h1 : mergeModels cfg o.str cmps g0 = .ok (g1, repl)) :
    ∀ m ∈ g1.models, ∀ kv ∈ m.fields, nf kv.2 = true :=
  (mergeModels_nf (buildGraph_out h0) h1).1

open J2M.TwoPass.W in
/-- non-vacuity, on the document of the defect report
    `{"p": {"g": 1, "f": [1.5]}, "q": [{"g": 1, "f": [1, "a", null]}, {"g": 1, "f": true}, {"g": 1}]}`
    with the default merge policy of the CLI: `buildGraph` registers `1B = {g, f: List[float]}` and
    `1C = {g, f: Optional[Union[bool, List[Optional[Union[int, 'a']]]]]}`, `merge_models` merges them into
    `1D = {g: int, f: Optional[Union[bool, List[Optional[Union[float, 'a']]]]]}` — a normal form
    (before the repair: `... List[Optional[Union[int, float, 'a']]]`, section 6) -/
example : buildGraph cfgW oW [("Root", [sW])] = .ok g0W ∧
    mergeModels cfgW oW.str cmpsW g0W = .ok (g2W, [("1D", ["1B", "1C"])]) ∧
    (∀ m ∈ g2W.models, ∀ kv ∈ m.fields, nf kv.2 = true) ∧
    ({ idx := "1D", fields := [("g", .int), ("f", tW3)] } : Model) ∈ g2W.models :=
  ⟨buildW, mergeW oW.str, registry_nf buildW (mergeW oW.str), by simp [g2W]⟩

/-! ## 5. both passes are needed -/

open J2M.TwoPass.W in
/-- **mergeModels_final_pass_needed**: on the registry of
    `[{"p": {"x": [null]}, "q": {"x": []}, "r": {"x": [1]}}, {"p": {"x": []}, "q": {"x": []}, "r": {"x": [1]}}]`
    (`g0U`; it is `C02RH.ExP.g0P`, the `buildGraph` of these samples) with the default merge policy, `merge_models`
    WITHOUT its final pass (`mergeModelsNoFinal`: the same code up to and including the `optimize_type` of every
    merged model) leaves `x : List[Optional[Union[int, Any]]]`, which is not a normal form; the final pass makes it
    `List[Optional[int]]`. -/
theorem mergeModels_final_pass_needed (so : StrOracle) :
    AllOut cfgW g0U ∧
    mergeModelsNoFinal cfgW so cmpsW g0U = .ok (gU tU1, [("1E", ["1B", "1C", "1D"])]) ∧
    (∃ m ∈ (gU tU1).models, ∃ kv ∈ m.fields, nf kv.2 = false) ∧
    mergeModels cfgW so cmpsW g0U = .ok (gU tU2, [("1E", ["1B", "1C", "1D"])]) ∧
    (∀ m ∈ (gU tU2).models, ∀ kv ∈ m.fields, nf kv.2 = true) := by
  have h0 : AllOut cfgW g0U := (allOut_iff _ _).mpr (by decide)
  exact ⟨h0, noFinalU so, ⟨_, List.mem_cons_of_mem _ (List.mem_cons_self ..), ("x", tU1), by simp, tU1_not_nf⟩,
    mergeU so, (mergeModels_nf h0 (mergeU so)).1⟩

/-! ## 6. history: before the repair two passes were NOT enough

`W.Old.optimize` is `optimize_type` over the category split as it was (`SplitW.splitFold`: a union hidden under an
`Optional` member is one opaque member of the "other" category). -/

open J2M.TwoPass.W in
/-- the merged field `f` of the document above, `Union[Optional[Union[bool, List[Optional[Union[int,'a']]]]],
    List[float]]`: the first old pass only flattens (two `List` members side by side), the second merges the two
    lists but gives the merged element union ONE inner pass (`int`/`float` still hidden under the `Optional`
    member), the third repairs.  `merge_models` applies two: the library emitted
    `f: Optional[Union[bool, List[Optional[Union[int, float, Literal["a"]]]]]]` (confirmed on the Python code and
    with the CLI).  With the repaired split ONE pass normalises this input (`W.new_pass1`). -/
theorem old_two_passes_not_enough (e : EqEnv) :
    Old.optimize cfgW e 16 tW = .ok tW1 ∧ Old.optimize cfgW e 16 tW1 = .ok tW2 ∧ nf tW2 = false ∧
    Old.optimize cfgW e 16 tW2 = .ok tW3 ∧ nf tW3 = true ∧ optimize cfgW e 16 tW = .ok tW3 :=
  ⟨old_pass1 e 0, old_pass2 e 0, tW2_not_nf, old_pass3 e 0, tW3_nf, new_pass1 e 0⟩

end J2M.C08M

#print axioms J2M.C08M.out_adm
#print axioms J2M.C08M.mergeFieldSets_NFm
#print axioms J2M.C08M.optimize_once_NFm_shape
#print axioms J2M.C08M.optimize_once_nf_false
#print axioms J2M.C08M.optimize_out_nf
#print axioms J2M.C08M.optimize_twice_nf
#print axioms J2M.C08M.optimize_merged_nf
#print axioms J2M.C08M.optimize_further_nf
#print axioms J2M.C08M.optimize_fixed_nf
#print axioms J2M.C08M.buildGraph_out
#print axioms J2M.C08M.mergeModels_nf
#print axioms J2M.C08M.registry_nf
#print axioms J2M.C08M.mergeModels_final_pass_needed
#print axioms J2M.C08M.old_two_passes_not_enough
