/-
  C03 (references part) — "every reference resolves", flat layout   (DESIGN §8.3, theorem 3 `refs_resolve`).

  Vocabulary
  * `Reg.WF g` (`J2M/Proofs/Registry.lean`): registry indices pairwise distinct and handed out by the graph's counter,
    no dangling pointer in any field dict or pointer record.
  * `Ann`, `tyAnn c e t` (`J2M/Proofs/Render.lean`, `Props/C04.lean`): the annotation term a field type denotes;
    `typingCode` prints exactly it (`C04.typing_denotes` / `C04.typing_total`).
  * `annRefs a` (`J2M/Proofs/RSoundRefs.lean`): the texts of the quoted forward references of `a`, left to right.
  * `RefEnv.name? ⟨names, inj⟩ i`: the class name recorded for model `i` — `(names.lookup i).join`.
  * `typable c t`: no inline field dict, no empty `Union`/`Tuple`, pseudo-types known to the table of actual types
    where the framework writes actual types.
-/
import J2M.Proofs.RSoundRefs
import J2M.Proofs.Render2Layouts
import J2M.Props.C12R
namespace J2M.C03S
open J2M J2M.Rend J2M.Reg J2M.RSound

/-! ## 0. `generate_names` gives every model a name and leaves the rest of the registry alone -/

/-- **generateNames_named**: after `generate_names` every registered model has a name -/
theorem generateNames_named {no : NameOracles} {g g' : Graph} (h : generateNames no g = .ok g') :
    ∀ m ∈ g'.models, m.name.isSome = true := by
  intro m' hm'
  obtain ⟨m, _, r⟩ := forall₂_mem_right (generateNames_spec h).1 m' hm'
  exact r.2.2

/-- … same models (indices and field dicts, in registry order), same pointer records, same counter -/
theorem generateNames_same {no : NameOracles} {g g' : Graph} (h : generateNames no g = .ok g') :
    g'.models.map (fun m => (m.idx, m.fields)) = g.models.map (fun m => (m.idx, m.fields)) ∧
    g'.ptrs = g.ptrs ∧ g'.counter = g.counter ∧ g'.look = g.look := by
  obtain ⟨hs, hp, hc⟩ := generateNames_spec h
  exact ⟨forall₂_map_eq (fun _ _ r => by rw [r.1, r.2.1]) hs, hp, hc, generateNames_look h⟩

/-- … so well-formedness is preserved -/
theorem generateNames_WF {no : NameOracles} {g g' : Graph} (h : generateNames no g = .ok g') (wf : WF g) : WF g' :=
  RSound.generateNames_WF h wf

/-! ## 1. `refs_resolve_flat` -/

/-- in every layout: a quoted reference of the annotation of `t` is the reference text of a model that `t` points
    to and that has a name -/
theorem refs_from_ptrs (c : RenderCfg) (e : RefEnv) (t : Ty) (a : Ann) (h : tyAnn c e t = some a) :
    ∀ r ∈ annRefs a, ∃ i ∈ ptrsOf t, ∃ n, e.name? i = some n ∧ r = ptrRef e i n :=
  annRefs_of_tyAnn c e t a h

/-- **refs_resolve_flat**: in a well-formed registry, for the flat layout (no path injection) and ANY table of
    names: every quoted reference `'r'` in the annotation of a field of a registered model is the recorded name of
    a REGISTERED model (namely of a model the field type points to). -/
theorem refs_resolve_flat {g : Graph} (wf : WF g) (c : RenderCfg) (names : NameMap)
    {m : Model} (hm : m ∈ g.models) {f : String × Ty} (hf : f ∈ m.fields)
    {a : Ann} (ha : tyAnn c ⟨names, []⟩ f.2 = some a) :
    ∀ r ∈ annRefs a, ∃ m' ∈ g.models, m'.idx ∈ ptrsOf f.2 ∧ names.lookup m'.idx = some (some r) := by
  intro r hr
  obtain ⟨i, hi, n, hn, e'⟩ := annRefs_of_tyAnn c ⟨names, []⟩ f.2 a ha r hr
  rw [ptrRef_flat] at e'
  subst e'
  have hreg : i ∈ idxs g := wf.fields m hm i (mem_ptrsOfFields.2 ⟨f, hf, hi⟩)
  obtain ⟨m', hm', rfl⟩ := List.mem_map.1 hreg
  refine ⟨m', hm', hi, ?_⟩
  rw [name?_eq_lookup] at hn
  cases hl : List.lookup m'.idx names with
  | none => simp [hl] at hn
  | some v => simp only [hl, Option.join_some] at hn; rw [hn]

/-- every layout (any path injection): in a well-formed registry every quoted reference is the reference text
    `ptrRef e i n` (`'Name'` or `'Root.Name'`) of a REGISTERED, named model the field type points to -/
theorem refs_resolve_layout {g : Graph} (wf : WF g) (c : RenderCfg) (e : RefEnv)
    {m : Model} (hm : m ∈ g.models) {f : String × Ty} (hf : f ∈ m.fields)
    {a : Ann} (ha : tyAnn c e f.2 = some a) :
    ∀ r ∈ annRefs a, ∃ m' ∈ g.models, m'.idx ∈ ptrsOf f.2 ∧ ∃ n, e.name? m'.idx = some n ∧ r = ptrRef e m'.idx n := by
  intro r hr
  obtain ⟨i, hi, n, hn, e'⟩ := annRefs_of_tyAnn c e f.2 a ha r hr
  have hreg : i ∈ idxs g := wf.fields m hm i (mem_ptrsOfFields.2 ⟨f, hf, hi⟩)
  obtain ⟨m', hm', rfl⟩ := List.mem_map.1 hreg
  exact ⟨m', hm', hi, n, hn, e'⟩

/-- the statement for the text `typingCode` emits: it is the print of a term all of whose references resolve -/
theorem refs_resolve_flat_code {g : Graph} (wf : WF g) (c : RenderCfg) (names : NameMap)
    {m : Model} (hm : m ∈ g.models) {f : String × Ty} (hf : f ∈ m.fields)
    {imps : List Imp} {s : String} (h : typingCode c ⟨names, []⟩ f.2 = .ok (imps, s)) :
    ∃ a, tyAnn c ⟨names, []⟩ f.2 = some a ∧ s = a.print ∧
      ∀ r ∈ annRefs a, ∃ m' ∈ g.models, names.lookup m'.idx = some (some r) := by
  obtain ⟨a, ha, hs, _⟩ := typingCode_ok c ⟨names, []⟩ f.2 imps s h
  refine ⟨a, ha, hs, fun r hr => ?_⟩
  obtain ⟨m', hm', _, hl⟩ := refs_resolve_flat wf c names hm hf ha r hr
  exact ⟨m', hm', hl⟩

/-! ## 2. the flat module defines the class of every reference

  `Rend2.generateCode_text` (Proofs/Render2Layouts.lean): the text of a successful flat rendering is
  `moduleText pre hs` where `hs` are the class texts `classHead c o ⟨F, []⟩ (modelAt g F i)` for `i` in the flat order,
  all computed with the FINAL names `F`; the class statement of `modelAt g F i` reads `class <F's name of i>…:`
  (`C12R.classParts_explicit`).  `C12.flat_once`: the flat order lists every registered model exactly once. -/

/-- **refs_resolve_flat_module**: if the flat rendering of a well-formed registry succeeds with final names `F`, the
    module consists of one class per registered model (each exactly once), and every quoted reference in the
    annotation of any field of any class is the name of one of these classes — the class of a model the field type
    points to. -/
theorem refs_resolve_flat_module {c : RenderCfg} {o : RenderOracles} {g : Graph} {l : List String}
    {pre : Option String} {text : String} {F : NameMap} (wf : WF g)
    (hl : composeFlat g = .ok l)
    (h : generateCode c o g (l.map (fun i => Node.mk i [])) [] pre = .ok (text, F)) :
    (l.Nodup ∧ ∀ i, i ∈ l ↔ ∃ m ∈ g.models, m.idx = i) ∧
    (∃ hs, l.mapM (fun i => Rend2.classHead c o ⟨F, []⟩ (Rend2.modelAt g F i)) = .ok hs ∧
      text = Rend2.moduleText pre hs) ∧
    ∀ m ∈ g.models, ∀ f ∈ m.fields, ∀ a, tyAnn c ⟨F, []⟩ f.2 = some a → ∀ r ∈ annRefs a,
      ∃ j ∈ l, j ∈ ptrsOf f.2 ∧ (Rend2.modelAt g F j).name = some r := by
  have honce := C12.flat_once hl wf.nodup
  refine ⟨honce, ?_, ?_⟩
  · obtain ⟨rs, h1, h2⟩ := Rend2.generateCode_text h (Rend2.readyL_flat _ _ _)
    rw [Rend2.nodesText_flat] at h1
    exact ⟨rs, h1, h2⟩
  · intro m hm f hf a ha r hr
    obtain ⟨m', hm', hp, hlk⟩ := refs_resolve_flat wf c F hm hf ha r hr
    refine ⟨m'.idx, (honce.2 _).2 ⟨m', hm', rfl⟩, hp, ?_⟩
    show Rend2.lookup F m'.idx = some r
    rw [← Rend2.name?_eq F [] m'.idx, name?_eq_lookup]
    simp [hlk]

/-! ## 3. `typingCode` does not raise on a well-formed, named registry -/

/-- **typing_ok_iff** (exact condition, every layout): the annotation exists — `metadata_to_typing` returns — iff the
    type is `typable` and every model it points to has a name -/
theorem typing_ok_iff (c : RenderCfg) (e : RefEnv) (t : Ty) :
    (∃ imps s, typingCode c e t = .ok (imps, s)) ↔
      typable c t = true ∧ ∀ i ∈ ptrsOf t, (e.name? i).isSome = true := by
  rw [← tyAnn_isSome_iff]
  constructor
  · rintro ⟨imps, s, h⟩
    obtain ⟨a, ha, _⟩ := typingCode_ok c e t imps s h
    simp [ha]
  · intro h
    obtain ⟨a, ha⟩ := Option.isSome_iff_exists.1 h
    exact ⟨_, _, typingCode_complete c e t a ha⟩

/-- every registered model has a name in the table -/
def NamesPresent (g : Graph) (e : RefEnv) : Prop := ∀ m ∈ g.models, (e.name? m.idx).isSome = true

/-- **typingCode_ok_of_WF**: in a well-formed registry all of whose models have a name in the table, `typingCode`
    returns for every `typable` field type of a registered model (every layout) -/
theorem typingCode_ok_of_WF {g : Graph} (wf : WF g) {c : RenderCfg} {e : RefEnv} (hn : NamesPresent g e)
    {m : Model} (hm : m ∈ g.models) {f : String × Ty} (hf : f ∈ m.fields) (ht : typable c f.2 = true) :
    ∃ a, tyAnn c e f.2 = some a ∧ typingCode c e f.2 = .ok (a.needs c.literalModule, a.print) := by
  have : (tyAnn c e f.2).isSome = true := by
    rw [tyAnn_isSome_iff]
    refine ⟨ht, fun i hi => ?_⟩
    have hreg : i ∈ idxs g := wf.fields m hm i (mem_ptrsOfFields.2 ⟨f, hf, hi⟩)
    obtain ⟨m', hm', rfl⟩ := List.mem_map.1 hreg
    exact hn m' hm'
  obtain ⟨a, ha⟩ := Option.isSome_iff_exists.1 this
  exact ⟨a, ha, typingCode_complete c e f.2 a ha⟩

/-- the initial name table of `generate_code` after `generate_names`: every model is present -/
theorem namesPresent_initial {no : NameOracles} {g g' : Graph} (h : generateNames no g = .ok g') (wf : WF g)
    (inj : List (String × String)) :
    NamesPresent g' ⟨g'.models.map (fun m => (m.idx, m.name)), inj⟩ := by
  have wf' := generateNames_WF h wf
  intro m hm
  have hnamed := generateNames_named h m hm
  show (((List.find? (fun p : String × Option String => p.1 == m.idx)
    (g'.models.map (fun m => (m.idx, m.name)))).map (·.2)).join).isSome = true
  rw [List.find?_map]
  have := list_find?_of_mem wf'.nodup hm
  simp only [Function.comp_def]
  rw [this]
  simpa using hnamed

/-- the only other ways to raise (without them the condition is not necessary only for unreferenced material):
    an inline field dict, an empty union, a pointer to a model without a name -/
example (c : RenderCfg) (e : RefEnv) :
    typingCode c e (.obj []) = .error .valueError ∧ typingCode c e (.union []) = .error .valueError ∧
    typingCode c ⟨[("1A", none)], []⟩ (.ptr "1A") = .error .valueError := ⟨rfl, rfl, rfl⟩

/-! ## non-vacuity -/

def cfgEx : RenderCfg where
  fw := .pydantic
  maxLiterals := 10
  postInit := false
  convertUnicode := true
  withMeta := false
  decoKwargs := []
  literalModule := "typing"
  blacklist := []
  serInfo := [("IsoDateString", "date", "datetime")]
  metadataFieldName := "J2M_ORIGINAL_FIELD"

/-- the registry of `Props/C12.lean` (shared model, recursive reference), with names -/
def gEx : Graph where
  models := [{ idx := "1A", fields := [("b", .ptr "1B"), ("c", .list (.ptr "1C"))], name := some "Root" },
             { idx := "1B", fields := [("c", .ptr "1C"), ("d", .ser "IsoDateString")], name := some "B" },
             { idx := "1C", fields := [("self", .opt (.ptr "1C"))], name := some "C" }]
  ptrs := [⟨"1A", none, none⟩, ⟨"1B", some "1A", some "b"⟩, ⟨"1C", some "1A", some "c"⟩,
           ⟨"1C", some "1B", some "c"⟩, ⟨"1C", some "1C", some "self"⟩]
  counter := 3

def namesEx : NameMap := gEx.models.map (fun m => (m.idx, m.name))

theorem gEx_WF : WF gEx := by
  refine ⟨by decide, ?_, ?_, ?_⟩
  · intro m hm
    simp only [gEx, List.mem_cons, List.mem_nil_iff, or_false] at hm
    rcases hm with rfl | rfl | rfl
    · exact ⟨0, by simp [gEx], by decide +kernel⟩
    · exact ⟨1, by simp [gEx], by decide +kernel⟩
    · exact ⟨2, by simp [gEx], by decide +kernel⟩
  · intro m hm i hi
    simp only [gEx, List.mem_cons, List.mem_nil_iff, or_false] at hm
    rcases hm with rfl | rfl | rfl <;> simp [ptrsOfFields, ptrsOf] at hi <;> simp [idxs, gEx, hi]
  · intro p hp
    simp only [gEx, List.mem_cons, List.mem_nil_iff, or_false] at hp
    rcases hp with rfl | rfl | rfl | rfl | rfl <;> simp [idxs, gEx]

example : NamesPresent gEx ⟨namesEx, []⟩ := by
  intro m hm
  simp only [gEx, List.mem_cons, List.mem_nil_iff, or_false] at hm
  rcases hm with rfl | rfl | rfl <;> rfl

example : tyAnn cfgEx ⟨namesEx, []⟩ (.list (.ptr "1C")) = some (.list (.fwd "C")) ∧
    annRefs (Ann.list (.fwd "C")) = ["C"] ∧ namesEx.lookup "1C" = some (some "C") := ⟨rfl, rfl, by decide⟩

example : typable cfgEx (.union [.ser "IsoDateString", .list (.ptr "1C")]) = true ∧
    typable cfgEx (.ser "Unheard") = false ∧ typable { cfgEx with fw := .attrs } (.ser "Unheard") = true := by
  decide

/-- all hypotheses of `refs_resolve_flat_module` hold for the chain-shaped registry of `Props/C12R.lean`, whose class
    names `class`, `List` are changed to `class_`, `List_` while rendering: the references follow -/
theorem exT_WF : WF C12R.exT := by
  refine ⟨by decide, ?_, ?_, ?_⟩
  · intro m hm
    simp only [C12R.exT, List.mem_cons, List.mem_nil_iff, or_false] at hm
    rcases hm with rfl | rfl | rfl
    · exact ⟨0, by simp [C12R.exT], by decide +kernel⟩
    · exact ⟨1, by simp [C12R.exT], by decide +kernel⟩
    · exact ⟨2, by simp [C12R.exT], by decide +kernel⟩
  · intro m hm i hi
    simp only [C12R.exT, List.mem_cons, List.mem_nil_iff, or_false] at hm
    rcases hm with rfl | rfl | rfl <;> simp [ptrsOfFields, ptrsOf] at hi <;> simp [idxs, C12R.exT, hi]
  · intro p hp
    simp only [C12R.exT, List.mem_cons, List.mem_nil_iff, or_false] at hp
    rcases hp with rfl | rfl | rfl <;> simp [idxs, C12R.exT]

example := refs_resolve_flat_module exT_WF C12R.exT_flat C12R.exT_text_flat

example : tyAnn (Rend2.exCfg .pydantic) ⟨C12R.exNames, []⟩ (.list (.ptr "1C")) = some (.list (.fwd "C")) ∧
    tyAnn (Rend2.exCfg .pydantic) ⟨C12R.exNames, []⟩ (.ptr "1B") = some (.fwd "List_") ∧
    (Rend2.modelAt C12R.exT C12R.exNames "1B").name = some "List_" := ⟨rfl, rfl, rfl⟩

/-- `generate_names` on a registry with an unnamed child model (stand-in oracles: `singularize ∘ underscore` and
    `camelize` are the identity): the child is named after the field that refers to it -/
def g0Ex : Graph where
  models := [{ idx := "1A", fields := [("item", .ptr "1B")], name := some "Root", nameGen := some false },
             { idx := "1B", fields := [("x", .int)] }]
  ptrs := [⟨"1A", none, none⟩, ⟨"1B", some "1A", some "item"⟩]
  counter := 2

example : (generateNames ⟨some, some⟩ g0Ex).toOption.map (fun g => g.models.map (fun m => (m.idx, m.name))) =
    some [("1A", some "Root"), ("1B", some "item")] := by decide +kernel

example : ∃ g', generateNames ⟨some, some⟩ g0Ex = .ok g' ∧ ∀ m ∈ g'.models, m.name.isSome = true := by
  have h : (generateNames ⟨some, some⟩ g0Ex).toOption.isSome = true := by decide +kernel
  cases hg : generateNames ⟨some, some⟩ g0Ex with
  | error e => rw [hg] at h; cases h
  | ok g' => exact ⟨g', rfl, generateNames_named hg⟩

end J2M.C03S

#print axioms J2M.C03S.generateNames_named
#print axioms J2M.C03S.generateNames_same
#print axioms J2M.C03S.generateNames_WF
#print axioms J2M.C03S.refs_from_ptrs
#print axioms J2M.C03S.refs_resolve_flat
#print axioms J2M.C03S.refs_resolve_layout
#print axioms J2M.C03S.refs_resolve_flat_code
#print axioms J2M.C03S.refs_resolve_flat_module
#print axioms J2M.C03S.typing_ok_iff
#print axioms J2M.C03S.typingCode_ok_of_WF
#print axioms J2M.C03S.namesPresent_initial
