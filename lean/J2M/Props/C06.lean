/-
  Property C06 — "Output is a deterministic function of inputs and options."

  This file: order-independence of the set-based naming/layout steps.  Python iterates over `set`s in
  `distinct_words`, `ModelMeta.generate_name`, `compile_imports`, `extract_root` and for the `parents` sets of
  `compose_models[_flat]`; the model receives the elements as a list in an arbitrary order.  The theorems below
  show that the results do not depend on that order.
  Helper development: `J2M/Proofs/Names.lean`, `J2M/Proofs/Layout.lean`.
-/
import J2M.Proofs.Names
import J2M.Proofs.Layout
import J2M.Proofs.LayoutRoot
import J2M.Render
namespace J2M.C06
open J2M.NamesP J2M.LayoutP

/-! ### 2. sorting -/

/-- `Sorted l`: non-decreasing in code point order (Python `sorted` on `str`). -/
abbrev Sorted (l : List String) : Prop := l.Pairwise (· ≤ ·)

/-- `sortStrings` returns a sorted permutation of its input. -/
theorem sortStrings_sorted_perm (xs : List String) : Sorted (sortStrings xs) ∧ (sortStrings xs).Perm xs :=
  ⟨NamesP.sortStrings_sorted xs, sortStrings_perm_self xs⟩

/-- **sortStrings_perm**: the sorted list does not depend on the order of the input. -/
theorem sortStrings_perm {a b : List String} (h : a.Perm b) : sortStrings a = sortStrings b :=
  NamesP.sortStrings_perm h

/-- `sortUniq` returns a strictly increasing list (hence duplicate-free) with the same elements. -/
theorem sortUniq_strict_mem (xs : List String) :
    (sortUniq xs).Pairwise (· < ·) ∧ ∀ a, a ∈ sortUniq xs ↔ a ∈ xs :=
  ⟨sortUniq_strict xs, fun _ => mem_sortUniq⟩

/-- **sortUniq_perm**: `sortUniq` depends only on the *set* of its input — in particular not on its order or
    on repetitions. -/
theorem sortUniq_set {a b : List String} (h : ∀ x, x ∈ a ↔ x ∈ b) : sortUniq a = sortUniq b := sortUniq_ext h

theorem sortUniq_perm {a b : List String} (h : a.Perm b) : sortUniq a = sortUniq b := NamesP.sortUniq_perm h

example : sortStrings ["b", "a", "c", "a"] = ["a", "a", "b", "c"] := by decide
example : sortStrings ["a", "c", "a", "b"] = ["a", "a", "b", "c"] := by decide
example : sortUniq ["b", "a", "c", "a"] = ["a", "b", "c"] := by decide

/-! ### 1. `distinct_words` -/

/-- `Sub v w` is Python's `v in w` for strings; `Minimal P w`: `w ∈ P` and no other word of `P` is a substring
    of `w`. -/
abbrev Sub := NamesP.Sub
abbrev Minimal := NamesP.Minimal

/-- `strIn` is the contiguous-substring relation (`List.IsInfix` on the characters). -/
theorem strIn_iff_infix (v w : String) : strIn v w = true ↔ v.toList <:+: w.toList := sub_iff

/-- **distinctWords_minimal**: for *every* input order (and with repetitions), `distinct_words` returns exactly
    the ⊑-minimal words of its input, each once.  No corner case: the empty word is a substring of every word, so
    if it is present it is the only result. -/
theorem distinctWords_minimal (words : List String) :
    (distinctWords words).Nodup ∧ ∀ w, w ∈ distinctWords words ↔ (w ∈ words ∧ ∀ v ∈ words, strIn v w = true → v = w) :=
  ⟨distinctWords_nodup words, fun w => NamesP.distinctWords_minimal words w⟩

/-- **distinctWords_perm**: the result *set* does not depend on the iteration order of the two Python sets, and
    the sorted result (which is what the model and every caller use) is equal. -/
theorem distinctWords_perm {words₁ words₂ : List String} (h : words₁.Perm words₂) :
    (∀ w, w ∈ distinctWords words₁ ↔ w ∈ distinctWords words₂) ∧
    sortStrings (distinctWords words₁) = sortStrings (distinctWords words₂) :=
  ⟨distinctWords_ext (fun _ => h.mem_iff), sort_distinctWords_ext (fun _ => h.mem_iff)⟩

/-- stronger: only the set of input words matters -/
theorem distinctWords_set {words₁ words₂ : List String} (h : ∀ x, x ∈ words₁ ↔ x ∈ words₂) :
    sortStrings (distinctWords words₁) = sortStrings (distinctWords words₂) := sort_distinctWords_ext h

-- the docstring example of `distinct_words`, in two orders
example : sortStrings (distinctWords ["test", "another_test", "foo", "qwerty_foo_bar"]) = ["foo", "test"] := by decide
example : sortStrings (distinctWords ["qwerty_foo_bar", "another_test", "foo", "test", "foo"]) = ["foo", "test"] := by decide
-- the unsorted results differ with the order: the permutation theorem is not vacuous
example : distinctWords ["test", "another_test", "foo"] = ["test", "foo"] ∧
          distinctWords ["foo", "another_test", "test"] = ["foo", "test"] := by decide
-- the empty word absorbs everything
example : distinctWords ["ab", "", "c"] = [""] := by decide

/-! ### 2'. callers of the sorted sets -/

/-- **generateName_perm**: two graphs that differ only in the order of the pointer records give the same
    generated name (the `pointers` attribute of a `ModelMeta` is an `id()`-hashed set). -/
theorem generateName_perm (no : NameOracles) {g₁ g₂ : Graph} (h : g₁.ptrs.Perm g₂.ptrs) (m : Model) :
    generateName no g₁ m = generateName no g₂ m := generateName_perm' no h m

/-- hence the class names assigned by `generate_names()` do not depend on that order either -/
theorem generateNames_perm (no : NameOracles) {g₁ g₂ : Graph} (hm : g₁.models = g₂.models)
    (h : g₁.ptrs.Perm g₂.ptrs) :
    (generateNames no g₁).map (·.models) = (generateNames no g₂).map (·.models) := by
  unfold generateNames
  simp only [generateName_perm' no h, hm]
  generalize List.mapM (m := Except PyErr) _ g₂.models = r
  cases r <;> rfl

def exNameOracles : NameOracles := { singUnder := some, camelize := some }
def exG₁ : Graph :=
  { models := [{ idx := "1B", fields := [] }],
    ptrs := [⟨"1B", some "1A", some "item"⟩, ⟨"1B", some "1A", some "old_item"⟩, ⟨"1B", some "1C", some "entry"⟩] }
def exG₂ : Graph := { exG₁ with ptrs := exG₁.ptrs.reverse }
example : exG₁.ptrs.Perm exG₂.ptrs := (List.reverse_perm _).symm
example : ((generateName exNameOracles exG₁ { idx := "1B", fields := [] }).toOption.map (·.name)) = some (some "entry_item") ∧
          ((generateName exNameOracles exG₂ { idx := "1B", fields := [] }).toOption.map (·.name)) = some (some "entry_item") := by
  decide

/-- the result of `extract_root` (a set in Python) is represented by its sorted list -/
theorem extractRoot_sorted (g : Graph) (i : String) : Sorted (extractRoot g i) := by
  unfold extractRoot; exact NamesP.sortStrings_sorted _

/-- what `extract_root(model)` computes: `RootOf g i q` — `q` is a model that no field refers to and from which `i`
    can be reached through fields (`ReachUp`/`Up` follow the pointer records upwards).  In particular the
    worklist loop always finishes within the fuel of the model (at most one iteration per pointer record). -/
theorem extractRoot_spec (g : Graph) (i : String) :
    (extractRoot g i).Nodup ∧ ∀ q, q ∈ extractRoot g i ↔ RootOf g i q :=
  ⟨extractRoot_nodup g i, fun _ => mem_extractRoot⟩

/-- **extractRoot_perm**: the result does not depend on the order of the pointer records. -/
theorem extractRoot_perm {g₁ g₂ : Graph} (h : g₁.ptrs.Perm g₂.ptrs) (i : String) :
    extractRoot g₁ i = extractRoot g₂ i := LayoutP.extractRoot_perm h i

/-- **composeFlat_perm**: the flat layout does not depend on the order of the pointer records (the `pointers`
    sets of the `ModelMeta`s and the `parents`/`roots` sets of `compose_models_flat`). -/
theorem composeFlat_perm {g₁ g₂ : Graph} (hm : g₁.models = g₂.models) (h : g₁.ptrs.Perm g₂.ptrs) :
    composeFlat g₁ = composeFlat g₂ := composeFlat_ptrs_perm hm h

/-- **composeNested_perm**: neither does the nested layout. -/
theorem composeNested_perm {g₁ g₂ : Graph} (hm : g₁.models = g₂.models) (h : g₁.ptrs.Perm g₂.ptrs) :
    composeNestedState g₁ = composeNestedState g₂ ∧ composeNested g₁ = composeNested g₂ := by
  have := composeNested_ptrs_perm hm h
  exact ⟨this, by unfold composeNested; rw [this, hm]⟩

/-- a registry with shared and recursive references, and the same registry with the pointer records reversed -/
def exL₁ : Graph where
  models := [{ idx := "1A", fields := [] }, { idx := "1B", fields := [] }, { idx := "1C", fields := [] }]
  ptrs := [⟨"1A", none, none⟩, ⟨"1B", some "1A", some "b"⟩, ⟨"1C", some "1A", some "c"⟩,
           ⟨"1C", some "1B", some "c"⟩, ⟨"1C", some "1C", some "self"⟩]
  counter := 3
def exL₂ : Graph := { exL₁ with ptrs := exL₁.ptrs.reverse }
example : exL₁.models = exL₂.models ∧ exL₁.ptrs.Perm exL₂.ptrs := ⟨rfl, (List.reverse_perm _).symm⟩
example : extractRoot exL₁ "1C" = ["1A"] ∧ extractRoot exL₂ "1C" = ["1A"] := by decide +kernel
example : composeFlat exL₁ = .ok ["1A", "1B", "1C"] ∧ composeFlat exL₂ = .ok ["1A", "1B", "1C"] := by
  decide +kernel

/-- **imports_perm**: `compile_imports` does not depend on the order in which imports were collected. -/
theorem compileImports_perm {i₁ i₂ : List Imp} (h : i₁.Perm i₂) : compileImports i₁ = compileImports i₂ := by
  unfold compileImports
  have e1 : sortUniq ((i₁.filter (·.names.isNone)).map (·.module)) =
      sortUniq ((i₂.filter (·.names.isNone)).map (·.module)) := NamesP.sortUniq_perm ((h.filter _).map _)
  have e2 : sortUniq ((i₁.filter (·.names.isSome)).map (·.module)) =
      sortUniq ((i₂.filter (·.names.isSome)).map (·.module)) := NamesP.sortUniq_perm ((h.filter _).map _)
  have e3 : ∀ m : String, sortUniq ((i₁.filter (fun i => i.module == m)).flatMap (fun i => i.names.getD [])) =
      sortUniq ((i₂.filter (fun i => i.module == m)).flatMap (fun i => i.names.getD [])) :=
    fun m => NamesP.sortUniq_perm ((h.filter _).flatMap_right _)
  simp only [e1, e2, e3]

/-! ### 3. choice of the parent -/

/-- **parents_choice_order_free**: `sorted(parents)[0]` depends only on the set of parents. -/
theorem parents_choice_order_free {p₁ p₂ : List String} (h : ∀ x, x ∈ p₁ ↔ x ∈ p₂) :
    (sortStrings p₁).headD "" = (sortStrings p₂).headD "" := sortStrings_head_ext h

/-- … and it is the minimum of the set. -/
theorem parents_choice_min {ps : List String} {h : String} {t : List String} (e : sortStrings ps = h :: t) :
    h ∈ ps ∧ ∀ x ∈ ps, h ≤ x := sortStrings_head_le e

/-- the `parents` set of a model — and hence the `"#".join(sorted(parents))` key and the chosen parent — does not
    depend on the order in which the pointers are visited -/
theorem parentsOf_perm {p₁ p₂ : List PtrRec} (h : p₁.Perm p₂) :
    sortStrings (parentsOf p₁) = sortStrings (parentsOf p₂) ∧ (parentsOf p₁).length = (parentsOf p₂).length :=
  ⟨sort_parentsOf_perm h, parentsOf_length_perm h⟩

example : (sortStrings ["2B", "1C", "1A"]).headD "" = "1A" ∧ (sortStrings ["1A", "2B", "1C"]).headD "" = "1A" := by
  decide

end J2M.C06
