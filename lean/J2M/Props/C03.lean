/-
  Property C03 — "The emitted module is loadable Python with every reference resolvable": the naming and layout
  parts (theorems 2 (flat), 4, 5 (blacklist part), 6 (uniqueness part) of DESIGN §8.3).
  Helper developments: `J2M/Proofs/Names.lean`, `J2M/Proofs/Layout.lean`; the statements are shared with
  `Props/C11.lean` and `Props/C12.lean`.
-/
import J2M.Props.C11
import J2M.Props.C12
namespace J2M.C03
open J2M.NamesP J2M.LayoutP

/-- **classes_once_flat**: in the flat layout every registered model is emitted exactly once and nothing else is
    (for every graph on which `compose_models_flat` does not raise; `IdxDistinct`: registry indices are distinct). -/
theorem classes_once_flat {g : Graph} {l : List String} (h : composeFlat g = .ok l) (hd : IdxDistinct g.models) :
    l.Perm (g.models.map (·.idx)) ∧ l.Nodup ∧ ∀ m ∈ g.models, l.count m.idx = 1 := by
  have hp := C12.flat_perm h
  have hn : l.Nodup := hp.nodup_iff.mpr hd
  refine ⟨hp, hn, fun m hm => ?_⟩
  have h1 := List.nodup_iff_count.mp hn m.idx
  have h2 := List.count_pos_iff.mpr (hp.mem_iff.mpr (List.mem_map_of_mem (f := (·.idx)) hm))
  omega

example : IdxDistinct C12.exGraph.models := by show (C12.exGraph.models.map (·.idx)).Nodup; decide

/-- **classes_once_nested**: in the nested layout every registered model is placed exactly once, too (top level
    or one `nested` list; all graphs on which `compose_models` does not raise), and on tree-shaped registries each
    model sits at top level iff it has a root pointer, otherwise inside its unique referrer. -/
theorem classes_once_nested {g : Graph} {s : NestState} (h : composeNestedState g = .ok s) (hd : IdxDistinct g.models) :
    (C12.placed s).Perm (g.models.map (·.idx)) ∧ (C12.placed s).Nodup :=
  have hp := (C12.nested_once h).2
  ⟨hp, hp.nodup_iff.mpr hd⟩

theorem classes_once_nested_tree {g : Graph} (hT : C12.Tree g) :
    ∃ s, composeNestedState g = .ok s ∧
      s.roots = (g.models.filter (fun m => (C12.parentOf g m.idx).isNone)).map (·.idx) ∧
      (∀ q, s.children q = (g.models.filter (fun m => C12.parentOf g m.idx == some q)).map (·.idx)) ∧
      s.pathInj = [] := C12.nested_tree hT

/-- **required_before_optional**: `sort_fields` lists every field exactly once, the non-`Optional` ones first
    (the dataclass/attrs constraint "no non-default argument after a default argument"). -/
theorem required_before_optional {fs : Fields} {uf : Bool} {req opt : List String} (h : sortFields fs uf = (req, opt)) :
    (req ++ opt).Perm fs.keys ∧
    (∀ k ∈ opt, ∃ t, (k, t) ∈ fs ∧ t.isOpt = true) ∧ (∀ k ∈ req, ∃ t, (k, t) ∈ fs ∧ t.isOpt = false) :=
  C12.sortFields_keys h

/-- **names_valid** (blacklist part): with the word lists of the code under test, a field or class label is
    never empty, never a Python keyword, never a builtin/blacklisted word and never a name that the generated
    module imports.  (`UnderscoreNonempty`: `inflection.underscore` maps non-empty strings to non-empty
    strings.) -/
theorem names_valid {o : LabelOracles} {cu snake : Bool} {s r : String} (hu : C11.UnderscoreNonempty o)
    (h : prepareLabel o Extracted.blacklist cu snake s = .ok r) :
    r ≠ "" ∧ r ∉ Extracted.keywords ∧ r ∉ Extracted.blacklist ∧ r ∉ C11.importedNames :=
  have := C11.prepareLabel_not_keyword h
  ⟨C11.prepareLabel_nonempty hu h, this.2.1, this.1, this.2.2⟩

/-- **names_unique_class** (`fix_name_duplicates` part): class names of one module are pairwise distinct. -/
theorem names_unique_class {ms : List Model}
    (hN : C11.Named ms) (hD : C11.IdxDistinct ms) (hU : C11.IdxNoUnderscore ms) (hC : C11.NoSuffixClash ms) :
    ((fixNameDuplicates ms).map (·.name)).Nodup := C11.fixNameDuplicates_distinct hN hD hU hC

/-- registries built by `process_meta_data`/`_merge` use `Index` values, which satisfy the two index hypotheses -/
theorem index_hyps (ks : List Nat) (hk : ks.Nodup) (ms : List Model) (h : ms.map (·.idx) = ks.map indexOf) :
    C11.IdxDistinct ms ∧ C11.IdxNoUnderscore ms := by
  constructor
  · show (ms.map (·.idx)).Nodup
    rw [h]
    exact List.Pairwise.map indexOf (fun a b hab e => hab (C11.indexOf_injective e)) hk
  · intro m hm
    have : m.idx ∈ ks.map indexOf := h ▸ List.mem_map_of_mem hm
    obtain ⟨k, _, e⟩ := List.mem_map.mp this
    rw [← e]; exact C11.indexOf_no_underscore k

end J2M.C03
