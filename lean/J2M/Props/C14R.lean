/-
  Property C14 (rendering part) — "rendering code twice from the same model registry, or for several frameworks …
  under the same naming options, gives the same text as rendering once from a fresh registry."

  `generate_code` mutates the registry: `_prepare_class_names` converts the name of every model of the structure
  (`convert_class_name`, through the generator constructor) and adds the model index to converted names that are
  shared; afterwards the constructor of every class generator converts the name once more (models/base.py).
  `generateCode` returns the text and the name map after rendering; `withNames g names` is the registry after that
  rendering.
  Helper development: `J2M/Proofs/Render2*.lean`.
-/
import J2M.Proofs.Render2Eval
import J2M.Proofs.Render2Layouts
import J2M.Proofs.Render2Pipeline
import J2M.Proofs.Render2Tree
import J2M.Props.C11
namespace J2M.C14R
open J2M.Rend2

/-- the name recorded for index `i` -/
abbrev lookup := Rend2.lookup
/-- the registry after a rendering that ended with the names `names` -/
abbrev withNames := Rend2.withNames
/-- generator creation order of a structure (nested classes before the enclosing class) -/
abbrev postL := Rend2.postL

/-- `NamesStable c o names`: every recorded class name is a fixed point of `convert_class_name` -/
def NamesStable (c : RenderCfg) (o : RenderOracles) (names : NameMap) : Prop :=
  ∀ i n, (i, some n) ∈ names → convertClassName c o n = .ok n

/-- the same for the classes of a structure only -/
abbrev StableOn := Rend2.StableOn

theorem stableOn_of_namesStable {c : RenderCfg} {o : RenderOracles} {names : NameMap} (h : NamesStable c o names)
    (is : List String) : StableOn c o names is :=
  fun i _ n hn => h i n (mem_of_lookup hn)

/-- `DistinctOn names is`: the recorded names of the models in `is` are pairwise distinct -/
abbrev DistinctOn := PrepNames.DistinctOn
/-- the names `_prepare_class_names` computes before anything is rendered -/
abbrev preparedNames (c : RenderCfg) (o : RenderOracles) (g : Graph) (roots : List Node) : Except PyErr NameMap :=
  prepareNames c o (names0 g) roots

/-- registry indices are pairwise distinct -/
def IdxNodup (g : Graph) : Prop := (g.models.map (·.idx)).Nodup

/-- `Ready g inj roots`: whenever a class is rendered, the generators of all classes whose names it prints (its own
    and those its fields refer to, with the root of an injected path) have been created already.  True for every
    flat structure (`ready_flat`) and for nested structures in which classes refer only to classes of their own
    subtree (`ready_of_subtree`), e.g. for tree-shaped registries. -/
def Ready (g : Graph) (inj : List (String × String)) (roots : List Node) : Prop :=
  ReadyL (refsOf g inj) [] roots

theorem ready_flat (g : Graph) (inj : List (String × String)) (l : List String) :
    Ready g inj (l.map (fun i => Node.mk i [])) := readyL_flat _ _ _

/-- `SubtreeRefs g inj roots`: every class of the structure refers only to itself and to classes nested in it -/
def SubtreeRefs (g : Graph) (inj : List (String × String)) (roots : List Node) : Prop :=
  SubRefsL (refsOf g inj) roots

theorem ready_of_subtree {g : Graph} {inj : List (String × String)} {roots : List Node}
    (hnd : (postL roots).Nodup) (h : SubtreeRefs g inj roots) : Ready g inj roots :=
  readyL_of_sub _ roots [] (by simpa using hnd) h

/-! ### 0. the two key facts -/

/-- **renderLevel_fixed**: from a name map `F` that every generator constructor of the structure leaves unchanged
    (`FixedOn`), `renderLevel` returns `F` again, and every class is rendered with `F` (`renderPure`). -/
theorem renderLevel_fixed (c : RenderCfg) (o : RenderOracles) (g : Graph) (inj : List (String × String)) (F : NameMap)
    (fuel : Nat) (nodes : List Node) (h : FixedOn c o F (postL nodes)) :
    renderLevel c o g inj fuel F nodes = (renderPure c o g inj F fuel nodes).map (fun r => (F, r.1, r.2)) :=
  Rend2.renderLevel_fixed c o g inj F fuel nodes h

/-- **genClass_reads_name?**: `genClass` depends on the name map only through `RefEnv.name?` (more precisely, only at
    the indices its fields refer to: `Rend2.genClass_congr`). -/
theorem genClass_reads_name? (c : RenderCfg) (o : RenderOracles) (e₁ e₂ : RefEnv) (m : Model) (nested : List String)
    (hi : e₁.pathInj = e₂.pathInj) (h : ∀ i, e₁.name? i = e₂.name? i) :
    genClass c o e₁ m nested = genClass c o e₂ m nested :=
  genClass_congr_name? c o e₁ e₂ m nested hi h

/-! ### 1. rendering twice -/

/-- the statement without a condition on the structure -/
def render_twice_Statement : Prop :=
  ∀ (c : RenderCfg) (o : RenderOracles) (g : Graph) (roots : List Node) (inj : List (String × String))
    (pre : Option String) (text₁ : String) (names₁ : NameMap),
    IdxNodup g → generateCode c o g roots inj pre = .ok (text₁, names₁) → NamesStable c o names₁ →
    DistinctOn names₁ (postL roots) →
    generateCode c o (withNames g names₁) roots inj pre = .ok (text₁, names₁)

/-- **render_twice_partial** (`render_twice` for ready structures): let `(text₁, names₁)` be the result of a
    rendering and `g' = withNames g names₁` the registry it leaves behind.  If the registry indices are distinct,
    the structure is `Ready`, the final names of its classes are fixed points of `convert_class_name` and pairwise
    distinct (so that the second `_prepare_class_names` leaves them alone), then rendering `g'` gives the same text
    and the same names.
    Excluded (see `render_twice_Statement_false`): nested structures in which a nested class refers to an enclosing
    class (or to a class placed later) whose PREPARED name is changed once more by the conversion in the generator
    constructor.  `render_twice_prepared` below: when the conversion leaves the prepared names alone — the case of
    the real label functions — no condition on the structure is needed, and the distinctness is a consequence. -/
theorem render_twice_partial {c : RenderCfg} {o : RenderOracles} {g : Graph} {roots : List Node}
    {inj : List (String × String)} {pre : Option String} {text₁ : String} {names₁ : NameMap}
    (hnd : IdxNodup g) (h : generateCode c o g roots inj pre = .ok (text₁, names₁))
    (hready : Ready g inj roots) (hs : StableOn c o names₁ (postL roots)) (hd : DistinctOn names₁ (postL roots)) :
    generateCode c o (withNames g names₁) roots inj pre = .ok (text₁, names₁) :=
  render_twice_gen hnd h hready hs hd

/-- **render_twice_prepared**: if `convert_class_name` leaves the names prepared by `_prepare_class_names` alone
    (`StableOn c o N0 (postL roots)`; with the real label functions a converted name, with or without `_<index>`
    suffix, is a fixed point), then the rendering ends with exactly the prepared names, they are pairwise distinct,
    and rendering the registry left behind gives the same text and names — for EVERY structure. -/
theorem render_twice_prepared {c : RenderCfg} {o : RenderOracles} {g : Graph} {roots : List Node}
    {inj : List (String × String)} {pre : Option String} {text₁ : String} {names₁ N0 : NameMap}
    (hnd : IdxNodup g) (h : generateCode c o g roots inj pre = .ok (text₁, names₁))
    (hN0 : preparedNames c o g roots = .ok N0) (hs : StableOn c o N0 (postL roots)) :
    names₁ = N0 ∧ DistinctOn names₁ (postL roots) ∧
    generateCode c o (withNames g names₁) roots inj pre = .ok (text₁, names₁) := by
  obtain ⟨e, h2⟩ := Rend2.render_twice_prepared hnd h hN0 hs
  exact ⟨e, (PrepNames.nodup_map_distinct.mp (generateCode_names_nodup h hN0 hs)).2, h2⟩

/-- the distinctness hypothesis of `render_twice_partial` holds whenever the rendering succeeded and the conversion
    leaves the prepared names alone -/
theorem distinct_of_prepared_stable {c : RenderCfg} {o : RenderOracles} {g : Graph} {roots : List Node}
    {inj : List (String × String)} {pre : Option String} {text₁ : String} {names₁ N0 : NameMap}
    (h : generateCode c o g roots inj pre = .ok (text₁, names₁))
    (hN0 : preparedNames c o g roots = .ok N0) (hs : StableOn c o N0 (postL roots)) :
    DistinctOn names₁ (postL roots) :=
  (PrepNames.nodup_map_distinct.mp (generateCode_names_nodup h hN0 hs)).2

/-- **render_twice** for the flat layout: no condition on the registry besides distinct indices -/
theorem render_twice_flat {c : RenderCfg} {o : RenderOracles} {g : Graph} {l : List String}
    {inj : List (String × String)} {pre : Option String} {text₁ : String} {names₁ : NameMap}
    (hnd : IdxNodup g) (h : generateCode c o g (l.map (fun i => Node.mk i [])) inj pre = .ok (text₁, names₁))
    (hs : NamesStable c o names₁) (hd : DistinctOn names₁ l) :
    generateCode c o (withNames g names₁) (l.map (fun i => Node.mk i [])) inj pre = .ok (text₁, names₁) :=
  render_twice_partial hnd h (ready_flat g inj l) (stableOn_of_namesStable hs _) (by rw [postL, postL_flat]; exact hd)

/-- **render_twice** for nested structures whose classes refer only to classes nested in them (tree-shaped
    registries), each model placed once -/
theorem render_twice_tree {c : RenderCfg} {o : RenderOracles} {g : Graph} {roots : List Node}
    {inj : List (String × String)} {pre : Option String} {text₁ : String} {names₁ : NameMap}
    (hnd : IdxNodup g) (h : generateCode c o g roots inj pre = .ok (text₁, names₁))
    (hp : (postL roots).Nodup) (hsub : SubtreeRefs g inj roots) (hs : NamesStable c o names₁)
    (hd : DistinctOn names₁ (postL roots)) :
    generateCode c o (withNames g names₁) roots inj pre = .ok (text₁, names₁) :=
  render_twice_partial hnd h (ready_of_subtree hp hsub) (stableOn_of_namesStable hs _) hd

/-! #### the whole render job (layout + rendering) on the mutated registry

The layout functions do not read class names (`composeFlat_withNames`, `composeNested_withNames`), so the second
job uses the same structure. -/

abbrev renderFlat := Rend2.renderFlat
abbrev renderNested := Rend2.renderNested

/-- **renderFlat_twice**: a flat render job run again on the registry it left behind gives the same text -/
theorem renderFlat_twice {c : RenderCfg} {o : RenderOracles} {g : Graph} {pre : Option String} {text₁ : String}
    {names₁ : NameMap} (hnd : IdxNodup g) (h : renderFlat c o g pre = .ok (text₁, names₁))
    (hs : NamesStable c o names₁) (hd : DistinctOn names₁ (g.models.map (·.idx))) :
    renderFlat c o (withNames g names₁) pre = .ok (text₁, names₁) := by
  unfold renderFlat Rend2.renderFlat at h ⊢
  rw [composeFlat_withNames]
  rw [bind_eq_ok] at h ⊢
  obtain ⟨l, hl, hg⟩ := h
  exact ⟨l, hl, render_twice_flat hnd hg hs (hd.subset (fun i hi => (LayoutP.composeFlat_perm hl).mem_iff.mp hi))⟩

/-- **renderNested_twice**: the same for a nested render job whose structure is `Ready` -/
theorem renderNested_twice {c : RenderCfg} {o : RenderOracles} {g : Graph} {pre : Option String} {text₁ : String}
    {names₁ : NameMap} (hnd : IdxNodup g) (h : renderNested c o g pre = .ok (text₁, names₁))
    (hready : ∀ roots inj, composeNested g = .ok (roots, inj) → Ready g inj roots)
    (hs : NamesStable c o names₁)
    (hd : ∀ roots inj, composeNested g = .ok (roots, inj) → DistinctOn names₁ (postL roots)) :
    renderNested c o (withNames g names₁) pre = .ok (text₁, names₁) := by
  unfold renderNested Rend2.renderNested at h ⊢
  rw [composeNested_withNames]
  rw [bind_eq_ok] at h ⊢
  obtain ⟨⟨roots, inj⟩, hl, hg⟩ := h
  exact ⟨(roots, inj), hl, render_twice_partial hnd hg (hready roots inj hl) (stableOn_of_namesStable hs _)
    (hd roots inj hl)⟩

/-- **renderNested_twice_tree**: for tree-shaped registries (`LayoutP.Tree` = `C12.Tree`: every model has exactly
    one pointer record) without pointer cycles (`Rooted`) whose fields follow the pointer records, the nested render
    job run again on the registry it left behind gives the same text — the case named in the property. -/
theorem renderNested_twice_tree {c : RenderCfg} {o : RenderOracles} {g : Graph} {depth : String → Nat}
    {pre : Option String} {text₁ : String} {names₁ : NameMap}
    (hT : LayoutP.Tree g) (hnd : IdxNodup g) (hroot : Rooted g depth) (hff : FieldsFollowPtrs g)
    (h : renderNested c o g pre = .ok (text₁, names₁)) (hs : NamesStable c o names₁)
    (hd : DistinctOn names₁ (g.models.map (·.idx))) :
    renderNested c o (withNames g names₁) pre = .ok (text₁, names₁) := by
  apply renderNested_twice hnd h _ hs
  · intro roots inj hr
    obtain ⟨s, hst, rfl, rfl⟩ := composeNested_tree_state hT hr
    exact hd.subset (fun i hi => (tree_cover hst hroot hnd).mem_iff.mp hi)
  · intro roots inj hr
    obtain ⟨s, hst, rfl, rfl⟩ := composeNested_tree_state hT hr
    exact ready_of_subtree ((tree_cover hst hroot hnd).nodup_iff.mpr hnd) (tree_subRefs hst hroot hff)

/-! #### the unrestricted statement is false: a nested class that refers to its enclosing class

`1A` (named `class`) has a field of type `1B`; `1B` has an optional field of type `1A`; the configuration `badCfg`
reserves both `class` and `class_`.  `_prepare_class_names` converts `class` to `class_`; the nested layout puts `1B`
inside `1A`, and `_generate_code` renders the nested class *before* the generator of the enclosing class is created,
i.e. before the prepared name `class_` is converted once more, to `class__`: the first rendering prints
`Optional['class_']` (a dangling reference), the second one `Optional['class__']`.  All final names are fixed points
and pairwise distinct.
With the configuration of the other examples (only `class` reserved) both renderings of this registry agree
(`bad_repaired`): since `_prepare_class_names` exists, the failure needs a prepared name that the conversion changes
again, which the real reserved-word list excludes (`C11.blacklist_suffix_safe`, `C11.label_idempotent`). -/

def badG : Graph where
  models := [{ idx := "1A", fields := [("b", .ptr "1B")], name := some "class" },
             { idx := "1B", fields := [("a", .opt (.ptr "1A"))], name := some "B" }]
  ptrs := [⟨"1A", none, none⟩, ⟨"1B", some "1A", some "b"⟩, ⟨"1A", some "1B", some "a"⟩]
  counter := 2
def badRoots : List Node := [.mk "1A" [.mk "1B" []]]
def badCfg : RenderCfg := { exCfg .dataclasses with blacklist := ["class", "class_"] }
def badNames : NameMap := [("1A", some "class__"), ("1B", some "B")]

-- this is the nested layout of the registry
example : composeNested badG = .ok (badRoots, []) := composeNested_of_check (by decide +kernel)

-- the prepared names: `class` has been converted once
example : (preparedNames badCfg exOracles badG badRoots).toOption = some [("1A", some "class_"), ("1B", some "B")] := by
  decide +kernel

theorem bad_first : generateCode badCfg exOracles badG badRoots [] none = .ok
    ("from dataclasses import dataclass, field\nfrom typing import Optional\n\n\n@dataclass\nclass class__:\n    @dataclass\n    class B:\n        a: Optional['class_'] = None\n\n    b: 'B'\n",
     badNames) := generateCode_of_eval (by decide +kernel)

theorem bad_second : generateCode badCfg exOracles (withNames badG badNames) badRoots [] none = .ok
    ("from dataclasses import dataclass, field\nfrom typing import Optional\n\n\n@dataclass\nclass class__:\n    @dataclass\n    class B:\n        a: Optional['class__'] = None\n\n    b: 'B'\n",
     badNames) := generateCode_of_eval (by decide +kernel)

theorem bad_stable : NamesStable badCfg exOracles badNames := by
  intro i n h
  simp only [badNames, List.mem_cons, Prod.mk.injEq, Option.some.injEq, List.not_mem_nil, or_false] at h
  rcases h with ⟨_, rfl⟩ | ⟨_, rfl⟩ <;> exact ok_of_toOption (by decide +kernel)

theorem bad_distinct : DistinctOn badNames (postL badRoots) :=
  (PrepNames.nodup_map_distinct.mp (by decide +kernel)).2

/-- **render_twice_Statement_false** -/
theorem render_twice_Statement_false : ¬ render_twice_Statement := by
  intro h
  have h2 := h _ _ _ _ _ _ _ _ (by unfold IdxNodup; decide) bad_first bad_stable bad_distinct
  rw [bad_second] at h2
  revert h2
  decide +kernel

/-- the registry on which the statement failed before `_prepare_class_names` existed (only `class` reserved): now the
    nested class is rendered with the converted name of its enclosing class, and both renderings agree -/
theorem bad_repaired :
    generateCode (exCfg .dataclasses) exOracles badG badRoots [] none = .ok
      ("from dataclasses import dataclass, field\nfrom typing import Optional\n\n\n@dataclass\nclass class_:\n    @dataclass\n    class B:\n        a: Optional['class_'] = None\n\n    b: 'B'\n",
       [("1A", some "class_"), ("1B", some "B")]) ∧
    generateCode (exCfg .dataclasses) exOracles (withNames badG [("1A", some "class_"), ("1B", some "B")]) badRoots [] none =
      generateCode (exCfg .dataclasses) exOracles badG badRoots [] none := by
  have h1 : generateCode (exCfg .dataclasses) exOracles badG badRoots [] none = .ok
      ("from dataclasses import dataclass, field\nfrom typing import Optional\n\n\n@dataclass\nclass class_:\n    @dataclass\n    class B:\n        a: Optional['class_'] = None\n\n    b: 'B'\n",
       [("1A", some "class_"), ("1B", some "B")]) := generateCode_of_eval (by decide +kernel)
  refine ⟨h1, ?_⟩
  have hN0 : preparedNames (exCfg .dataclasses) exOracles badG badRoots = .ok [("1A", some "class_"), ("1B", some "B")] :=
    ok_of_toOption (by decide +kernel)
  have hs : StableOn (exCfg .dataclasses) exOracles [("1A", some "class_"), ("1B", some "B")] (postL badRoots) := by
    apply stableOn_of_namesStable
    intro i n h
    simp only [List.mem_cons, Prod.mk.injEq, Option.some.injEq, List.not_mem_nil, or_false] at h
    rcases h with ⟨_, rfl⟩ | ⟨_, rfl⟩ <;> exact ok_of_toOption (by decide +kernel)
  rw [(render_twice_prepared (by unfold IdxNodup; decide) h1 hN0 hs).2.2, h1]

/-! #### non-vacuity of `render_twice_flat` / `render_twice_tree`: a 3-model tree-shaped registry with two names
    that the conversion changes -/

def exTree : Graph where
  models := [{ idx := "1A", fields := [("b", .ptr "1B"), ("c", .list (.ptr "1C"))], name := some "class" },
             { idx := "1B", fields := [("x", .int)], name := some "List" },
             { idx := "1C", fields := [("y", .opt .str)], name := some "C" }]
  ptrs := [⟨"1A", none, none⟩, ⟨"1B", some "1A", some "b"⟩, ⟨"1C", some "1A", some "c"⟩]
  counter := 3
def exNested : List Node := [.mk "1A" [.mk "1B" [], .mk "1C" []]]
def exFlat : List String := ["1A", "1B", "1C"]
def exNames : NameMap := [("1A", some "class_"), ("1B", some "List_"), ("1C", some "C")]

example : composeNested exTree = .ok (exNested, []) := composeNested_of_check (by decide +kernel)
example : (composeFlat exTree).toOption = some exFlat := by decide +kernel

theorem exTree_nested : generateCode (exCfg .pydantic) exOracles exTree exNested [] none = .ok
    ("from pydantic.v1 import BaseModel, Field\nfrom typing import List, Optional\n\n\nclass class_(BaseModel):\n    class List_(BaseModel):\n        x: int\n\n    class C(BaseModel):\n        y: Optional[str] = None\n\n    b: 'List_'\n    c: List['C']\n",
     exNames) := generateCode_of_eval (by decide +kernel)

theorem exTree_flat : generateCode (exCfg .pydantic) exOracles exTree (exFlat.map (fun i => Node.mk i [])) [] none = .ok
    ("from pydantic.v1 import BaseModel, Field\nfrom typing import List, Optional\n\n\nclass class_(BaseModel):\n    b: 'List_'\n    c: List['C']\n\n\nclass List_(BaseModel):\n    x: int\n\n\nclass C(BaseModel):\n    y: Optional[str] = None\n",
     exNames) := generateCode_of_eval (by decide +kernel)

theorem exTree_stable (fw : Framework) : NamesStable (exCfg fw) exOracles exNames := by
  intro i n h
  simp only [exNames, List.mem_cons, Prod.mk.injEq, Option.some.injEq, List.not_mem_nil, or_false] at h
  rcases h with ⟨_, rfl⟩ | ⟨_, rfl⟩ | ⟨_, rfl⟩ <;> cases fw <;> exact ok_of_toOption (by decide +kernel)

theorem exTree_idx : IdxNodup exTree := by unfold IdxNodup; decide
theorem exTree_distinct_flat : DistinctOn exNames exFlat := (PrepNames.nodup_map_distinct.mp (by decide +kernel)).2
theorem exTree_distinct : DistinctOn exNames (postL exNested) := (PrepNames.nodup_map_distinct.mp (by decide +kernel)).2
theorem exTree_post : (postL exNested).Nodup := by decide +kernel
theorem exTree_sub : SubtreeRefs exTree [] exNested := by
  simp [SubtreeRefs, SubRefsL, SubRefsN, exNested, refsOf, fieldsRefs, closeInj, exTree, Graph.find?, tyRefs]

-- the hypotheses of the two theorems hold, and their conclusions are the expected equalities
example : generateCode (exCfg .pydantic) exOracles (withNames exTree exNames) (exFlat.map (fun i => Node.mk i [])) [] none =
    generateCode (exCfg .pydantic) exOracles exTree (exFlat.map (fun i => Node.mk i [])) [] none := by
  rw [render_twice_flat exTree_idx exTree_flat (exTree_stable _) exTree_distinct_flat, exTree_flat]
example : generateCode (exCfg .pydantic) exOracles (withNames exTree exNames) exNested [] none =
    generateCode (exCfg .pydantic) exOracles exTree exNested [] none := by
  rw [render_twice_tree exTree_idx exTree_nested exTree_post exTree_sub (exTree_stable _) exTree_distinct, exTree_nested]
-- `render_twice_prepared`: the prepared names are the final names, and the conversion leaves them alone
theorem exTree_prepared : preparedNames (exCfg .pydantic) exOracles exTree exNested = .ok exNames :=
  ok_of_toOption (by decide +kernel)
example := render_twice_prepared exTree_idx exTree_nested exTree_prepared (stableOn_of_namesStable (exTree_stable _) _)
-- the rendering changed the registry: the theorem is not about an unchanged graph
example : (withNames exTree exNames).models.map (·.name) = [some "class_", some "List_", some "C"] ∧
    exTree.models.map (·.name) = [some "class", some "List", some "C"] := by decide +kernel

/-! ### 2. the stability hypothesis from `label_idempotent` -/

/-- oracle facts: `unidecode` (when enabled) and `re.sub(r"\W", "", ·)` leave the converted names alone -/
def UnidecodeFixes (c : RenderCfg) (o : RenderOracles) (names : NameMap) (is : List String) : Prop :=
  c.convertUnicode = true → ∀ i ∈ is, ∀ n, lookup names i = some n → o.label.unidecode n = some n
def StripWFixes (o : RenderOracles) (names : NameMap) (is : List String) : Prop :=
  ∀ i ∈ is, ∀ n, lookup names i = some n → o.label.stripW n = some n

/-- **stable_of_oracles**: after a successful rendering the names of the rendered classes are results of
    `convert_class_name`; by `C11.label_idempotent` they are fixed points as soon as the oracles fix them and the
    blacklist is suffix-safe (`C11.blacklist_suffix_safe` for the real word list). -/
theorem stable_of_oracles {c : RenderCfg} {o : RenderOracles} {g : Graph} {roots : List Node}
    {inj : List (String × String)} {pre : Option String} {text₁ : String} {names₁ : NameMap}
    (h : generateCode c o g roots inj pre = .ok (text₁, names₁))
    (hbl : C11.SuffixSafe c.blacklist)
    (hU : UnidecodeFixes c o names₁ (postL roots)) (hS : StripWFixes o names₁ (postL roots)) :
    StableOn c o names₁ (postL roots) := by
  intro i hi n hn
  obtain ⟨_, _, hcv⟩ := generateCode_converted h
  obtain ⟨n₀, n', hc, hl⟩ := hcv i hi
  have e : n' = n := by
    have : some n' = some n := hl.symm.trans hn
    exact Option.some.inj this
  subst e
  exact C11.label_idempotent hbl hc (fun hcu => hU hcu i hi _ hn) (hS i hi _ hn)

/-- `render_twice` with the oracle facts as hypotheses -/
theorem render_twice_oracles {c : RenderCfg} {o : RenderOracles} {g : Graph} {roots : List Node}
    {inj : List (String × String)} {pre : Option String} {text₁ : String} {names₁ : NameMap}
    (hnd : IdxNodup g) (h : generateCode c o g roots inj pre = .ok (text₁, names₁)) (hready : Ready g inj roots)
    (hbl : C11.SuffixSafe c.blacklist)
    (hU : UnidecodeFixes c o names₁ (postL roots)) (hS : StripWFixes o names₁ (postL roots))
    (hd : DistinctOn names₁ (postL roots)) :
    generateCode c o (withNames g names₁) roots inj pre = .ok (text₁, names₁) :=
  render_twice_partial hnd h hready (stable_of_oracles h hbl hU hS) hd

/-! ### 3. the name mutation does not depend on the framework -/

/-- **convertClassName_fw**: `convert_class_name` is the same function for all generators with the same
    `convert_unicode` option (and blacklist) -/
theorem convertClassName_fw {c₁ c₂ : RenderCfg} (hcu : c₁.convertUnicode = c₂.convertUnicode)
    (hbl : c₁.blacklist = c₂.blacklist) (o : RenderOracles) : convertClassName c₁ o = convertClassName c₂ o := by
  funext n; unfold convertClassName; rw [hcu, hbl]

/-- the names left behind by a rendering do not depend on the framework (nor on anything else in the configuration
    than `convert_unicode` and the blacklist, nor on the preamble) -/
theorem names_fw {c₁ c₂ : RenderCfg} {o : RenderOracles} {g : Graph} {roots : List Node} {inj : List (String × String)}
    {pre₁ pre₂ : Option String} {t₁ t₂ : String} {F₁ F₂ : NameMap}
    (hcu : c₁.convertUnicode = c₂.convertUnicode) (hbl : c₁.blacklist = c₂.blacklist)
    (h₁ : generateCode c₁ o g roots inj pre₁ = .ok (t₁, F₁)) (h₂ : generateCode c₂ o g roots inj pre₂ = .ok (t₂, F₂)) :
    F₁ = F₂ := by
  rw [generateCode_ok] at h₁ h₂
  obtain ⟨M₁, _, _, _, p₁, r₁, _, _⟩ := h₁
  obtain ⟨M₂, _, _, _, p₂, r₂, _, _⟩ := h₂
  rw [PrepNames.prepareNames_congr (convertClassName_fw hcu hbl o)] at p₁
  cases p₁.symm.trans p₂
  have e₁ := renderLevel_names _ _ _ _ _ _ _ _ _ _ r₁
  have e₂ := renderLevel_names _ _ _ _ _ _ _ _ _ _ r₂
  rw [convAll_congr (convertClassName_fw hcu hbl o)] at e₁
  exact Except.ok.inj (e₁.symm.trans e₂)

/-- **cross_framework**: render the registry with configuration `c₁` (framework 1), then render the mutated
    registry with `c₂` (framework 2, same `convert_unicode`): the second rendering gives exactly the text (and names)
    that `c₂` gives on the fresh registry. -/
theorem cross_framework {c₁ c₂ : RenderCfg} {o : RenderOracles} {g : Graph} {roots : List Node}
    {inj : List (String × String)} {pre₁ pre₂ : Option String} {t₁ t₂ : String} {F₁ F₂ : NameMap}
    (hcu : c₁.convertUnicode = c₂.convertUnicode) (hbl : c₁.blacklist = c₂.blacklist)
    (hnd : IdxNodup g)
    (h₁ : generateCode c₁ o g roots inj pre₁ = .ok (t₁, F₁))
    (h₂ : generateCode c₂ o g roots inj pre₂ = .ok (t₂, F₂))
    (hready : Ready g inj roots) (hs : StableOn c₁ o F₁ (postL roots)) (hd : DistinctOn F₁ (postL roots)) :
    generateCode c₂ o (withNames g F₁) roots inj pre₂ = .ok (t₂, F₂) := by
  have e := names_fw hcu hbl h₁ h₂
  subst e
  apply render_twice_partial hnd h₂ hready _ hd
  intro i hi n hn
  rw [← convertClassName_fw hcu hbl o]
  exact hs i hi n hn

/-- **cross_framework_layouts**: the same across layouts.  Render with `c₁` and the structure `roots₁` (say, pydantic,
    flat), then render the mutated registry with `c₂` and another structure `roots₂` over the same models (say,
    dataclasses, nested): the second rendering gives exactly what `c₂` with `roots₂` gives on the fresh registry. -/
theorem cross_framework_layouts {c₁ c₂ : RenderCfg} {o : RenderOracles} {g : Graph} {roots₁ roots₂ : List Node}
    {inj₁ inj₂ : List (String × String)} {pre₁ pre₂ : Option String} {t₁ t₂ : String} {F₁ F₂ : NameMap}
    (hcu : c₁.convertUnicode = c₂.convertUnicode) (hbl : c₁.blacklist = c₂.blacklist)
    (hnd : IdxNodup g) (hp : (postL roots₁).Perm (postL roots₂)) (hpn : (postL roots₁).Nodup)
    (h₁ : generateCode c₁ o g roots₁ inj₁ pre₁ = .ok (t₁, F₁))
    (h₂ : generateCode c₂ o g roots₂ inj₂ pre₂ = .ok (t₂, F₂))
    (hready : Ready g inj₂ roots₂) (hs : StableOn c₁ o F₁ (postL roots₁)) (hd : DistinctOn F₁ (postL roots₁)) :
    F₁ = F₂ ∧ generateCode c₂ o (withNames g F₁) roots₂ inj₂ pre₂ = .ok (t₂, F₂) := by
  have e := names_layout_indep (convertClassName_fw hcu hbl o) hnd hp hpn h₁ h₂
  subst e
  refine ⟨rfl, render_twice_partial hnd h₂ hready ?_ (hd.subset (fun i hi => hp.mem_iff.mpr hi))⟩
  intro i hi n hn
  rw [← convertClassName_fw hcu hbl o]
  exact hs i (hp.mem_iff.mpr hi) n hn

-- non-vacuity: the oracle facts hold for the example, and the blacklist of the example is suffix-safe
example : C11.SuffixSafe (exCfg .pydantic).blacklist ∧
    UnidecodeFixes (exCfg .pydantic) exOracles exNames (postL exNested) ∧ StripWFixes exOracles exNames (postL exNested) :=
  ⟨by intro w hw; simp only [exCfg, List.mem_cons, List.not_mem_nil, or_false] at hw; rcases hw with rfl | rfl <;> decide,
   fun _ _ _ _ _ => rfl, fun _ _ _ _ => rfl⟩

-- cross-framework: pydantic first, then dataclasses on the mutated registry = dataclasses alone
theorem exTree_nested_dc : generateCode (exCfg .dataclasses) exOracles exTree exNested [] none = .ok
    ("from dataclasses import dataclass, field\nfrom typing import List, Optional\n\n\n@dataclass\nclass class_:\n    @dataclass\n    class List_:\n        x: int\n\n    @dataclass\n    class C:\n        y: Optional[str] = None\n\n    b: 'List_'\n    c: List['C']\n",
     exNames) := generateCode_of_eval (by decide +kernel)

example : generateCode (exCfg .dataclasses) exOracles (withNames exTree exNames) exNested [] none =
    generateCode (exCfg .dataclasses) exOracles exTree exNested [] none := by
  rw [cross_framework (c₁ := exCfg .pydantic) (c₂ := exCfg .dataclasses) rfl rfl exTree_idx exTree_nested exTree_nested_dc
    (ready_of_subtree exTree_post exTree_sub) (stableOn_of_namesStable (exTree_stable _) _) exTree_distinct, exTree_nested_dc]

-- pydantic/flat first, then dataclasses/nested on the mutated registry = dataclasses/nested alone
example : generateCode (exCfg .dataclasses) exOracles (withNames exTree exNames) exNested [] none =
    generateCode (exCfg .dataclasses) exOracles exTree exNested [] none := by
  rw [(cross_framework_layouts (c₁ := exCfg .pydantic) (c₂ := exCfg .dataclasses) rfl rfl exTree_idx
    (by decide +kernel) (by decide +kernel) exTree_flat exTree_nested_dc
    (ready_of_subtree exTree_post exTree_sub) (stableOn_of_namesStable (exTree_stable _) _)
    (by rw [postL, postL_flat]; exact exTree_distinct_flat)).2, exTree_nested_dc]

end J2M.C14R
