/-
  C04 — "Emitted classes denote exactly the inferred model graph"   (DESIGN §8.4): annotations and field lines.

  `Ann` (Proofs/Render.lean) is the abstract syntax of the annotation expressions, `Ann.print` its printer and
  `tyAnn c e t` the typing term the IR type `t` denotes under the framework's style:
    pseudo-types as their actual type name under pydantic/sqlmodel and as the class name otherwise;
    literals as `Literal[values]` iff `c.useLiterals` and `vals.length < c.maxLiterals`, else `str`;
    pointers as quoted, possibly dotted, references; `none` where `metadata_to_typing` raises.
-/
import J2M.Proofs.Render
import J2M.Props.C10
namespace J2M.C04

open J2M J2M.Rend

/-! ## 1. `typing_denotes` -/

/-- the emitted annotation text is the print of the denoted term -/
theorem typing_denotes (c : RenderCfg) (e : RefEnv) (t : Ty) (imps : List Imp) (s : String)
    (h : typingCode c e t = .ok (imps, s)) :
    ∃ a, tyAnn c e t = some a ∧ s = a.print := by
  obtain ⟨a, ha, hs, _⟩ := typingCode_ok c e t imps s h
  exact ⟨a, ha, hs⟩

/-- the list form used for `Union[...]` / `Tuple[...]` members: one text per member, in member order -/
theorem typing_denotes_list (c : RenderCfg) (e : RefEnv) (ts : List Ty) (imps : List Imp) (ss : List String)
    (h : typingCodes c e ts = .ok (imps, ss)) :
    ∃ as, tyAnns c e ts = some as ∧ ss = as.map Ann.print := by
  obtain ⟨as, ha, hs, _⟩ := typingCodes_ok c e ts imps ss h
  exact ⟨as, ha, by rw [hs, Ann.printList_eq]⟩

/-- conversely the generator succeeds wherever the denotation exists, and fails (only) where it does not -/
theorem typing_total (c : RenderCfg) (e : RefEnv) (t : Ty) (a : Ann) (h : tyAnn c e t = some a) :
    typingCode c e t = .ok (a.needs c.literalModule, a.print) :=
  typingCode_complete c e t a h

theorem typing_raises_iff (c : RenderCfg) (e : RefEnv) (t : Ty) :
    (∃ err, typingCode c e t = .error err) ↔ tyAnn c e t = none :=
  typingCode_error_iff c e t

/-- member order of a union is preserved: the `i`-th printed member denotes the `i`-th member type -/
theorem tyAnns_iff (c : RenderCfg) (e : RefEnv) :
    ∀ (ts : List Ty) (as : List Ann), tyAnns c e ts = some as ↔ ts.map (tyAnn c e) = as.map some
  | [], as => by cases as <;> simp [tyAnns]
  | t :: ts, as => by
    constructor
    · intro h
      simp only [tyAnns] at h
      split at h
      · rename_i a as' ha has
        cases h
        simp [ha, (tyAnns_iff c e ts as').1 has]
      · cases h
    · intro h
      cases as with
      | nil => simp at h
      | cons a as' =>
        simp only [List.map_cons, List.cons.injEq] at h
        simp [tyAnns, h.1, (tyAnns_iff c e ts as').2 h.2]

theorem union_members (c : RenderCfg) (e : RefEnv) (ts : List Ty) (a : Ann) (h : tyAnn c e (.union ts) = some a) :
    ts ≠ [] ∧ ∃ as, a = .union as ∧ ts.map (tyAnn c e) = as.map some := by
  simp only [tyAnn] at h
  split at h
  · cases h
  · rename_i hne
    simp only [Option.map_eq_some_iff] at h
    obtain ⟨as, has, rfl⟩ := h
    exact ⟨by simpa using hne, as, rfl, (tyAnns_iff c e ts as).1 has⟩

-- non-vacuity
private def cfgP : RenderCfg where
  fw := .pydantic
  maxLiterals := 10
  postInit := false
  convertUnicode := true
  withMeta := false
  decoKwargs := []
  literalModule := "typing"
  blacklist := []
  serInfo := [("IntString", "int", "builtins"), ("IsoDateString", "date", "datetime")]
  metadataFieldName := "J2M_ORIGINAL_FIELD"
private def cfgA : RenderCfg := { cfgP with fw := .attrs, withMeta := true }
private def cfgD : RenderCfg := { cfgP with fw := .dataclasses, withMeta := true }
private def envP : RefEnv := ⟨[("1", some "Child"), ("0", some "Root")], [("1", "0")]⟩
private def tyP : Ty := .opt (.union [.lit false ["a", "b\"c"], .list (.ptr "1"), .ser "IsoDateString", .dict .unknown])

example : typingCode cfgP envP tyP = .ok (
    [⟨"typing", some ["Literal"]⟩, ⟨"typing", some ["List"]⟩, ⟨"datetime", some ["date"]⟩, ⟨"typing", some ["Any"]⟩,
     ⟨"typing", some ["Dict"]⟩, ⟨"typing", some ["Union"]⟩, ⟨"typing", some ["Optional"]⟩],
    "Optional[Union[Literal[\"a\", \"b\\\"c\"], List['Root.Child'], date, Dict[str, Any]]]") := rfl
example : tyAnn cfgP envP tyP = some (.opt (.union [.literal ["a", "b\"c"], .list (.fwd "Root.Child"),
    .cls "datetime" "date", .dict .any])) := rfl
example : tyAnn cfgA envP tyP = some (.opt (.union [.str, .list (.fwd "Root.Child"),
    .cls "json_to_models.dynamic_typing" "IsoDateString", .dict .any])) := rfl
-- where the generator raises there is no denotation
example : tyAnn cfgP envP (.list (.ptr "7")) = none := rfl
example : tyAnn cfgP envP (.union []) = none := rfl

/-! ## 2. `imports_cover` -/

/-- every name the annotation mentions from `typing` / `typing_extensions` / `json_to_models.dynamic_typing` /
    `datetime` (…) is imported: `Ann.needs` lists, node by node, the import each constructor needs
    (`Any`, `List`, `Dict`, `Optional`, `Union`, `Tuple` from `typing`; `Literal` from `c.literalModule`;
    a class from its module unless that is `builtins`), and the generator returns all of them -/
theorem imports_cover (c : RenderCfg) (e : RefEnv) (t : Ty) (imps : List Imp) (s : String)
    (h : typingCode c e t = .ok (imps, s)) :
    ∃ a, tyAnn c e t = some a ∧ s = a.print ∧ ∀ i ∈ a.needs c.literalModule, i ∈ imps := by
  obtain ⟨a, ha, hs, hi⟩ := typingCode_ok c e t imps s h
  exact ⟨a, ha, hs, fun i hi' => hi ▸ hi'⟩

/-- in fact exactly those, in collection order -/
theorem imports_exact (c : RenderCfg) (e : RefEnv) (t : Ty) (imps : List Imp) (s : String)
    (h : typingCode c e t = .ok (imps, s)) :
    ∃ a, tyAnn c e t = some a ∧ imps = a.needs c.literalModule := by
  obtain ⟨a, ha, _, hi⟩ := typingCode_ok c e t imps s h
  exact ⟨a, ha, hi⟩

example : (Ann.opt (.union [.literal ["a"], .cls "datetime" "date", .cls "builtins" "int"])).needs "typing_extensions"
    = [⟨"typing_extensions", some ["Literal"]⟩, ⟨"datetime", some ["date"]⟩, ⟨"typing", some ["Union"]⟩,
       ⟨"typing", some ["Optional"]⟩] := rfl

/-! ## 4. `field_default_iff_optional`

  `defaultKind optional t` (Proofs/Render.lean) is the default a field gets: none for a required field; for an
  optional one the empty-list / empty-dict factory when the type below the `Optional` is a list / dict, `None`
  otherwise. The four theorems give the emitted line of each framework in terms of it. -/

theorem defaultKind_isSome_iff (optional : Bool) (t : Ty) : (defaultKind optional t).isSome ↔ optional = true := by
  unfold defaultKind; cases optional <;> simp

theorem defaultKind_table (optional : Bool) (t : Ty) :
    (defaultKind optional t = none ↔ optional = false) ∧
    (defaultKind optional t = some .emptyList ↔ optional = true ∧ (optInner t).isList = true) ∧
    (defaultKind optional t = some .emptyDict ↔ optional = true ∧ (optInner t).isDict = true) ∧
    (defaultKind optional t = some .none ↔
      optional = true ∧ (optInner t).isList = false ∧ (optInner t).isDict = false) := by
  unfold defaultKind
  cases optional
  · simp
  · generalize optInner t = inner
    cases inner <;> simp [Ty.isList, Ty.isDict]

/-- the texts: pydantic/sqlmodel write the value, attrs and dataclasses a keyword argument -/
example : pydDefaultText .none = "None" ∧ pydDefaultText .emptyList = "[]" ∧ pydDefaultText .emptyDict = "{}" :=
  ⟨rfl, rfl, rfl⟩
example : attrsDefaultKw none = [] ∧ attrsDefaultKw (some .none) = [("default", "None")] ∧
    attrsDefaultKw (some .emptyList) = [("factory", "list")] ∧ attrsDefaultKw (some .emptyDict) = [("factory", "dict")] :=
  ⟨rfl, rfl, rfl, rfl⟩
example : dcDefaultKw none = [] ∧ dcDefaultKw (some .none) = [("default", "None")] ∧
    dcDefaultKw (some .emptyList) = [("default_factory", "list")] ∧
    dcDefaultKw (some .emptyDict) = [("default_factory", "dict")] :=
  ⟨rfl, rfl, rfl, rfl⟩

section
variable {c : RenderCfg} {o : RenderOracles} {e : RefEnv} {key : String} {t : Ty} {optional : Bool}
  {imps : List Imp} {typing name : String}

/-- pydantic / sqlmodel: `name: T`, `name: T = default`, or `name: T = Field(default | ..., kwargs)` where
    `pydBody d kw = if kw = [] then (" = " ++ d, or "" without default) else " = Field(" ++ (d or "...") ++ ", " ++ kw ++ ")"` -/
theorem field_line_pydantic (hfw : c.fw = .pydantic ∨ c.fw = .sqlmodel)
    (hty : typingCode c e t = .ok (imps, typing)) (hn : convertFieldName c o key = .ok name) :
    fieldLine c o e key t optional =
      .ok (imps, name ++ ": " ++ typing ++
        pydBody ((defaultKind optional t).map pydDefaultText) (pydAliasKw key name ++ sqlPkKw c name t)) :=
  fieldLine_pyd hfw hty hn

/-- attrs: `name: T = attr.ib(default-or-factory, converter, metadata)` -/
theorem field_line_attrs (hfw : c.fw = .attrs)
    (hty : typingCode c e t = .ok (imps, typing)) (hn : convertFieldName c o key = .ok name) :
    fieldLine c o e key t optional =
      .ok (imps ++ attrsConvImps c optional t, name ++ ": " ++ typing ++ " = attr.ib(" ++
        renderKwargs (attrsDefaultKw (defaultKind optional t) ++ attrsConvKw c optional t ++ metaKw c o key name)
          ++ ")") :=
  fieldLine_attrs hfw hty hn

/-- dataclasses: `name: T`, `name: T = None`, or `name: T = field(default-or-factory, metadata)` where
    `dcBody [] = ""`, `dcBody [("default", d)] = " = " ++ d`, `dcBody kw = " = field(" ++ kw ++ ")"` -/
theorem field_line_dataclasses (hfw : c.fw = .dataclasses)
    (hty : typingCode c e t = .ok (imps, typing)) (hn : convertFieldName c o key = .ok name) :
    fieldLine c o e key t optional =
      .ok (imps, name ++ ": " ++ typing ++ dcBody (dcDefaultKw (defaultKind optional t) ++ metaKw c o key name)) :=
  fieldLine_dc hfw hty hn

theorem field_line_base (hfw : c.fw = .base)
    (hty : typingCode c e t = .ok (imps, typing)) (hn : convertFieldName c o key = .ok name) :
    fieldLine c o e key t optional = .ok (imps, name ++ ": " ++ typing) :=
  fieldLine_base hfw hty hn

/-- nothing else can fail in a field line -/
theorem field_line_error {err : PyErr} (h : fieldLine c o e key t optional = .error err) :
    typingCode c e t = .error err ∨ convertFieldName c o key = .error err :=
  fieldLine_error h

/-- pydantic, key not renamed: the suffix is the default itself, present iff the field is optional -/
theorem field_default_pydantic_plain (hfw : c.fw = .pydantic) (hk : key = name)
    (hty : typingCode c e t = .ok (imps, typing)) (hn : convertFieldName c o key = .ok name) :
    fieldLine c o e key t optional =
      .ok (imps, name ++ ": " ++ typing ++
        (match defaultKind optional t with
         | none => ""
         | some d => " = " ++ pydDefaultText d)) := by
  rw [fieldLine_pyd (.inl hfw) hty hn]
  have : pydAliasKw key name ++ sqlPkKw c name t = [] := by
    simp [pydAliasKw, sqlPkKw, hk, hfw, show (Framework.pydantic == Framework.sqlmodel) = false from rfl]
  rw [this]
  cases defaultKind optional t <;> rfl

/-- dataclasses without `meta` (or key not renamed): the three shapes -/
theorem field_default_dataclasses_plain (hfw : c.fw = .dataclasses) (hk : c.withMeta = false ∨ key = name)
    (hty : typingCode c e t = .ok (imps, typing)) (hn : convertFieldName c o key = .ok name) :
    fieldLine c o e key t optional =
      .ok (imps, name ++ ": " ++ typing ++
        (match defaultKind optional t with
         | none => ""
         | some .none => " = None"
         | some .emptyList => " = field(default_factory=list)"
         | some .emptyDict => " = field(default_factory=dict)")) := by
  rw [fieldLine_dc hfw hty hn]
  have : metaKw c o key name = [] := by
    rcases hk with hk | hk <;> simp [metaKw, hk]
  rw [this]
  rcases defaultKind optional t with _ | _ | _ | _ <;> rfl

/-- attrs with post-init converters (no per-field converter), without `meta` (or key not renamed) -/
theorem field_default_attrs_plain (hfw : c.fw = .attrs) (hp : c.postInit = true)
    (hk : c.withMeta = false ∨ key = name)
    (hty : typingCode c e t = .ok (imps, typing)) (hn : convertFieldName c o key = .ok name) :
    fieldLine c o e key t optional =
      .ok (imps, name ++ ": " ++ typing ++
        (match defaultKind optional t with
         | none => " = attr.ib()"
         | some .none => " = attr.ib(default=None)"
         | some .emptyList => " = attr.ib(factory=list)"
         | some .emptyDict => " = attr.ib(factory=dict)")) := by
  rw [fieldLine_attrs hfw hty hn]
  have hm : metaKw c o key name = [] := by
    rcases hk with hk | hk <;> simp [metaKw, hk]
  have hpe : c.postInitEff = true := by simp [RenderCfg.postInitEff, hp, hfw]; decide
  have hc : attrsConvKw c optional t = [] := by simp [attrsConvKw, hpe]
  have hi : attrsConvImps c optional t = [] := by simp [attrsConvImps, hpe]
  rw [hm, hc, hi]
  rcases defaultKind optional t with _ | _ | _ | _ <;>
    simp only [attrsDefaultKw, List.append_nil, String.append_assoc] <;> congr 3

end

/-! ## 5. `alias_iff_renamed` -/

/-- pydantic / sqlmodel: `alias=` is among the `Field(...)` keywords iff the key was renamed, and its text is
    `json.dumps(key, ensure_ascii=False)` -/
theorem alias_iff_renamed (c : RenderCfg) (key name : String) (t : Ty) (v : String) :
    ("alias", v) ∈ pydAliasKw key name ++ sqlPkKw c name t ↔ key ≠ name ∧ v = jsonDumps false key := by
  unfold pydAliasKw sqlPkKw
  by_cases hk : key = name
  · subst hk; simp
  · simp [hk]

/-- the alias text denotes exactly the key: Python reads the token back as the key's code points, for every key -/
theorem alias_roundtrip (key : String) :
    pyLexStr (jsonDumps false key).toList = some (key.toList.map Char.toNat) :=
  J2M.C10.literal_roundtrip_raw_string key

/-- … also in place: whatever follows the token (`)`, `, primary_key=True)`, the rest of the file), the reader
    stops exactly at the closing quote -/
theorem alias_roundtrip_in_context (key : String) (rest : List Char) :
    lexStrTok ((jsonDumps false key).toList ++ rest) = some (key.toList.map Char.toNat, rest) := by
  simpa [jsonDumps] using J2M.Strings.lexStrTok_jsonDumps false key.toList (by simp) rest

/-- pydantic, renamed key: the whole line -/
theorem alias_line_pydantic {c : RenderCfg} {o : RenderOracles} {e : RefEnv} {key : String} {t : Ty} {optional : Bool}
    {imps : List Imp} {typing name : String} (hfw : c.fw = .pydantic) (hk : key ≠ name)
    (hty : typingCode c e t = .ok (imps, typing)) (hn : convertFieldName c o key = .ok name) :
    fieldLine c o e key t optional =
      .ok (imps, name ++ ": " ++ typing ++ " = Field(" ++
        ((defaultKind optional t).map pydDefaultText).getD "..." ++ ", alias=" ++ jsonDumps false key ++ ")") := by
  rw [fieldLine_pyd (.inl hfw) hty hn]
  have : pydAliasKw key name ++ sqlPkKw c name t = [("alias", jsonDumps false key)] := by
    simp [pydAliasKw, sqlPkKw, hk, hfw, show (Framework.pydantic == Framework.sqlmodel) = false from rfl]
  rw [this]
  have hr : renderKwargs [("alias", jsonDumps false key)] = "alias=" ++ jsonDumps false key := by
    show "alias" ++ "=" ++ jsonDumps false key = _
    rw [String.append_assoc]; rfl
  simp only [pydBody, hr, String.append_assoc, List.isEmpty_cons, Bool.false_eq_true, if_false]
  rw [← String.append_assoc (s₁ := ", ") (s₂ := "alias=")]; rfl

/-- attrs / dataclasses: the `metadata=` keyword is emitted iff `meta` is on and the key was renamed; its text is
    `{repr(METADATA_FIELD_NAME): repr(key)}` -/
theorem metadata_iff_renamed (c : RenderCfg) (o : RenderOracles) (key name : String) (v : String) :
    ("metadata", v) ∈ metaKw c o key name ↔
      c.withMeta = true ∧ key ≠ name ∧
      v = "{" ++ pyRepr o.isPrintable c.metadataFieldName ++ ": " ++ pyRepr o.isPrintable key ++ "}" := by
  unfold metaKw
  by_cases hm : c.withMeta = true <;> by_cases hk : key = name <;> simp [hm, hk]

/-- `repr(key)` denotes exactly the key, for every key and whatever `str.isprintable` says about non-ASCII
    characters: the Python reader for single- or double-quoted tokens (`pyLexSingleOrDouble`, LexRepr.lean) reads the
    token back as the key's code points -/
theorem metadata_roundtrip (isPrintable : Char → Bool) (key : String) :
    pyLexSingleOrDouble (pyRepr isPrintable key).toList = some (key.toList.map Char.toNat) := by
  simp [pyRepr, pyLexSingleOrDouble_pyRepr]

theorem metadata_roundtrip_chars (isPrintable : Char → Bool) (s : List Char) :
    pyLexSingleOrDouble (pyReprChars isPrintable s) = some (s.map Char.toNat) :=
  pyLexSingleOrDouble_pyRepr isPrintable s

/-- … also in place (`{'J2M_ORIGINAL_FIELD': <token>}` …): the reader stops exactly at the closing quote -/
theorem metadata_roundtrip_in_context (isPrintable : Char → Bool) (key : String) (rest : List Char) :
    lexReprTok ((pyRepr isPrintable key).toList ++ rest) = some (key.toList.map Char.toNat, rest) := by
  simpa [pyRepr] using lexReprTok_pyRepr isPrintable key.toList rest

-- quote choice: `'` unless the string has a `'` and no `"`; control, Latin-1, BMP and astral escapes
example : pyReprChars (fun _ => false) ['a', '\'', 'b'] = ['"', 'a', '\'', 'b', '"'] := by decide
example : pyReprChars (fun _ => false) ['\'', '"', '\\', '\n', Char.ofNat 7, Char.ofNat 0xe9, Char.ofNat 0x3b1, Char.ofNat 0x1F600]
    = "'\\'\"\\\\\\n\\x07\\xe9\\u03b1\\U0001f600'".toList := by decide
example : pyLexSingleOrDouble (pyReprChars (fun _ => false)
      ['\'', '"', '\\', '\n', Char.ofNat 7, Char.ofNat 0xe9, Char.ofNat 0x3b1, Char.ofNat 0x1F600])
    = some [39, 34, 92, 10, 7, 0xe9, 0x3b1, 0x1F600] := by
  rw [metadata_roundtrip_chars]; decide

-- non-vacuity: a key with a quote, a backslash and a newline
example : jsonDumps false "a\"b\\c\nd" = "\"a\\\"b\\\\c\\nd\"" := by decide
example : pyLexStr (jsonDumps false "a\"b\\c\nd").toList = some [97, 34, 98, 92, 99, 10, 100] := by
  rw [alias_roundtrip]; decide

-- whole field lines, with stand-ins for the third-party string functions (`\W` removal keeps letters/digits/`_`)
private def orcEx : RenderOracles :=
  ⟨⟨some, fun s => some (String.ofList (s.toList.filter (fun ch => ch.isAlphanum || ch == '_'))), some, fun _ => some false⟩,
   fun _ => true⟩
example : convertFieldName cfgP orcEx "a-b" = .ok "ab" := rfl
example : fieldLine cfgP orcEx envP "a-b" (.opt (.list .int)) true
    = .ok ([⟨"typing", some ["List"]⟩, ⟨"typing", some ["Optional"]⟩],
        "ab: Optional[List[int]] = Field([], alias=\"a-b\")") := rfl
example : fieldLine cfgP orcEx envP "ab" (.opt (.dict .int)) true
    = .ok ([⟨"typing", some ["Dict"]⟩, ⟨"typing", some ["Optional"]⟩], "ab: Optional[Dict[str, int]] = {}") := rfl
example : fieldLine cfgP orcEx envP "a-b" .int false = .ok ([], "ab: int = Field(..., alias=\"a-b\")") := rfl
example : fieldLine cfgA orcEx envP "a-b" (.opt (.ser "IntString")) true
    = .ok ([⟨"json_to_models.dynamic_typing", some ["IntString"]⟩, ⟨"typing", some ["Optional"]⟩,
            ⟨"attr.converters", some ["optional"]⟩],
        "ab: Optional[IntString] = attr.ib(default=None, converter=optional(IntString), metadata={'J2M_ORIGINAL_FIELD': 'a-b'})") :=
  rfl
example : fieldLine cfgD orcEx envP "a-b" (.opt (.list .int)) true
    = .ok ([⟨"typing", some ["List"]⟩, ⟨"typing", some ["Optional"]⟩],
        "ab: Optional[List[int]] = field(default_factory=list, metadata={'J2M_ORIGINAL_FIELD': 'a-b'})") := rfl
example : fieldLine { cfgA with postInit := true, withMeta := false } orcEx envP "ab" (.opt (.list (.ser "IntString"))) true
    = .ok ([⟨"json_to_models.dynamic_typing", some ["IntString"]⟩, ⟨"typing", some ["List"]⟩, ⟨"typing", some ["Optional"]⟩],
        "ab: Optional[List[IntString]] = attr.ib(factory=list)") := rfl
example : fieldLine { cfgA with postInit := true, withMeta := false } orcEx envP "ab" (.ser "IntString") false
    = .ok ([⟨"json_to_models.dynamic_typing", some ["IntString"]⟩], "ab: IntString = attr.ib()") := rfl
example : fieldLine cfgD orcEx envP "ab" (.opt .int) true
    = .ok ([⟨"typing", some ["Optional"]⟩], "ab: Optional[int] = None") := rfl

end J2M.C04
