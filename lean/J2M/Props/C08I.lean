/-
  C08 at the REGISTRY stage, second half — "re-running simplification on an already simplified model graph changes
  nothing and never fails": the result of `merge_models` is a FIXED POINT of `optimize_type`.

  `C08M` proves that after `buildGraph` + `merge_models` every field is in normal form (`nf`).  `nf` does not record
  the member order of a union nor the order of a literal set, so it does not give the identity of a further pass.
  The invariant that does (helpers `J2M/Proofs/ThirdPass{A,B,LitK,Pipeline}.lean`):

  * `rawK cfg t`   — representation invariant of literal sets (`Proofs/OptimizeNFC.lean`): a non-overflowed
                     `StringLiteral` holds a sorted, duplicate-free list within the limits (the model keeps a Python
                     `set` as a sorted list; `Ty.lit`: "vals sorted, duplicate-free").  Kept by `_detect_type`,
                     `merge_field_sets`, `DUnion`, `optimize_type`, `process_meta_data` and pointer retargeting
                     (`litK`: the same without "distinct keys of inline dicts", proved for ALL inputs — section 2).
  * `stable cfg t` — the fixed-point class: a chain of `List`/`Dict`/`Optional` (no `Optional` directly in
                     `Optional`) over a CANONICAL normal form `C08.nfc` (`nf` + member order of
                     `_optimize_union`/`DUnion` + sorted literal sets + no `Optional[None]` element type).
                     `nfc ⊆ stable ⊆ nf`.  The two levels are needed: `List[Optional[None]]` alone IS a fixed point,
                     `Union[int, List[Optional[None]]]` is NOT (`nonexample` below).
  * ONE pass on an `out` type (`C08M`: "one pass from normal") with `rawK` gives a `stable` type
    (`optimize_out_stable`), and `optimize_type` is the identity on `stable` types (`optimize_stable_id`).
    So for admissible merged metadata: the SECOND pass already returns a fixed point (`optimize_third_pass_id`) —
    and the first pass does not (`C08M.optimize_once_nf_false`).
  * `registry_stable`: every field of every model after `buildGraph` + `merge_models` is a fixed point.
-/
import J2M.Props.C08M
import J2M.Proofs.ThirdPassPipeline
namespace J2M.C08I
open J2M J2M.C08P J2M.TwoPass J2M.ThirdPass

/-! ## 0. the classes -/

/-- the fixed-point class, by constructor: below `List`/`Dict`/`Optional` it recurses, everywhere else it is the
    canonical normal form `nfc` of `C08` -/
example (cfg : GenCfg) (t : Ty) (ts : List Ty) (k : String) (ov : Bool) (vs : List String) :
    stable cfg (.list t) = stable cfg t ∧ stable cfg (.dict t) = stable cfg t ∧
    stable cfg (.opt t) = (!t.isOpt && stable cfg t) ∧ stable cfg (.union ts) = nfc cfg (.union ts) ∧
    stable cfg (.ser k) = nfc cfg (.ser k) ∧ stable cfg (.lit ov vs) = nfc cfg (.lit ov vs) ∧
    stable cfg (.ptr k) = true ∧ stable cfg .int = true := by
  simp [stable, nfc]

/-- a canonical normal form is `stable` -/
theorem nfc_stable (cfg : GenCfg) (t : Ty) (h : nfc cfg t = true) : stable cfg t = true :=
  ThirdPass.nfc_stable cfg t h

/-- a `stable` type is a normal form (`Sem.nf`) -/
theorem stable_nf (cfg : GenCfg) (t : Ty) (h : stable cfg t = true) : nf t = true :=
  ThirdPass.stable_nf cfg t h

/-- `rawK` on registry-stage metadata only looks at the literal sets -/
example (cfg : GenCfg) (t : Ty) (ts : List Ty) (k : String) (ov : Bool) (vs : List String) :
    rawK cfg (.lit ov vs) = (ov || litStable cfg.lit vs) ∧ rawK cfg (.list t) = rawK cfg t ∧
    rawK cfg (.dict t) = rawK cfg t ∧ rawK cfg (.opt t) = rawK cfg t ∧ rawK cfg (.union ts) = rawKList cfg ts ∧
    rawK cfg (.ptr k) = true ∧ rawK cfg (.ser k) = true ∧ rawK cfg .int = true := by
  simp [rawK]

/-- `rawK` (and `out`, `adm`: `TwoPass.out_subst`, `adm_subst`) do not look at pointer targets -/
theorem rawK_retarget (cfg : GenCfg) (σ : String → String) (t : Ty) :
    rawK cfg (Reg.substTy σ t) = rawK cfg t := ThirdPass.rawK_subst cfg σ t

/-! ## 1. `optimize_type` is the identity on `stable` types -/

/-- **optimize_stable_id**: whatever the comparison environment, for every fuel `≥ 4 * size t`, `optimize_type`
    returns a `stable` type unchanged — no change, no error (extends `C08.optimize_idem` from `nfc` to `stable`) -/
theorem optimize_stable_id (cfg : GenCfg) (e : EqEnv) (t : Ty) (h : stable cfg t = true) (fuel : Nat)
    (hf : 4 * t.size ≤ fuel) : optimize cfg e fuel t = .ok t :=
  optimize_stable cfg e t h fuel hf

/-- with the fuel `optimize_type` is given in the registry (`Ty.fuelFor t = 10 * size t + 10`) -/
theorem optimize_stable_id_fuelFor (cfg : GenCfg) (e : EqEnv) (t : Ty) (h : stable cfg t = true) :
    optimize cfg e (Ty.fuelFor t) t = .ok t :=
  optimize_stable_id cfg e t h _ (by unfold Ty.fuelFor; omega)

open J2M.TwoPass.W in
/-- non-vacuity: `List[Optional[None]]` is `stable` and not `nfc`; the merged field `tW3` of `C08M` is `stable` -/
example : stable cfgW (.list (.opt .null)) = true ∧ nfc cfgW (.list (.opt .null)) = false ∧
    stable cfgW tW3 = true := by decide

/-! ## 2. ONE pass from `out` reaches the fixed-point class -/

/-- **optimize_out_stable**: whatever the fuel and the comparison environment, if `optimize_type` returns on an
    `out` type ("one pass from normal", `C08M`) whose literal sets are sorted, the result is `stable` -/
theorem optimize_out_stable (cfg : GenCfg) (e : EqEnv) (fuel : Nat) (t t' : Ty) (ht : out cfg t = true)
    (hk : rawK cfg t = true) (h : optimize cfg e fuel t = .ok t') : stable cfg t' = true :=
  ThirdPass.optimize_out_stable cfg e fuel t t' ht hk h

/-- `optimize_type` keeps literal sets sorted (admissible metadata; any fuel, any environment) -/
theorem optimize_rawK (cfg : GenCfg) (e : EqEnv) (fuel : Nat) (t t' : Ty) (ht : adm cfg t = true)
    (hk : rawK cfg t = true) (h : optimize cfg e fuel t = .ok t') : rawK cfg t' = true :=
  optimize_adm_rawK cfg e fuel t t' ht hk h

/-- so does `merge_field_sets` (`C08P.mergeFieldSets_rawK`, restated) -/
theorem mergeFieldSets_rawK {cfg : GenCfg} {e : EqEnv} {sets : List Fields} {r : Fields}
    (hsets : ∀ m ∈ sets, ∀ kv ∈ m, rawK cfg kv.2 = true) (h : mergeFieldSets cfg.lit e sets = .ok r) :
    ∀ kv ∈ r, rawK cfg kv.2 = true :=
  (C08P.mergeFieldSets_rawK hsets h).2

/-- `litK`: `rawK` without the condition "inline dicts have distinct keys"; on `out` types they coincide -/
theorem out_litK_rawK (cfg : GenCfg) (t : Ty) (ho : out cfg t = true) (hk : litK cfg t = true) :
    rawK cfg t = true := ThirdPass.out_litK_rawK cfg t ho hk

/-- **optimize_litK**: `optimize_type` keeps literal sets sorted on ANY metadata (inline dicts, tuples, hidden
    unions …), any fuel, any comparison environment -/
theorem optimize_litK (cfg : GenCfg) (e : EqEnv) (fuel : Nat) (t t' : Ty) (hk : litK cfg t = true)
    (h : optimize cfg e fuel t = .ok t') : litK cfg t' = true :=
  ThirdPass.optimize_litK cfg e fuel t t' hk h

/-- **generate_litK**: every result of `MetadataGenerator.generate` has sorted literal sets — all samples (JSON
    objects with repeated keys included), oracles, options -/
theorem generate_litK {cfg : GenCfg} {o : GenOracles} {samples : List Json} {t : Ty}
    (h : generate cfg o samples = .ok t) : litK cfg t = true :=
  ThirdPass.generate_litK h

/-- non-vacuity: the generator result of the `C08M` document -/
example : generate W.cfgW W.oW [W.sW] = .ok (.obj W.gW) ∧ litK W.cfgW (.obj W.gW) = true :=
  ⟨W.generateW, generate_litK W.generateW⟩

/-! ## 3. the third pass is the identity -/

/-- **optimize_third_pass_id**: for every admissible `t` with sorted literal sets — in particular every field type
    `_merge` builds (`C08M.mergeFieldSets_NFm`, `mergeFieldSets_rawK`) — if two `optimize_type` passes return `t1`
    and `t2`, then a third pass returns exactly `t2`: no change, no error.  Any fuels and comparison environments
    for the first two passes (they may differ), any environment and any fuel `≥ 4 * size t2` for the third. -/
theorem optimize_third_pass_id (cfg : GenCfg) (e e' e'' : EqEnv) (f f' f'' : Nat) (t t1 t2 : Ty)
    (ht : adm cfg t = true) (hk : rawK cfg t = true) (h1 : optimize cfg e f t = .ok t1)
    (h2 : optimize cfg e' f' t1 = .ok t2) (hf : 4 * t2.size ≤ f'') : optimize cfg e'' f'' t2 = .ok t2 :=
  optimize_stable_id cfg e'' t2
    (optimize_out_stable cfg e' f' t1 t2 (optimize_adm_out cfg e f t t1 ht h1) (optimize_rawK cfg e f t t1 ht hk h1) h2)
    f'' hf

/-- the same with the pointer retargeting `_merge` performs BETWEEN the two passes (`merge_models` optimises a
    merged model, merges further groups — which redirects pointers everywhere —, then runs the final pass) -/
theorem optimize_third_pass_id_retarget (cfg : GenCfg) (e e' e'' : EqEnv) (f f' f'' : Nat) (σ : String → String)
    (t t1 t2 : Ty) (ht : adm cfg t = true) (hk : rawK cfg t = true) (h1 : optimize cfg e f t = .ok t1)
    (h2 : optimize cfg e' f' (Reg.substTy σ t1) = .ok t2) (hf : 4 * t2.size ≤ f'') :
    optimize cfg e'' f'' t2 = .ok t2 :=
  optimize_stable_id cfg e'' t2
    (optimize_out_stable cfg e' f' _ t2 (by rw [out_subst]; exact optimize_adm_out cfg e f t t1 ht h1)
      (by rw [rawK_retarget]; exact optimize_rawK cfg e f t t1 ht hk h1) h2)
    f'' hf

/-- with the registry's fuel -/
theorem optimize_third_pass_id_fuelFor (cfg : GenCfg) (e e' e'' : EqEnv) (f f' : Nat) (t t1 t2 : Ty)
    (ht : adm cfg t = true) (hk : rawK cfg t = true) (h1 : optimize cfg e f t = .ok t1)
    (h2 : optimize cfg e' f' t1 = .ok t2) : optimize cfg e'' (Ty.fuelFor t2) t2 = .ok t2 :=
  optimize_third_pass_id cfg e e' e'' f f' _ t t1 t2 ht hk h1 h2 (by unfold Ty.fuelFor; omega)

/-- **optimize_merged_third_pass_id**: the same, stated for a field of `merge_field_sets` of simplified field sets
    (what `_merge` builds from the fields of registered models) -/
theorem optimize_merged_third_pass_id {cfg : GenCfg} {e0 e e' e'' : EqEnv} {f f' f'' : Nat} {sets : List Fields}
    {r : Fields} (hsets : ∀ m ∈ sets, ∀ kv ∈ m, out cfg kv.2 = true)
    (hsetsK : ∀ m ∈ sets, ∀ kv ∈ m, rawK cfg kv.2 = true) (hm : mergeFieldSets cfg.lit e0 sets = .ok r)
    {kv : String × Ty} (hkv : kv ∈ r) {t1 t2 : Ty} (h1 : optimize cfg e f kv.2 = .ok t1)
    (h2 : optimize cfg e' f' t1 = .ok t2) (hf : 4 * t2.size ≤ f'') : optimize cfg e'' f'' t2 = .ok t2 :=
  optimize_third_pass_id cfg e e' e'' f f' f'' kv.2 t1 t2 (C08M.mergeFieldSets_NFm hsets hm kv hkv)
    (mergeFieldSets_rawK hsetsK hm kv hkv) h1 h2 hf

open J2M.TwoPass.W in
/-- non-vacuity of `optimize_merged_third_pass_id`: the field sets of `C08M.mergeFieldSets_NFm`'s example are `out`
    with sorted literal sets -/
example (so : StrOracle) :
    (∀ m ∈ [[("g", Ty.int), ("f", fB)], [("g", Ty.int), ("f", fA)]], ∀ kv ∈ m, out cfgW kv.2 = true) ∧
    (∀ m ∈ [[("g", Ty.int), ("f", fB)], [("g", Ty.int), ("f", fA)]], ∀ kv ∈ m, rawK cfgW kv.2 = true) ∧
    mergeFieldSets cfgW.lit (g0W.eqEnv so) [[("g", .int), ("f", fB)], [("g", .int), ("f", fA)]] =
      .ok [("g", .int), ("f", tW)] :=
  ⟨by decide, by decide, mergeFieldsW so⟩

open J2M.TwoPass.W in
/-- non-vacuity, on the three residue inputs of `C08M`: each is admissible with sorted literal sets, the first pass
    does NOT return a fixed point (the second pass changes it), the third pass is the identity -/
example (e : EqEnv) :
    (adm cfgW tU = true ∧ rawK cfgW tU = true ∧ optimize cfgW e 9 tU = .ok tU1 ∧ optimize cfgW e 9 tU1 = .ok tU2 ∧
      tU1 ≠ tU2 ∧ optimize cfgW e 16 tU2 = .ok tU2) ∧
    (adm cfgW tI = true ∧ rawK cfgW tI = true ∧ optimize cfgW e 9 tI = .ok tI1 ∧ optimize cfgW e 9 tI1 = .ok tI2 ∧
      tI1 ≠ tI2 ∧ optimize cfgW e 16 tI2 = .ok tI2) ∧
    (adm cfgS tS = true ∧ rawK cfgS tS = true ∧ optimize cfgS e 9 tS = .ok tS1 ∧ optimize cfgS e 9 tS1 = .ok tS2 ∧
      tS1 ≠ tS2 ∧ optimize cfgS e 16 tS2 = .ok tS2) := by
  refine ⟨⟨by decide, by decide, tU_pass1 e 0, tU_pass2 e 0, by simp [tU1, tU2], ?_⟩,
    ⟨by decide, by decide, tI_pass1 e 0, tI_pass2 e 0, by simp [tI1, tI2], ?_⟩,
    ⟨by decide, by decide, tS_pass1 e 0, tS_pass2 e 0, by simp [tS1, tS2], ?_⟩⟩
  · exact optimize_third_pass_id cfgW e e e 9 9 16 tU tU1 tU2 (by decide) (by decide) (tU_pass1 e 0) (tU_pass2 e 0)
      (by decide)
  · exact optimize_third_pass_id cfgW e e e 9 9 16 tI tI1 tI2 (by decide) (by decide) (tI_pass1 e 0) (tI_pass2 e 0)
      (by decide)
  · exact optimize_third_pass_id cfgS e e e 9 9 16 tS tS1 tS2 (by decide) (by decide) (tS_pass1 e 0) (tS_pass2 e 0)
      (by decide)

/-- the statement "ONE pass after `_merge` already returns a fixed point" -/
def optimize_second_pass_id_Statement : Prop :=
  ∀ (cfg : GenCfg) (e e' : EqEnv) (f f' : Nat) (t t1 : Ty), adm cfg t = true → rawK cfg t = true →
    optimize cfg e f t = .ok t1 → 4 * t1.size ≤ f' → optimize cfg e' f' t1 = .ok t1

/-- … is FALSE (model and Python code): the residues of `C08M` are changed by the second pass -/
theorem optimize_second_pass_id_false : ¬ optimize_second_pass_id_Statement := by
  intro H
  have h := H W.cfgW W.eW W.eW 9 (11 + 9) W.tU W.tU1 (by decide) (by decide) (W.tU_pass1 W.eW 0) (by decide)
  rw [W.tU_pass2 W.eW 11] at h
  simp [W.tU1, W.tU2] at h

/-! ## 4. retargeting AFTER the last pass would break the fixed point

`merge_models` runs its final pass after every `_merge`; this is needed: redirecting two pointers of a union to the
same merged model makes them equal, and only a further pass folds them. -/

set_option linter.unusedSimpArgs false in
/-- `Union[1B, 1C]` is `stable`; after `_merge` of `1B`, `1C` into `1D` it is `Union[1D, 1D]`, which a pass turns
    into `1D` -/
example (e : EqEnv) :
    stable W.cfgW (.union [.ptr "1B", .ptr "1C"]) = true ∧
    Reg.substTy (Reg.σOf ["1B", "1C"] "1D") (.union [.ptr "1B", .ptr "1C"]) = .union [.ptr "1D", .ptr "1D"] ∧
    stable W.cfgW (.union [.ptr "1D", .ptr "1D"]) = false ∧
    optimize W.cfgW e 9 (.union [.ptr "1D", .ptr "1D"]) = .ok (.ptr "1D") := by
  refine ⟨by decide, by simp +decide [Reg.substTy, Reg.substList, Reg.σOf], by decide, ?_⟩
  simp +decide [optimize, optimizeUnion, splitMembers, splitMembersAux, Ty.size, Ty.sizeList,
    Ty.isInt, Ty.isFloat, Ty.isStr, Ty.isUnknown, Ty.isNull, bind, Except.bind, pure, Except.pure, mkUnion,
    mkUnionMembers, flattenUnion, handleType, hashStr, hashStrs, removeFirst, W.cfgW, insertUniq, mkLit]

/-! ## 5. the pipeline -/

/-- every field of every registered model has sorted literal sets -/
abbrev AllK := ThirdPass.AllK

/-- every field of every registered model is `stable` -/
abbrev AllStable := ThirdPass.AllStable

theorem allK_iff (cfg : GenCfg) (g : Graph) :
    AllK cfg g ↔ g.models.all (fun m => m.fields.all (fun kv => rawK cfg kv.2)) = true := by
  simp [ThirdPass.AllK, List.all_eq_true]

/-- **buildGraph_rawK**: after `generate` + `process_meta_data` of every named sample list, every field of every
    registered model has sorted literal sets — all inputs, options, oracles (no hypothesis; in particular JSON
    objects with repeated keys, which `C08.generate_nfc` excludes, are covered) -/
theorem buildGraph_rawK {cfg : GenCfg} {o : GenOracles} {inputs : List (String × List Json)} {g : Graph}
    (h : buildGraph cfg o inputs = .ok g) : AllK cfg g :=
  buildGraph_allK h

/-- **mergeModels_stable**: if every field of every registered model is `out` with sorted literal sets, then after
    `merge_models` (any comparators, any string oracle) every field of every registered model is `stable` — and the
    hypotheses hold again, so the statement iterates over further `merge_models` calls -/
theorem mergeModels_stable {cfg : GenCfg} {so : StrOracle} {cmps : List Cmp} {g g' : Graph}
    {repl : List (String × List String)} (hg : C08M.AllOut cfg g) (hk : AllK cfg g)
    (h : mergeModels cfg so cmps g = .ok (g', repl)) :
    AllStable cfg g' ∧ C08M.AllOut cfg g' ∧ AllK cfg g' :=
  ⟨(ThirdPass.mergeModels_stable hg hk h).1, (C08M.mergeModels_nf hg h).2, (ThirdPass.mergeModels_stable hg hk h).2⟩

/-- **registry_stable (C08, second half, through the registry)**: for all inputs, options, oracles and comparators
    (no hypothesis) — after `generate` + `process_meta_data` of every named sample list and
    `merge_models`, every field type of every registered model is a FIXED POINT of `optimize_type`: for every
    comparison environment `e` and every fuel `≥ 4 * size` a further pass returns the field type unchanged and does
    not fail. -/
theorem registry_stable {cfg : GenCfg} {o : GenOracles} {cmps : List Cmp} {inputs : List (String × List Json)}
    {g0 g1 : Graph} {repl : List (String × List String)}
    (h0 : buildGraph cfg o inputs = .ok g0) (h1 : mergeModels cfg o.str cmps g0 = .ok (g1, repl)) :
    ∀ m ∈ g1.models, ∀ kv ∈ m.fields, ∀ (e : EqEnv) (fuel : Nat), 4 * kv.2.size ≤ fuel →
      optimize cfg e fuel kv.2 = .ok kv.2 :=
  fun m hm kv hkv e fuel hf =>
    optimize_stable_id cfg e kv.2
      ((mergeModels_stable (C08M.buildGraph_out h0) (buildGraph_rawK h0) h1).1 m hm kv hkv) fuel hf

/-- in the environment and with the fuel of the registry's own `optimize_type` calls -/
theorem registry_stable_fuelFor {cfg : GenCfg} {o : GenOracles} {cmps : List Cmp}
    {inputs : List (String × List Json)} {g0 g1 : Graph} {repl : List (String × List String)}
    (h0 : buildGraph cfg o inputs = .ok g0) (h1 : mergeModels cfg o.str cmps g0 = .ok (g1, repl)) (so : StrOracle) :
    ∀ m ∈ g1.models, ∀ kv ∈ m.fields, optimize cfg (g1.eqEnv so) (Ty.fuelFor kv.2) kv.2 = .ok kv.2 :=
  fun m hm kv hkv => registry_stable h0 h1 m hm kv hkv _ _ (by unfold Ty.fuelFor; omega)

/-- **registry_model_stable**: `generator.optimize_type(model_meta)` on any model of the merged registry — the very
    call `merge_models` makes — returns the model's field dict unchanged -/
theorem registry_model_stable {cfg : GenCfg} {o : GenOracles} {cmps : List Cmp}
    {inputs : List (String × List Json)} {g0 g1 : Graph} {repl : List (String × List String)}
    (h0 : buildGraph cfg o inputs = .ok g0) (h1 : mergeModels cfg o.str cmps g0 = .ok (g1, repl)) (e : EqEnv) :
    ∀ m ∈ g1.models, optimize cfg e (Ty.fuelFor (.obj m.fields)) (.obj m.fields) = .ok (.obj m.fields) := by
  intro m hm
  have hfix := registry_stable h0 h1 m hm
  have hF : Ty.fuelFor (.obj m.fields) = (10 * Ty.sizeFields m.fields + 19) + 1 := by
    simp only [Ty.fuelFor, Ty.size]; omega
  rw [hF, optimize, mapM_ok_id]
  · rfl
  · intro kv hkv
    have := Ty.size_le_sizeFields hkv
    rw [hfix kv hkv e _ (by omega)]; rfl

/-- the registry result is `stable` (hence in normal form: `C08M.registry_nf` again) -/
theorem registry_stable_class {cfg : GenCfg} {o : GenOracles} {cmps : List Cmp}
    {inputs : List (String × List Json)} {g0 g1 : Graph} {repl : List (String × List String)}
    (h0 : buildGraph cfg o inputs = .ok g0) (h1 : mergeModels cfg o.str cmps g0 = .ok (g1, repl)) :
    AllStable cfg g1 :=
  (mergeModels_stable (C08M.buildGraph_out h0) (buildGraph_rawK h0) h1).1

open J2M.TwoPass.W in
/-- non-vacuity, on the document of `C08M`
    `{"p": {"g": 1, "f": [1.5]}, "q": [{"g": 1, "f": [1, "a", null]}, {"g": 1, "f": true}, {"g": 1}]}`
    with the default merge policy of the CLI: `1B`/`1C` merged into `1D`, and the merged field
    `f: Optional[Union[bool, List[Optional[Union[float, 'a']]]]]` is a fixed point -/
example (e : EqEnv) :
    buildGraph cfgW oW [("Root", [sW])] = .ok g0W ∧
    mergeModels cfgW oW.str cmpsW g0W = .ok (g2W, [("1D", ["1B", "1C"])]) ∧
    ({ idx := "1D", fields := [("g", .int), ("f", tW3)] } : Model) ∈ g2W.models ∧
    optimize cfgW e (Ty.fuelFor tW3) tW3 = .ok tW3 := by
  have hmem : ({ idx := "1D", fields := [("g", .int), ("f", tW3)] } : Model) ∈ g2W.models := by simp [g2W]
  exact ⟨buildW, mergeW oW.str, hmem,
    registry_stable buildW (mergeW oW.str) _ hmem ("f", tW3) (by simp) e _
      (by show 4 * tW3.size ≤ Ty.fuelFor tW3; unfold Ty.fuelFor; omega)⟩

open J2M.TwoPass.W in
/-- non-vacuity of `mergeModels_stable` on the registry `g0U` of `C08M.mergeModels_final_pass_needed` (the
    `buildGraph` of `[{"p": {"x": [null]}, "q": {"x": []}, "r": {"x": [1]}}, {"p": {"x": []}, ...}]`): the merged
    field `x: List[Optional[int]]` is a fixed point, while WITHOUT the final pass the registry holds
    `x: List[Optional[Union[int, Any]]]`, which a further pass changes -/
example (so : StrOracle) (e : EqEnv) :
    C08M.AllOut cfgW g0U ∧ AllK cfgW g0U ∧
    mergeModels cfgW so cmpsW g0U = .ok (gU tU2, [("1E", ["1B", "1C", "1D"])]) ∧ AllStable cfgW (gU tU2) ∧
    mergeModelsNoFinal cfgW so cmpsW g0U = .ok (gU tU1, [("1E", ["1B", "1C", "1D"])]) ∧
    optimize cfgW e 9 tU1 = .ok tU2 ∧ tU1 ≠ tU2 := by
  have h0 : C08M.AllOut cfgW g0U := (C08M.allOut_iff _ _).mpr (by decide)
  have hk : AllK cfgW g0U := (allK_iff _ _).mpr (by decide)
  exact ⟨h0, hk, mergeU so, (mergeModels_stable h0 hk (mergeU so)).1, noFinalU so, tU_pass2 e 0,
    by simp [tU1, tU2]⟩

/-! ## 6. the known non-example `Union[int, List[Optional[None]]]`

It is a normal form (`nf`), it is even `out` — so neither `nf` nor `out` excludes it — and it is NOT a fixed point:
a pass rewrites it to `Union[int, List[Optional[Any]]]`.  It is not `stable`; hence (sections 2 and 5) it is never
the result of a pass on an `out` type and never a field of the merged registry. -/

/-- `Union[int, List[Optional[None]]]` -/
def tN : Ty := .union [.int, .list (.opt .null)]
/-- `Union[int, List[Optional[Any]]]` -/
def tN1 : Ty := .union [.int, .list (.opt .unknown)]

set_option maxRecDepth 100000 in
set_option linter.unusedSimpArgs false in
theorem tN_pass (e : EqEnv) (n : Nat) : optimize W.cfgW e (n + 9) tN = .ok tN1 := by
  simp +decide [tN, tN1, optimize, optimizeUnion, splitMembers, splitMembersAux, Ty.size, Ty.sizeList,
    Ty.isInt, Ty.isFloat, Ty.isStr, Ty.isUnknown, Ty.isNull, bind, Except.bind, pure, Except.pure, mkUnion,
    mkUnionMembers, flattenUnion, handleType, hashStr, hashStrs, removeFirst, W.cfgW, insertUniq, mkLit]

/-- the non-example: normal, `out`, sorted literal sets, not a fixed point, not `stable`; its image is `stable` -/
theorem nonexample (e : EqEnv) :
    nf tN = true ∧ out W.cfgW tN = true ∧ rawK W.cfgW tN = true ∧ optimize W.cfgW e 9 tN = .ok tN1 ∧ tN ≠ tN1 ∧
    stable W.cfgW tN = false ∧ stable W.cfgW tN1 = true :=
  ⟨by decide, by decide, by decide, tN_pass e 0, by simp [tN, tN1], by decide, by decide⟩

/-- for every configuration: a `stable` union has no member `List[Optional[None]]` / `Dict[Optional[None]]` -/
theorem stable_union_no_optNull (cfg : GenCfg) (ms : List Ty) (h : stable cfg (.union ms) = true) :
    Ty.list (.opt .null) ∉ ms ∧ Ty.dict (.opt .null) ∉ ms := by
  have h' : nfc cfg (.union ms) = true := h
  simp only [nfc, Bool.and_eq_true] at h'
  have hm := (nfcList_iff cfg ms).mp h'.2
  constructor
  · intro hmem; have := hm _ hmem; simp [nfc, Ty.isOptNull] at this
  · intro hmem; have := hm _ hmem; simp [nfc, Ty.isOptNull] at this

/-- **merging never builds the non-example**: no field of the merged registry is a union with a member
    `List[Optional[None]]` (or `Dict[Optional[None]]`); in particular none is `Union[int, List[Optional[None]]]` -/
theorem registry_no_optNull_member {cfg : GenCfg} {o : GenOracles} {cmps : List Cmp}
    {inputs : List (String × List Json)} {g0 g1 : Graph} {repl : List (String × List String)}
    (h0 : buildGraph cfg o inputs = .ok g0) (h1 : mergeModels cfg o.str cmps g0 = .ok (g1, repl)) :
    ∀ m ∈ g1.models, ∀ kv ∈ m.fields, ∀ ms, kv.2 = .union ms →
      Ty.list (.opt .null) ∉ ms ∧ Ty.dict (.opt .null) ∉ ms := by
  intro m hm kv hkv ms he
  have := registry_stable_class h0 h1 m hm kv hkv
  rw [he] at this
  exact stable_union_no_optNull cfg ms this

/-- the same for the result of ONE pass on any `out` type with sorted literal sets (so: for the result of the second
    pass on anything `_merge` builds) -/
theorem optimize_out_no_optNull_member (cfg : GenCfg) (e : EqEnv) (fuel : Nat) (t : Ty) (ms : List Ty)
    (ht : out cfg t = true) (hk : rawK cfg t = true) (h : optimize cfg e fuel t = .ok (.union ms)) :
    Ty.list (.opt .null) ∉ ms ∧ Ty.dict (.opt .null) ∉ ms :=
  stable_union_no_optNull cfg ms (optimize_out_stable cfg e fuel t _ ht hk h)

end J2M.C08I

#print axioms J2M.C08I.nfc_stable
#print axioms J2M.C08I.stable_nf
#print axioms J2M.C08I.rawK_retarget
#print axioms J2M.C08I.optimize_stable_id
#print axioms J2M.C08I.optimize_stable_id_fuelFor
#print axioms J2M.C08I.optimize_out_stable
#print axioms J2M.C08I.optimize_rawK
#print axioms J2M.C08I.mergeFieldSets_rawK
#print axioms J2M.C08I.optimize_third_pass_id
#print axioms J2M.C08I.optimize_third_pass_id_retarget
#print axioms J2M.C08I.optimize_third_pass_id_fuelFor
#print axioms J2M.C08I.optimize_merged_third_pass_id
#print axioms J2M.C08I.out_litK_rawK
#print axioms J2M.C08I.optimize_litK
#print axioms J2M.C08I.generate_litK
#print axioms J2M.C08I.optimize_second_pass_id_false
#print axioms J2M.C08I.buildGraph_rawK
#print axioms J2M.C08I.mergeModels_stable
#print axioms J2M.C08I.registry_stable
#print axioms J2M.C08I.registry_stable_fuelFor
#print axioms J2M.C08I.registry_model_stable
#print axioms J2M.C08I.registry_stable_class
#print axioms J2M.C08I.tN_pass
#print axioms J2M.C08I.nonexample
#print axioms J2M.C08I.stable_union_no_optNull
#print axioms J2M.C08I.registry_no_optNull_member
#print axioms J2M.C08I.optimize_out_no_optNull_member
