/-
  C03 / C11 (class names part) — "class names are unique": `generate_code` first converts the class name of every model
  of the structure (`_prepare_class_names`, models/base.py) and then, in a `while True` loop, appends the model index to
  every converted name that is shared with another model, until all names are different.

  Model: `preorder` (the `walk`), `nameOf`, `dedupRound` (one round of the loop), `dedupLoop`, `prepareNames`
  (`J2M/Render.lean`); `generateCode` starts with `prepareNames`.
  Helper development: `J2M/Proofs/PrepNames.lean`, `J2M/Proofs/Render2Twice.lean` §13–14.

  1. `dedupLoop_distinct` / `dedupLoop_names_nodup`: the loop only exits with pairwise distinct names.
  2. `prepareNames_distinct`, `prepareNames_same_keys`.
  3. `dedupRound_noop`, `dedupLoop_noop`, `prepareNames_of_distinct`: names that are distinct after the conversion are
     left alone.
  4. `generateCode_class_names_distinct`: the classes of the emitted module have pairwise distinct names, when the
     conversion in the generator constructors leaves the prepared names alone (`ConvFix`).
  5. `dedup_layout_independent`, `dedupLoop_layout_independent`, `prepareNames_layout_independent`: the prepared names
     do not depend on the order in which the structure (flat or nested) enumerates the models.
-/
import J2M.Proofs.PrepNames
import J2M.Proofs.Render2Twice
import J2M.Proofs.Render2Eval
namespace J2M.C03N
open J2M J2M.Rend2 J2M.PrepNames

/-- the name table `generate_code` starts from: the names recorded in the registry -/
abbrev names0 (g : Graph) : NameMap := g.models.map (fun m => (m.idx, m.name))

/-- generator creation order of a structure (nested classes before the enclosing class) -/
abbrev postL := Rend2.postL

/-- `DistinctOn N is`: the names recorded in `N` for the models in `is` are pairwise distinct -/
def DistinctOn (N : NameMap) (is : List String) : Prop :=
  ∀ i ∈ is, ∀ j ∈ is, i ≠ j → nameOf N i ≠ nameOf N j

theorem distinctOn_iff {N : NameMap} {is : List String} : DistinctOn N is ↔ PrepNames.DistinctOn N is := Iff.rfl

/-- "no two entries of the list of current names coincide" = the enumeration lists no model twice, and different
    models have different names -/
theorem names_nodup_iff {N : NameMap} {is : List String} :
    (is.map (nameOf N)).Nodup ↔ is.Nodup ∧ DistinctOn N is := nodup_map_distinct

/-! ## 1. the loop ends with pairwise distinct names -/

/-- **dedupLoop_names_nodup**: the loop exits only through the `not duplicates` branch — the list of final names of
    the enumerated models has no repetition.  (In particular the loop runs out of fuel — Python: never ends — when the
    enumeration lists a model twice.) -/
theorem dedupLoop_names_nodup {idxs : List String} {fuel : Nat} {names N : NameMap}
    (h : dedupLoop idxs fuel names = .ok N) : (idxs.map (nameOf N)).Nodup :=
  dedupLoop_nodup fuel names N h

/-- **dedupLoop_distinct**: the final names of the models in `idxs` are pairwise distinct (no hypothesis on `idxs` is
    needed; `idxs.Nodup` is a consequence: `dedupLoop_idxs_nodup`) -/
theorem dedupLoop_distinct {idxs : List String} {fuel : Nat} {names N : NameMap}
    (h : dedupLoop idxs fuel names = .ok N) :
    ∀ i ∈ idxs, ∀ j ∈ idxs, i ≠ j → nameOf N i ≠ nameOf N j :=
  (names_nodup_iff.mp (dedupLoop_names_nodup h)).2

theorem dedupLoop_idxs_nodup {idxs : List String} {fuel : Nat} {names N : NameMap}
    (h : dedupLoop idxs fuel names = .ok N) : idxs.Nodup :=
  (names_nodup_iff.mp (dedupLoop_names_nodup h)).1

/-- the loop changes names only: same models, in the same order; models outside `idxs` keep their names -/
theorem dedupLoop_same_keys {idxs : List String} {fuel : Nat} {names N : NameMap}
    (h : dedupLoop idxs fuel names = .ok N) :
    N.map (·.1) = names.map (·.1) ∧ ∀ j, j ∉ idxs → nameOf N j = nameOf names j :=
  ⟨dedupLoop_keys fuel names N h, fun _ hj => dedupLoop_outside hj fuel names N h⟩

/-! ## 2. `_prepare_class_names` -/

/-- **prepareNames_distinct** -/
theorem prepareNames_distinct {c : RenderCfg} {o : RenderOracles} {names N : NameMap} {roots : List Node}
    {idxs : List String} (h : prepareNames c o names roots = .ok N)
    (hidx : preorder (names.length + 2) roots = .ok idxs) :
    idxs.Nodup ∧ ∀ i ∈ idxs, ∀ j ∈ idxs, i ≠ j → nameOf N i ≠ nameOf N j :=
  names_nodup_iff.mp (prepareNames_nodup h hidx)

/-- the same over the order in which `_generate_code` creates the generators -/
theorem prepareNames_distinct_post {c : RenderCfg} {o : RenderOracles} {names N : NameMap} {roots : List Node}
    (h : prepareNames c o names roots = .ok N) : (postL roots).Nodup ∧ DistinctOn N (postL roots) :=
  names_nodup_iff.mp (prepareNames_nodup_post h)

/-- **prepareNames_same_keys**: only names change … -/
theorem prepareNames_same_keys {c : RenderCfg} {o : RenderOracles} {names N : NameMap} {roots : List Node}
    (h : prepareNames c o names roots = .ok N) : N.map (·.1) = names.map (·.1) :=
  PrepNames.prepareNames_same_keys h

/-- … and only those of the models of the structure -/
theorem prepareNames_outside {c : RenderCfg} {o : RenderOracles} {names N : NameMap} {roots : List Node}
    (h : prepareNames c o names roots = .ok N) {j : String} (hj : j ∉ postL roots) : nameOf N j = nameOf names j :=
  PrepNames.prepareNames_outside h hj

/-- the pre-order walk and the generator creation order list the same models -/
theorem preorder_perm_postL {fuel : Nat} {roots : List Node} {idxs : List String}
    (h : preorder fuel roots = .ok idxs) : idxs.Perm (postL roots) := preorder_perm fuel roots idxs h

/-! ## 3. names that are already distinct are left alone -/

/-- **dedupRound_noop** -/
theorem dedupRound_noop {names : NameMap} {idxs : List String} (hnd : idxs.Nodup) (hd : DistinctOn names idxs) :
    dedupRound names idxs = (names, true) :=
  PrepNames.dedupRound_noop (names_nodup_iff.mpr ⟨hnd, hd⟩)

/-- … and conversely the flag is raised only then -/
theorem dedupRound_flag_iff (names : NameMap) (idxs : List String) :
    (dedupRound names idxs).2 = true ↔ idxs.Nodup ∧ DistinctOn names idxs :=
  (dedupRound_flag names idxs).trans names_nodup_iff

theorem dedupLoop_noop {names : NameMap} {idxs : List String} (hnd : idxs.Nodup) (hd : DistinctOn names idxs)
    (fuel : Nat) : dedupLoop idxs (fuel + 1) names = .ok names :=
  PrepNames.dedupLoop_noop (names_nodup_iff.mpr ⟨hnd, hd⟩) fuel

/-- **prepareNames_of_distinct**: if converting the names of the enumerated models one after the other succeeds with
    `names'`, and these are pairwise distinct, `_prepare_class_names` returns `names'` -/
theorem prepareNames_of_distinct {c : RenderCfg} {o : RenderOracles} {names names' : NameMap} {roots : List Node}
    {idxs : List String} (hidx : preorder (names.length + 2) roots = .ok idxs) (hnd : idxs.Nodup)
    (hc : idxs.foldlM (fun acc i => convertNameAt c o acc i) names = .ok names') (hd : DistinctOn names' idxs) :
    prepareNames c o names roots = .ok names' :=
  PrepNames.prepareNames_of_distinct hidx hc (names_nodup_iff.mpr ⟨hnd, hd⟩)

/-! ## 4. the classes of the emitted module have pairwise distinct names -/

/-- `ConvFix c o N0 idxs`: `convert_class_name` leaves the prepared names of the models in `idxs` alone (the generator
    constructors of `_generate_code` convert every name once more).  With the real label functions a converted name
    — with or without `_<index>` suffixes — is a fixed point (`C11.label_idempotent`). -/
def ConvFix (c : RenderCfg) (o : RenderOracles) (N0 : NameMap) (idxs : List String) : Prop :=
  ∀ i ∈ idxs, ∀ n, nameOf N0 i = some n → convertClassName c o n = .ok n

/-- a successful rendering: the pre-order walk succeeds and lists every model of the structure exactly once -/
theorem generateCode_preorder_nodup {c : RenderCfg} {o : RenderOracles} {g : Graph} {roots : List Node}
    {inj : List (String × String)} {pre : Option String} {text : String} {F : NameMap}
    (h : generateCode c o g roots inj pre = .ok (text, F)) :
    ∃ idxs, preorder (g.models.length + 2) roots = .ok idxs ∧ idxs.Nodup ∧ idxs.Perm (postL roots) :=
  generateCode_preorder h

/-- **generateCode_class_names_distinct**: if `generate_code` succeeds, leaving the names `F`, and the conversion
    leaves the prepared names `N0` of the structure's models alone, then every model of the structure keeps its
    prepared name, has a name, and the names of different models of the structure are different (`idxs.Nodup` is
    part of the conclusion). -/
theorem generateCode_class_names_distinct {c : RenderCfg} {o : RenderOracles} {g : Graph} {roots : List Node}
    {inj : List (String × String)} {pre : Option String} {text : String} {F N0 : NameMap} {idxs : List String}
    (h : generateCode c o g roots inj pre = .ok (text, F))
    (hidx : preorder (g.models.length + 2) roots = .ok idxs)
    (hN0 : prepareNames c o (names0 g) roots = .ok N0)
    (hfix : ConvFix c o N0 idxs) :
    idxs.Nodup ∧ (∀ i ∈ idxs, nameOf F i = nameOf N0 i ∧ ∃ n, nameOf F i = some n) ∧
    ∀ i ∈ idxs, ∀ j ∈ idxs, i ≠ j → nameOf F i ≠ nameOf F j := by
  have hp : idxs.Perm (postL roots) := preorder_perm _ _ _ hidx
  have hs : StableOn c o N0 (postL roots) := fun i hi n hn => hfix i (hp.mem_iff.mpr hi) n hn
  have hnd := (nodup_map_distinct.mp (generateCode_names_nodup h hN0 hs))
  obtain ⟨_, _, hcv⟩ := generateCode_converted h
  refine ⟨hp.nodup_iff.mpr hnd.1, fun i hi => ⟨generateCode_stable_lookup h hN0 hs i, ?_⟩,
    fun i hi j hj => hnd.2 i (hp.mem_iff.mp hi) j (hp.mem_iff.mp hj)⟩
  obtain ⟨_, n, _, hn⟩ := hcv i (hp.mem_iff.mp hi)
  exact ⟨n, hn⟩

/-- the same as one list: the class names of the structure, in pre-order, have no repetition -/
theorem generateCode_class_names_nodup {c : RenderCfg} {o : RenderOracles} {g : Graph} {roots : List Node}
    {inj : List (String × String)} {pre : Option String} {text : String} {F N0 : NameMap} {idxs : List String}
    (h : generateCode c o g roots inj pre = .ok (text, F))
    (hidx : preorder (g.models.length + 2) roots = .ok idxs)
    (hN0 : prepareNames c o (names0 g) roots = .ok N0)
    (hfix : ConvFix c o N0 idxs) : (idxs.map (nameOf F)).Nodup := by
  obtain ⟨h1, _, h3⟩ := generateCode_class_names_distinct h hidx hN0 hfix
  exact names_nodup_iff.mpr ⟨h1, h3⟩

/-- what `renderLevel` (`_generate_code`) does to the name table: it converts the names of the nodes it visits, one
    after the other in generator creation order, and nothing else (`Rend2.renderLevel_names`) -/
theorem renderLevel_only_converts {c : RenderCfg} {o : RenderOracles} {g : Graph} {inj : List (String × String)}
    {fuel : Nat} {N N' : NameMap} {nodes : List Node} {imps : List Imp} {gens : List (String × List String)}
    (h : renderLevel c o g inj fuel N nodes = .ok (N', imps, gens)) :
    (postL nodes).foldlM (convertNameAt c o) N = .ok N' :=
  renderLevel_names c o g inj fuel N nodes N' imps gens h

/-! ## 5. the prepared names do not depend on the order of the enumeration -/

/-- **dedup_layout_independent**: one round gives the same table and the same flag for two enumerations of the same
    models -/
theorem dedup_layout_independent {names : NameMap} {idxs idxs' : List String} (hnd : idxs.Nodup)
    (hp : idxs'.Perm idxs) : dedupRound names idxs' = dedupRound names idxs :=
  dedupRound_perm hnd hp

/-- … and so does the whole loop (errors included) -/
theorem dedupLoop_layout_independent {names : NameMap} {idxs idxs' : List String} (hnd : idxs.Nodup)
    (hp : idxs'.Perm idxs) (fuel : Nat) : dedupLoop idxs' fuel names = dedupLoop idxs fuel names :=
  dedupLoop_perm hnd hp fuel names

/-- **prepareNames_layout_independent**: two structures over the same models (e.g. the flat and the nested layout of
    one registry) are prepared to the same names -/
theorem prepareNames_layout_independent {c : RenderCfg} {o : RenderOracles} {names N₁ N₂ : NameMap}
    {roots₁ roots₂ : List Node} (hk : (names.map (·.1)).Nodup) (hp : (postL roots₁).Perm (postL roots₂))
    (h₁ : prepareNames c o names roots₁ = .ok N₁) (h₂ : prepareNames c o names roots₂ = .ok N₂) : N₁ = N₂ :=
  prepareNames_perm rfl hk hp h₁ h₂

/-! ## non-vacuity -/

-- three rounds are really needed: after the first round `1A` (`X_1A`) collides with `1C`
def exLoop : NameMap := [("1A", some "X"), ("1B", some "X"), ("1C", some "X_1A"), ("1D", some "Y")]
def exLoopIdxs : List String := ["1A", "1B", "1C", "1D"]

theorem exLoop_round1 : dedupRound exLoop exLoopIdxs =
    ([("1A", some "X_1A"), ("1B", some "X_1B"), ("1C", some "X_1A"), ("1D", some "Y")], false) := by decide +kernel

theorem exLoop_ok : dedupLoop exLoopIdxs 17 exLoop =
    .ok [("1A", some "X_1A_1A"), ("1B", some "X_1B"), ("1C", some "X_1A_1C"), ("1D", some "Y")] :=
  ok_of_toOption (by decide +kernel)

example := dedupLoop_distinct exLoop_ok
example := dedupLoop_names_nodup exLoop_ok
-- the enumeration order does not matter
example : dedupRound exLoop ["1C", "1D", "1B", "1A"] = dedupRound exLoop exLoopIdxs :=
  dedup_layout_independent (by decide) (by decide)
example : dedupLoop ["1C", "1D", "1B", "1A"] 17 exLoop = dedupLoop exLoopIdxs 17 exLoop :=
  dedupLoop_layout_independent (by decide) (by decide) 17
-- a model listed twice: the loop never ends
example : (dedupLoop ["1D", "1D"] 17 exLoop).toOption = none := by decide +kernel
-- names that are distinct already
example : dedupRound exLoop ["1A", "1C", "1D"] = (exLoop, true) :=
  dedupRound_noop (by decide) ((names_nodup_iff.mp (by decide +kernel)).2)

/-- a registry whose models `1B` (`List`) and `1C` (`List_`) get the same converted name `List_` (`List` is reserved in
    `exCfg`) -/
def exDup : Graph where
  models := [{ idx := "1A", fields := [("b", .ptr "1B"), ("c", .ptr "1C")], name := some "Root" },
             { idx := "1B", fields := [("x", .int)], name := some "List" },
             { idx := "1C", fields := [("y", .opt .str)], name := some "List_" }]
  ptrs := [⟨"1A", none, none⟩, ⟨"1B", some "1A", some "b"⟩, ⟨"1C", some "1A", some "c"⟩]
  counter := 3
def exDupNested : List Node := [.mk "1A" [.mk "1B" [], .mk "1C" []]]
def exDupFlat : List Node := ["1A", "1B", "1C"].map (fun i => Node.mk i [])
def exDupNames : NameMap := [("1A", some "Root"), ("1B", some "List__1B"), ("1C", some "List__1C")]

example : (convertClassName (exCfg .pydantic) exOracles "List").toOption = some "List_" ∧
    (convertClassName (exCfg .pydantic) exOracles "List_").toOption = some "List_" := by decide +kernel

theorem exDup_preorder : preorder (exDup.models.length + 2) exDupNested = .ok ["1A", "1B", "1C"] :=
  ok_of_toOption (by decide +kernel)

theorem exDup_prepared : prepareNames (exCfg .pydantic) exOracles (names0 exDup) exDupNested = .ok exDupNames :=
  ok_of_toOption (by decide +kernel)

theorem exDup_prepared_flat : prepareNames (exCfg .pydantic) exOracles (names0 exDup) exDupFlat = .ok exDupNames :=
  ok_of_toOption (by decide +kernel)

example := prepareNames_distinct exDup_prepared exDup_preorder
example := prepareNames_same_keys exDup_prepared
example : exDupNames = exDupNames :=
  prepareNames_layout_independent (by decide) (by decide +kernel) exDup_prepared exDup_prepared_flat

-- `prepareNames_of_distinct`: the registry of `C12R.exT`-like names `class`, `B`: converted names are distinct
def exOk : NameMap := [("1A", some "class"), ("1B", some "B")]
example : prepareNames (exCfg .pydantic) exOracles exOk [.mk "1A" [.mk "1B" []]] =
    .ok [("1A", some "class_"), ("1B", some "B")] :=
  prepareNames_of_distinct (idxs := ["1A", "1B"]) (ok_of_toOption (by decide +kernel)) (by decide)
    (ok_of_toOption (by decide +kernel)) ((names_nodup_iff.mp (by decide +kernel)).2)

theorem exDup_text : generateCode (exCfg .pydantic) exOracles exDup exDupNested [] none = .ok
    ("from pydantic.v1 import BaseModel, Field\nfrom typing import Optional\n\n\nclass Root(BaseModel):\n    class List__1B(BaseModel):\n        x: int\n\n    class List__1C(BaseModel):\n        y: Optional[str] = None\n\n    b: 'List__1B'\n    c: 'List__1C'\n",
     exDupNames) := generateCode_of_eval (by decide +kernel)

theorem exDup_convFix : ConvFix (exCfg .pydantic) exOracles exDupNames ["1A", "1B", "1C"] := by
  intro i hi n hn
  simp only [List.mem_cons, List.not_mem_nil, or_false] at hi
  rcases hi with rfl | rfl | rfl
  · have e : some "Root" = some n := (by decide +kernel : nameOf exDupNames "1A" = some "Root").symm.trans hn
    cases e; exact ok_of_toOption (by decide +kernel)
  · have e : some "List__1B" = some n := (by decide +kernel : nameOf exDupNames "1B" = some "List__1B").symm.trans hn
    cases e; exact ok_of_toOption (by decide +kernel)
  · have e : some "List__1C" = some n := (by decide +kernel : nameOf exDupNames "1C" = some "List__1C").symm.trans hn
    cases e; exact ok_of_toOption (by decide +kernel)

example := generateCode_class_names_distinct exDup_text exDup_preorder exDup_prepared exDup_convFix
example : (["1A", "1B", "1C"].map (nameOf exDupNames)).Nodup :=
  generateCode_class_names_nodup exDup_text exDup_preorder exDup_prepared exDup_convFix

end J2M.C03N

#print axioms J2M.C03N.dedupLoop_names_nodup
#print axioms J2M.C03N.dedupLoop_distinct
#print axioms J2M.C03N.dedupLoop_idxs_nodup
#print axioms J2M.C03N.dedupLoop_same_keys
#print axioms J2M.C03N.prepareNames_distinct
#print axioms J2M.C03N.prepareNames_distinct_post
#print axioms J2M.C03N.prepareNames_same_keys
#print axioms J2M.C03N.prepareNames_outside
#print axioms J2M.C03N.dedupRound_noop
#print axioms J2M.C03N.dedupRound_flag_iff
#print axioms J2M.C03N.dedupLoop_noop
#print axioms J2M.C03N.prepareNames_of_distinct
#print axioms J2M.C03N.generateCode_preorder_nodup
#print axioms J2M.C03N.generateCode_class_names_distinct
#print axioms J2M.C03N.generateCode_class_names_nodup
#print axioms J2M.C03N.renderLevel_only_converts
#print axioms J2M.C03N.dedup_layout_independent
#print axioms J2M.C03N.dedupLoop_layout_independent
#print axioms J2M.C03N.prepareNames_layout_independent
