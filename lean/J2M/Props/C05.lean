/-
  Property C05 — "After model merging, two inferred models end up as one class if and only if they are connected
  by a chain of pairs that satisfy at least one configured comparator on their original key sets."

  This file: the grouping stage of `ModelRegistry.merge_models` (registry.py:143-171), modelled literally by
  `J2M.Closure.mergeGroups sim n` for a table-driven similarity `sim` on registry positions `0..n-1`.
  Helper development: `J2M/Proofs/Closure.lean`.
-/
import J2M.Proofs.Closure
namespace J2M.C05
open J2M.Closure

/-- Hypothesis of every theorem below: the comparator decision does not depend on the argument order.
    (`J2M.Closure.SymmSim sim := ∀ a b, sim a b = sim b a`.) -/
abbrev Symmetric (sim : Nat → Nat → Bool) : Prop := SymmSim sim

/-- The two similarity tables used as examples: given by an edge list, symmetric by construction. -/
def simOf (edges : List (Nat × Nat)) (a b : Nat) : Bool := edges.contains (a, b) || edges.contains (b, a)

theorem simOf_symmetric (edges : List (Nat × Nat)) : Symmetric (simOf edges) := by
  intro a b; simp only [simOf, Bool.or_comm]

/--
**closure_components** (partial correctness).  If the loop exits, returning `gs`, then
 (a) groups at different positions are disjoint; every group has at least two members, all `< n`, and is a
     canonical (strictly increasing) list;
 (b) two different positions lie in one group iff they are connected by a chain of `sim`-edges
     (`Reach` = reflexive-transitive closure of `Edge sim n x y := x < n ∧ y < n ∧ x ≠ y ∧ sim x y = true`);
 (c) a position lies in some group iff it has a neighbour.
So the groups are exactly the connected components of the similarity graph that contain an edge.
-/
theorem closure_components {sim : Nat → Nat → Bool} {n : Nat} (hsym : Symmetric sim)
    {gs : List Grp} (h : mergeGroups sim n = some gs) :
    (∀ i j (hi : i < gs.length) (hj : j < gs.length), i ≠ j → gOverlap gs[i] gs[j] = false) ∧
    (∀ g ∈ gs, 2 ≤ g.length ∧ (∀ x ∈ g, x < n) ∧ g.Pairwise (· < ·)) ∧
    (∀ a b, a ≠ b → ((∃ g ∈ gs, a ∈ g ∧ b ∈ g) ↔ Reach sim n a b)) ∧
    (∀ a, (∃ g ∈ gs, a ∈ g) ↔ ∃ b, Edge sim n a b) := by
  obtain ⟨hinv, hno⟩ := loop_exit (n + 2) _ gs (inv_init hsym) h
  refine ⟨hno, fun g hg => ⟨(hinv.ok g hg).two, (hinv.ok g hg).bound, (hinv.ok g hg).sorted⟩,
    fun a b hab => exit_components hinv hno hab, ?_⟩
  intro a
  constructor
  · rintro ⟨g, hg, ha⟩
    have hok := hinv.ok g hg
    -- `g` has a second member `b ≠ a`, reachable from `a`
    have hex : ∃ b ∈ g, b ≠ a := by
      apply Classical.byContradiction
      intro hne
      have hall : ∀ x ∈ g, x ∈ [a] := by
        intro x hx
        have : x = a := Classical.byContradiction (fun hxa => hne ⟨x, hx, hxa⟩)
        simp [this]
      have := length_le_of_subset g [a] hok.sorted.nodup hall
      have := hok.two
      simp at *; omega
    obtain ⟨b, hb, hba⟩ := hex
    rcases (hok.conn a ha b hb).head with e | e
    · exact absurd e.symm hba
    · exact e
  · rintro ⟨b, e⟩
    obtain ⟨g, hg, ha, _⟩ := hinv.cover a b e
    exact ⟨g, hg, ha⟩

/--
**closure_terminates.**  The fuel `n + 2` used by the model is always enough: the `while flag` loop exits.
(Proof: from the second pass on the list is duplicate-free and the smallest group that still meets another
group grows by at least one member per pass, and no group has more than `n` members; so at most `n + 1`
passes are made.  Star and path graphs on `n ≥ 3` vertices need exactly `n - 1` passes.)
-/
theorem closure_terminates (sim : Nat → Nat → Bool) (n : Nat) (hsym : Symmetric sim) :
    ∃ gs, mergeGroups sim n = some gs :=
  mergeGroups_terminates hsym

/-- Total correctness: both together. -/
theorem closure_total (sim : Nat → Nat → Bool) (n : Nat) (hsym : Symmetric sim) :
    ∃ gs, mergeGroups sim n = some gs ∧
      (∀ i j (hi : i < gs.length) (hj : j < gs.length), i ≠ j → gOverlap gs[i] gs[j] = false) ∧
      (∀ a b, a ≠ b → ((∃ g ∈ gs, a ∈ g ∧ b ∈ g) ↔ Reach sim n a b)) := by
  obtain ⟨gs, h⟩ := closure_terminates sim n hsym
  obtain ⟨h1, _, h3, _⟩ := closure_components hsym h
  exact ⟨gs, h, h1, h3⟩

/-! ### non-vacuity: concrete tables -/

/-- chain 0–1–2–3: one class -/
example : mergeGroups (simOf [(0, 1), (1, 2), (2, 3)]) 4 = some [[0, 1, 2, 3]] := by decide

/-- two components and an isolated vertex: 0–1–2, 3–4, 5 -/
example : mergeGroups (simOf [(0, 1), (1, 2), (3, 4)]) 6 = some [[0, 1, 2], [3, 4]] := by decide

/-- a chain given in scrambled order -/
example : mergeGroups (simOf [(0, 3), (1, 2), (2, 3)]) 5 = some [[0, 1, 2, 3]] := by decide

/-- one edge: the initial list holds the *same* group twice (two objects), the first pass collapses it and
    reports `flag = True`, the second pass exits -/
example : initGroups (simOf [(0, 1)]) 2 = [[0, 1], [0, 1]] := by decide
example : round (initGroups (simOf [(0, 1)]) 2) = ([[0, 1]], true) := by decide
example : mergeGroups (simOf [(0, 1)]) 2 = some [[0, 1]] := by decide

/-- no edge: nothing to merge -/
example : mergeGroups (simOf []) 3 = some [] := by decide

/-- the number of passes is really linear in `n`: the path 0–1–2–3–4 needs 4 = n - 1 passes
    (exhaustive search over all graphs on n ≤ 6 vertices: the maximum is n - 1, reached by paths and stars) -/
example : loop 3 (initGroups (simOf [(0, 1), (1, 2), (2, 3), (3, 4)]) 5) = none ∧
    loop 4 (initGroups (simOf [(0, 1), (1, 2), (2, 3), (3, 4)]) 5) = some [[0, 1, 2, 3, 4]] := by decide

/-- the hypotheses of `closure_components` are satisfiable, and its conclusion is not trivial -/
example : Reach (simOf [(0, 1), (1, 2), (2, 3)]) 4 0 3 :=
  ((closure_components (simOf_symmetric _) (gs := [[0, 1, 2, 3]]) (by decide)).2.2.1 0 3 (by decide)).mp
    ⟨[0, 1, 2, 3], by simp, by simp, by simp⟩

example : ¬ Reach (simOf [(0, 1), (1, 2), (3, 4)]) 6 0 3 := by
  intro h
  have := ((closure_components (simOf_symmetric _) (gs := [[0, 1, 2], [3, 4]]) (by decide)).2.2.1 0 3
    (by decide)).mpr h
  simp at this

end J2M.C05
