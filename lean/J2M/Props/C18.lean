/-
  C18 — "Generated attrs/dataclass models construct from their samples and convert"   (DESIGN §8.18)

  Model: `stringFieldPath` / `stringFieldPaths` (Render.lean: `get_string_field_paths`),
  `processValue` / `postInit` (Converters.lean: `_process_string_field_value`, `post_init_converters`).
-/
import J2M.Proofs.Converters
import J2M.Proofs.Render
import J2M.Proofs.Inh
namespace J2M.C18

open J2M J2M.Conv

/-! ## 1. `path_of_type` -/

/-- `Chain k t`: `t` is built from `opt`/`list`/`dict` over exactly one `ser k` leaf (inductive definition in
    `Proofs/Converters.lean`; equivalently `spineLeaf t = .ser k`) -/
abbrev Chain := Conv.Chain

example {k t} : Chain k t ↔ spineLeaf t = .ser k := ⟨Conv.Chain.spineLeaf, chain_of_spineLeaf⟩

/-- `NoTupleObj t`: the leaf below the `Optional`/`List`/`Dict` wrappers is neither a `DTuple` nor a raw field dict
    (`detect`/`optimize` produce neither: tuples are never created and field dicts become `ModelPtr`s) -/
abbrev NoTupleObj := Conv.NoTupleObj

/-- the whole function, by the leaf of the spine -/
theorem path_of_type (t : Ty) :
    stringFieldPath t =
      match spineLeaf t with
      | .ser _ => .ok (some (pathOf t))
      | .tuple _ | .obj _ => .error .typeError
      | _ => .ok none :=
  stringFieldPath_eq t

/-- (a) a chain yields the path that spells its nesting -/
theorem path_of_type_chain {k t} (h : Chain k t) : stringFieldPath t = .ok (some (pathOf t)) :=
  stringFieldPath_chain h

/-- (b) anything else without a tuple / raw dict leaf yields nothing: a `union` or `ptr` on the spine, or a leaf
    that is not a pseudo-type (`int float bool str null unknown lit`) -/
theorem path_of_type_none {t} (h1 : ∀ k, ¬ Chain k t) (h2 : NoTupleObj t) : stringFieldPath t = .ok none :=
  stringFieldPath_none h1 h2

/-- (c) it raises only for `tuple` / `obj` leaves, and then `TypeError` -/
theorem path_of_type_error_iff {t e} : stringFieldPath t = .error e ↔ (¬ NoTupleObj t ∧ e = .typeError) :=
  stringFieldPath_error_iff

theorem path_of_type_some_iff {t p} : stringFieldPath t = .ok (some p) ↔ (∃ k, Chain k t) ∧ p = pathOf t :=
  stringFieldPath_some_iff

/-- the repaired behaviour for a field observed only as `[]` (D12) -/
theorem path_of_type_list_unknown : stringFieldPath (.list .unknown) = .ok none := rfl

-- non-vacuity
example : Chain "IntString" (.opt (.list (.list (.ser "IntString")))) := by decide
example : pathOf (.opt (.list (.list (.ser "IntString")))) = ["O", "L", "L", "S"] := rfl
example : stringFieldPath (.opt (.list (.list (.ser "IntString")))) = .ok (some ["O", "L", "L", "S"]) := rfl
example : (∀ k, ¬ Chain k (.list (.union [.ser "IntString", .int]))) ∧ NoTupleObj (.list (.union [.ser "IntString", .int])) :=
  ⟨fun k h => (by cases h; rename_i h; cases h), (by decide)⟩
example : stringFieldPath (.dict (.ptr "3")) = .ok none := rfl
example : stringFieldPath (.list (.lit false ["a"])) = .ok none := rfl
example : ¬ NoTupleObj (.list (.tuple [.int])) := by decide
example : stringFieldPath (.list (.tuple [.int])) = .error .typeError := rfl

/-! ## 2. `convert_correct` -/

/-- for a chain type, its path and every value of the type: the conversion succeeds and replaces exactly the
    string leaves by their parsed values (`null` stays where an `opt` admitted it, empty containers stay empty) -/
theorem convert_correct (acc : Accepts) (g : ModelLookup) {k : String} {t : Ty} (hc : Chain k t)
    (v : Json) (hv : Inh acc g t v) :
    processValue acc (pathOf t) v t false = .ok (mapLeaves k v) :=
  processValue_chain hc v false hv

/-- the same for either value of the `optional` flag (the flag only matters for values outside the type) -/
theorem convert_correct_any_flag (acc : Accepts) (g : ModelLookup) {k : String} {t : Ty} (hc : Chain k t)
    (v : Json) (optional : Bool) (hv : Inh acc g t v) :
    processValue acc (pathOf t) v t optional = .ok (mapLeaves k v) :=
  processValue_chain hc v optional hv

-- non-vacuity: Optional[Dict[str, List[IntString]]] with a null, an empty list and an empty dict
private def accEx : Accepts := fun k s => some (k == "IntString" && (s == "1" || s == "22"))
private def tyEx : Ty := .opt (.dict (.list (.ser "IntString")))
private def gEx : ModelLookup := fun _ => none
example : Chain "IntString" tyEx := by decide
example : Inh accEx gEx tyEx (.obj [("a", .arr [.str "1", .str "22"]), ("b", .arr [])]) := by
  refine .optSome (.dict ?_)
  intro kv hkv
  simp at hkv
  rcases hkv with rfl | rfl
  · refine .list ?_
    intro x hx
    simp at hx
    rcases hx with rfl | rfl <;> exact .ser (by decide)
  · exact .list (by simp)
example : Inh accEx gEx tyEx .null := .optNull
example : Inh accEx gEx tyEx (.obj []) := .optSome (.dict (by simp))
example : mapLeaves "IntString" (.obj [("a", .arr [.str "1", .str "22"]), ("b", .arr [])])
    = .dict [("a", .list [.parsed "IntString" "1", .parsed "IntString" "22"]), ("b", .list [])] := rfl
-- outside the type the call does raise: a rejected string below a required list
example : processValue accEx ["L", "S"] (.arr [.str "x"]) (.list (.ser "IntString")) false = .error .valueError := by
  simp [processValue, accEx, List.mapM_cons, bind, Except.bind, Except.map]

/-! ## 3. `others_untouched` -/

/-- `get_string_field_paths` succeeds exactly when no field has a `tuple` / raw-dict leaf … -/
theorem paths_ok_iff (fields : Fields) :
    (∃ ps, stringFieldPaths fields = .ok ps) ↔ ∀ f ∈ fields, NoTupleObj f.2 :=
  stringFieldPaths_ok_iff fields

/-- … (otherwise it raises `TypeError`) … -/
theorem paths_error (fields : Fields) (e : PyErr) (h : stringFieldPaths fields = .error e) :
    e = .typeError ∧ ∃ f ∈ fields, ¬ NoTupleObj f.2 :=
  stringFieldPaths_error fields e h

/-- … and then lists, in field order, one entry per field whose type is a chain
    (`fieldEntry (key, t) = some (key, pathStr t)` for a chain `t`, `none` otherwise;
     `pathStr t` = the tokens of `pathOf t` joined by `.`, or `""` for a bare pseudo-type) -/
theorem paths_eq (fields : Fields) (h : ∀ f ∈ fields, NoTupleObj f.2) :
    stringFieldPaths fields = .ok (fields.filterMap fieldEntry) :=
  stringFieldPaths_eq fields h

/-- only keys whose type is a chain are listed, each with the path of its type -/
theorem paths_only_chains {fields : Fields} {ps : List (String × String)} (h : stringFieldPaths fields = .ok ps)
    (name p : String) :
    (name, p) ∈ ps ↔ ∃ t k, (name, t) ∈ fields ∧ Chain k t ∧ p = pathStr t :=
  mem_stringFieldPaths h name p

/-- the decorator text of a chain field splits back into the path of its type: `'name#O.L.S'` ↦ `["O","L","S"]`,
    `'name'` ↦ `["S"]` (what `post_init_converters` recovers with `split('#')` / `split('.')`) -/
theorem decorator_path_roundtrip {k t} (hc : Chain k t) : splitPathStr (pathStr t) = pathOf t :=
  splitPathStr_pathStr hc

/-- the post-init method keeps the set of attributes and leaves every attribute it was not given a path for
    exactly as it was -/
theorem others_untouched (acc : Accepts) (ann : Fields) (ps : List (String × List String))
    (self self' : List (String × PVal)) (h : postInit acc ann ps self = .ok self') :
    self'.map (·.1) = self.map (·.1) ∧
    ∀ name, name ∉ ps.map (·.1) → self'.find? (·.1 = name) = self.find? (·.1 = name) :=
  postInit_frame acc ann ps self self' h

/-- together: a field whose type is not a chain is not listed, hence not touched -/
theorem non_chain_untouched (acc : Accepts) (fields : Fields) (ps : List (String × String))
    (hps : stringFieldPaths fields = .ok ps) (hnd : (fields.map (·.1)).Nodup)
    (self self' : List (String × PVal))
    (h : postInit acc fields (ps.map (fun p => (p.1, splitPathStr p.2))) self = .ok self')
    (name : String) (t : Ty) (hf : (name, t) ∈ fields) (hnc : ∀ k, ¬ Chain k t) :
    self'.find? (·.1 = name) = self.find? (·.1 = name) := by
  refine (others_untouched acc fields _ self self' h).2 name ?_
  intro hm
  simp only [List.map_map, List.mem_map, Function.comp] at hm
  obtain ⟨⟨n, p⟩, hmem, hn⟩ := hm
  simp only at hn; subst hn
  obtain ⟨t', k, hf', hc, _⟩ := (paths_only_chains hps n p).1 hmem
  -- keys are unique, so `t' = t`
  have : t' = t := by
    have h1 := Fields.get?_of_mem hnd hf'
    have h2 := Fields.get?_of_mem hnd hf
    rw [h1] at h2; exact Option.some.inj h2
  exact hnc k (this ▸ hc)

-- non-vacuity
private def fieldsEx : Fields :=
  [("a", .ser "IntString"), ("b", .opt (.list (.ser "IntString"))), ("c", .list .unknown), ("d", .ptr "1"),
   ("e", .union [.ser "IntString", .int]), ("f", .str)]
example : ∀ f ∈ fieldsEx, NoTupleObj f.2 := by decide
example : stringFieldPaths fieldsEx = .ok [("a", ""), ("b", "O.L.S")] := rfl
example : splitPathStr "" = ["S"] ∧ splitPathStr "O.L.S" = ["O", "L", "S"] := by decide
example : ([("a", ""), ("b", "O.L.S")] : List (String × String)).map (fun p => (p.1, splitPathStr p.2))
    = [("a", ["S"]), ("b", ["O", "L", "S"])] := by decide
example : postInit accEx fieldsEx [("a", ["S"]), ("b", ["O", "L", "S"])]
      [("a", .raw (.str "1")), ("b", .raw (.arr [.str "22"])), ("c", .raw (.arr [])), ("f", .raw (.str "1"))]
    = .ok [("a", .parsed "IntString" "1"), ("b", .list [.parsed "IntString" "22"]), ("c", .raw (.arr [])),
           ("f", .raw (.str "1"))] := rfl

/-! ## 4. the whole post-init method on an instance built from a sample (`construct_ok`, post-init part)

  `fields` = the model's fields (= the class annotations, keyed as the attributes), `attrs` = the instance
  attributes after `__init__`: the sample's values, and for an absent optional field its default (`None`, `[]`,
  `{}`), all of which lie in the field's type. `tokenPaths fields` = the decorator's entries. -/

/-- the decorator text entries of `stringFieldPaths`, split the way `post_init_converters` splits them, are
    `tokenPaths fields` -/
theorem decorator_entries (fields : Fields) (h : ∀ f ∈ fields, NoTupleObj f.2) :
    ∃ ps, stringFieldPaths fields = .ok ps ∧
      ps.map (fun p => (p.1, splitPathStr p.2)) = tokenPaths fields :=
  ⟨_, stringFieldPaths_eq fields h, decoratorPaths_eq fields⟩

/-- no exception escapes; every chain field holds its converted value (`mapLeaves` under its kind) and every
    other attribute is what it was:
    `convAttr fields (name, v) = mapLeaves k v` if the type of `name` is a chain over `k`, `raw v` otherwise -/
theorem post_init_correct (acc : Accepts) (g : ModelLookup) (fields : Fields) (attrs : List (String × Json))
    (hndf : (fields.map (·.1)).Nodup) (hnda : (attrs.map (·.1)).Nodup)
    (hcover : ∀ f ∈ fields, (∃ k, Chain k f.2) → f.1 ∈ attrs.map (·.1))
    (hinh : ∀ kv ∈ attrs, ∀ t, Fields.get? fields kv.1 = some t → Inh acc g t kv.2) :
    postInit acc fields (tokenPaths fields) (attrs.map (fun kv => (kv.1, .raw kv.2)))
      = .ok (attrs.map (fun kv => (kv.1, convAttr fields kv))) :=
  postInit_correct acc g fields attrs hndf hnda hcover hinh

-- non-vacuity: `fieldsEx` above with a sample that leaves `b` at its default
private def attrsEx : List (String × Json) :=
  [("a", .str "1"), ("b", .null), ("c", .arr []), ("f", .str "22")]
example : tokenPaths fieldsEx = [("a", ["S"]), ("b", ["O", "L", "S"])] := rfl
example : (fieldsEx.map (·.1)).Nodup ∧ (attrsEx.map (·.1)).Nodup := by decide
example : ∀ f ∈ fieldsEx, (∃ k, Chain k f.2) → f.1 ∈ attrsEx.map (·.1) := by
  intro f hf ⟨k, hc⟩
  simp [fieldsEx] at hf
  rcases hf with rfl | rfl | rfl | rfl | rfl | rfl
  · decide
  · decide
  · cases hc; rename_i h; cases h
  · cases hc
  · cases hc
  · cases hc
example : ∀ kv ∈ attrsEx, ∀ t, Fields.get? fieldsEx kv.1 = some t → Inh accEx gEx t kv.2 := by
  intro kv hkv t ht
  simp [attrsEx] at hkv
  rcases hkv with rfl | rfl | rfl | rfl <;> simp [fieldsEx, Fields.get?, List.find?] at ht <;> subst ht
  · exact .ser (by decide)
  · exact .optNull
  · exact .list (by simp)
  · exact .str
example : attrsEx.map (fun kv => (kv.1, convAttr fieldsEx kv))
    = [("a", .parsed "IntString" "1"), ("b", .raw .null), ("c", .raw (.arr [])), ("f", .raw (.str "22"))] := rfl

/-! ## 5. per-field converters of attrs classes generated without post-init converters (emission part)

  By `J2M.C04.field_line_attrs` the attrs field line is
  `name: T = attr.ib(` default/factory ++ `attrsConvKw c optional t` ++ metadata `)`. -/

/-- `converter=K` is emitted exactly for a required field of type `ser K`, `converter=optional(K)` exactly for
    an optional field of type `opt (ser K)`, and only when post-init converters are off -/
theorem attrs_field_converter_iff (c : RenderCfg) (optional : Bool) (t : Ty) (v : String) :
    ("converter", v) ∈ Rend.attrsConvKw c optional t ↔
      c.postInitEff = false ∧
      ((optional = true ∧ ∃ k, Rend.optInner t = .ser k ∧ v = "optional(" ++ k ++ ")") ∨
       (optional = false ∧ ∃ k, t = .ser k ∧ v = k)) := by
  unfold Rend.attrsConvKw
  cases hp : c.postInitEff
  · cases optional
    · cases t <;> simp
    · generalize Rend.optInner t = inner
      cases inner <;> simp
  · simp

example : Rend.attrsConvKw ⟨.attrs, 10, false, true, false, [], "typing", [], [], "M"⟩ true (.opt (.ser "IntString"))
    = [("converter", "optional(IntString)")] := rfl
example : Rend.attrsConvKw ⟨.attrs, 10, true, true, false, [], "typing", [], [], "M"⟩ true (.opt (.ser "IntString"))
    = [] := rfl

end J2M.C18
