/-
  C18 — "Generated attrs/dataclass models construct from their samples and convert"   (DESIGN §8.18)

  Model: `stringFieldPath` / `stringFieldPaths` (Render.lean: `get_string_field_paths`),
  `processValue` / `postInit` (Converters.lean: `_process_string_field_value`, `post_init_converters`).
-/
import J2M.Proofs.Converters
namespace J2M.C18

open J2M J2M.Conv

/-! ## 1. `path_of_type` -/

/-- `Chain k t`: `t` is built from `opt`/`list`/`dict` over exactly one `ser k` leaf (inductive definition in
    `Proofs/Converters.lean`; equivalently `spineLeaf t = .ser k`) -/
abbrev Chain := Conv.Chain

example {k t} : Chain k t ↔ spineLeaf t = .ser k := ⟨Conv.Chain.spineLeaf, chain_of_spineLeaf⟩

/-- `NoTupleObj t`: the leaf below the `Optional`/`List`/`Dict` wrappers is neither a `DTuple` nor a raw field dict
    (`detect`/`optimize` produce neither: tuples are never created and field dicts become `ModelPtr`s) -/
abbrev NoTupleObj := Conv.NoTupleObj

/-- the whole function, by the leaf of the spine -/
theorem path_of_type (t : Ty) :
    stringFieldPath t =
      match spineLeaf t with
      | .ser _ => .ok (some (pathOf t))
      | .tuple _ | .obj _ => .error .typeError
      | _ => .ok none :=
  stringFieldPath_eq t

/-- (a) a chain yields the path that spells its nesting -/
theorem path_of_type_chain {k t} (h : Chain k t) : stringFieldPath t = .ok (some (pathOf t)) :=
  stringFieldPath_chain h

/-- (b) anything else without a tuple / raw dict leaf yields nothing: a `union` or `ptr` on the spine, or a leaf
    that is not a pseudo-type (`int float bool str null unknown lit`) -/
theorem path_of_type_none {t} (h1 : ∀ k, ¬ Chain k t) (h2 : NoTupleObj t) : stringFieldPath t = .ok none :=
  stringFieldPath_none h1 h2

/-- (c) it raises only for `tuple` / `obj` leaves, and then `TypeError` -/
theorem path_of_type_error_iff {t e} : stringFieldPath t = .error e ↔ (¬ NoTupleObj t ∧ e = .typeError) :=
  stringFieldPath_error_iff

theorem path_of_type_some_iff {t p} : stringFieldPath t = .ok (some p) ↔ (∃ k, Chain k t) ∧ p = pathOf t :=
  stringFieldPath_some_iff

/-- the repaired behaviour for a field observed only as `[]` (D12) -/
theorem path_of_type_list_unknown : stringFieldPath (.list .unknown) = .ok none := rfl

-- non-vacuity
example : Chain "IntString" (.opt (.list (.list (.ser "IntString")))) := by decide
example : pathOf (.opt (.list (.list (.ser "IntString")))) = ["O", "L", "L", "S"] := rfl
example : stringFieldPath (.opt (.list (.list (.ser "IntString")))) = .ok (some ["O", "L", "L", "S"]) := rfl
example : (∀ k, ¬ Chain k (.list (.union [.ser "IntString", .int]))) ∧ NoTupleObj (.list (.union [.ser "IntString", .int])) :=
  ⟨fun k h => (by cases h; rename_i h; cases h), (by decide)⟩
example : stringFieldPath (.dict (.ptr "3")) = .ok none := rfl
example : stringFieldPath (.list (.lit false ["a"])) = .ok none := rfl
example : ¬ NoTupleObj (.list (.tuple [.int])) := by decide
example : stringFieldPath (.list (.tuple [.int])) = .error .typeError := rfl

/-! ## 2. `convert_correct` -/

/-- for a chain type, its path and every value of the type: the conversion succeeds and replaces exactly the
    string leaves by their parsed values (`null` stays where an `opt` admitted it, empty containers stay empty) -/
theorem convert_correct (acc : Accepts) (g : ModelLookup) {k : String} {t : Ty} (hc : Chain k t)
    (v : Json) (hv : Inh acc g t v) :
    processValue acc (pathOf t) v t false = .ok (mapLeaves k v) :=
  processValue_chain hc v false hv

/-- the same for either value of the `optional` flag (the flag only matters for values outside the type) -/
theorem convert_correct_any_flag (acc : Accepts) (g : ModelLookup) {k : String} {t : Ty} (hc : Chain k t)
    (v : Json) (optional : Bool) (hv : Inh acc g t v) :
    processValue acc (pathOf t) v t optional = .ok (mapLeaves k v) :=
  processValue_chain hc v optional hv

-- non-vacuity: Optional[Dict[str, List[IntString]]] with a null, an empty list and an empty dict
private def accEx : Accepts := fun k s => some (k == "IntString" && (s == "1" || s == "22"))
private def tyEx : Ty := .opt (.dict (.list (.ser "IntString")))
private def gEx : ModelLookup := fun _ => none
example : Chain "IntString" tyEx := by decide
example : Inh accEx gEx tyEx (.obj [("a", .arr [.str "1", .str "22"]), ("b", .arr [])]) := by
  refine .optSome (.dict ?_)
  intro kv hkv
  simp at hkv
  rcases hkv with rfl | rfl
  · refine .list ?_
    intro x hx
    simp at hx
    rcases hx with rfl | rfl <;> exact .ser (by decide)
  · exact .list (by simp)
example : Inh accEx gEx tyEx .null := .optNull
example : Inh accEx gEx tyEx (.obj []) := .optSome (.dict (by simp))
example : mapLeaves "IntString" (.obj [("a", .arr [.str "1", .str "22"]), ("b", .arr [])])
    = .dict [("a", .list [.parsed "IntString" "1", .parsed "IntString" "22"]), ("b", .list [])] := rfl
-- outside the type the call does raise: a rejected string below a required list
example : processValue accEx ["L", "S"] (.arr [.str "x"]) (.list (.ser "IntString")) false = .error .valueError := by
  simp [processValue, accEx, List.mapM_cons, bind, Except.bind, Except.map]

end J2M.C18
