/-
  Property C05, registry level — "models are merged exactly along the configured similarity relation":
  structural facts about `ModelRegistry.process_meta_data`, `_merge`, `merge_models` and the comparators
  (DESIGN §8.5, theorems 3–6).  The grouping loop itself is `Props/C05.lean` (`closure_components`).

  Helper developments: `J2M/Proofs/Registry.lean` (well-formedness, `process_meta_data`),
  `RegistryMerge.lean` (`_merge`, `optimize_type` on a model), `RegistryModels.lean` (`merge_models`),
  `RegistryCmp.lean` (comparators, similarity table), `RegistryPipeline.lean` (`generate` is pointer-free).
-/
import J2M.Proofs.RegistryPipeline
namespace J2M.C05R
open J2M J2M.Reg

/-! ## 0. well-formed registries

`Reg.WF g` (`Graph.WF`): indices pairwise distinct; every index is `indexOf k` for some `k < g.counter` (so
the next indices are fresh); every `.ptr i` in any model's fields, every `PtrRec.target` and every
`PtrRec.parent = some p` is a registered index — no dangling reference. -/

abbrev Graph.WF (g : Graph) : Prop := Reg.WF g

/-- the four clauses, spelled out -/
theorem wf_iff (g : Graph) :
    Graph.WF g ↔
      (g.models.map (·.idx)).Nodup ∧
      (∀ m ∈ g.models, ∃ k, k < g.counter ∧ m.idx = indexOf k) ∧
      (∀ m ∈ g.models, ∀ i ∈ ptrsOfFields m.fields, i ∈ g.models.map (·.idx)) ∧
      (∀ p ∈ g.ptrs, p.target ∈ g.models.map (·.idx) ∧ ∀ q, p.parent = some q → q ∈ g.models.map (·.idx)) :=
  ⟨fun h => ⟨h.nodup, h.bound, h.fields, h.ptrs⟩, fun ⟨a, b, c, d⟩ => ⟨a, b, c, d⟩⟩

/-- `ptrsOfFields` really lists the pointers: `i` occurs iff some field type has the value atom `ModelPtr i` -/
theorem mem_ptrsOfFields_iff (fs : Fields) (i : String) :
    i ∈ ptrsOfFields fs ↔ ∃ f ∈ fs, Atom.ptr i ∈ f.2.atoms := by
  rw [Reg.mem_ptrsOfFields]
  constructor
  · rintro ⟨f, hf, h⟩; exact ⟨f, hf, (mem_ptrsOf_iff_atom i f.2).1 h⟩
  · rintro ⟨f, hf, h⟩; exact ⟨f, hf, (mem_ptrsOf_iff_atom i f.2).2 h⟩

/-! ## 1. `process_meta_data` -/

theorem empty_WF : Graph.WF {} := wf_empty

/-- **processMetaData_WF**: `process_meta_data` keeps the registry well-formed.  The only hypothesis: pointers
    that already occur in the metadata are registered (there are none in what `generate` returns,
    `generate_noPtr`). -/
theorem processMetaData_WF {g : Graph} {fields : Fields} {name : Option String} (wf : Graph.WF g)
    (hp : ∀ i ∈ ptrsOfFields fields, i ∈ g.models.map (·.idx)) : Graph.WF (processMetaData g fields name).1 :=
  Reg.processMetaData_WF wf hp

/-- what `generate` returns contains no pointer (no hypothesis at all) -/
theorem generate_noPtr {cfg : GenCfg} {o : GenOracles} {samples : List Json} {t : Ty}
    (h : generate cfg o samples = .ok t) : ptrsOf t = [] := Reg.generate_noPtr h

/-- **buildGraph_WF**: the registry the pipeline builds from any named sample lists is well-formed -/
theorem buildGraph_WF {cfg : GenCfg} {o : GenOracles} {inputs : List (String × List Json)} {g : Graph}
    (h : buildGraph cfg o inputs = .ok g) : Graph.WF g := Reg.buildGraph_WF h

/-- what `process_meta_data` adds: new models and pointer records are *appended*, with indices from the counter
    range; the returned root index is the first new one; keys of the processed dicts are unchanged -/
theorem processTy_appends {g : Graph} {pm : Option (String × String)} {t : Ty}
    (hb : ∀ m ∈ g.models, ∃ k, k < g.counter ∧ m.idx = indexOf k) :
    ∃ new newp, (processTy g pm t).1.models = g.models ++ new ∧ (processTy g pm t).1.ptrs = g.ptrs ++ newp ∧
      g.counter ≤ (processTy g pm t).1.counter ∧
      ∀ m ∈ new, ∃ k, g.counter ≤ k ∧ k < (processTy g pm t).1.counter ∧ m.idx = indexOf k := by
  obtain ⟨new, newp, e, _⟩ := processTy_ext t g pm hb
  exact ⟨new, newp, e.models, e.ptrs, e.counter, e.range⟩

/-! ### a concrete two-level registry -/

def exFields : Fields := [("a", .int), ("b", .obj [("x", .int)]), ("c", .list (.obj [("x", .int), ("y", .str)]))]
def exG : Graph := (processMetaData {} exFields (some "Root")).1
def exCfg : GenCfg := ⟨⟨15, 20⟩, ⟨[], [], []⟩, [], []⟩

example : exG.models.map (fun m => (m.idx, m.fields)) =
    [("1A", [("a", .int), ("b", .ptr "1B"), ("c", .list (.ptr "1C"))]),
     ("1B", [("x", .int)]), ("1C", [("x", .int), ("y", .str)])] := by
  simp [exG, exFields, processMetaData, processTy, processFields, Graph.setFields, indexOf]
  decide

example : exG.ptrs.map (fun p => (p.target, p.parent, p.field)) =
    [("1A", none, none), ("1B", some "1A", some "b"), ("1C", some "1A", some "c")] := by decide +kernel

/-- non-vacuity: the example registry satisfies `WF` -/
theorem exG_WF : Graph.WF exG := processMetaData_WF empty_WF (by simp [exFields, ptrsOfFields, ptrsOf])

/-- … and `WF` is not trivially true: a dangling pointer, a repeated index, an index above the counter -/
def badDangling : Graph := { models := [{ idx := "1A", fields := [("a", .ptr "1B")] }], ptrs := [], counter := 1 }
def badRepeated : Graph :=
  { models := [{ idx := "1A", fields := [] }, { idx := "1A", fields := [] }], ptrs := [], counter := 1 }
def badCounter : Graph := { models := [{ idx := "1A", fields := [] }], ptrs := [], counter := 0 }
example : ¬ Graph.WF badDangling := by
  intro h
  have := h.fields _ (List.mem_cons_self) "1B" (by simp [ptrsOfFields, ptrsOf])
  simp [idxs, badDangling] at this
example : ¬ Graph.WF badRepeated := by
  intro h; have := h.nodup; simp [idxs, badRepeated] at this
example : ¬ Graph.WF badCounter := by
  intro h; obtain ⟨k, hk, _⟩ := h.bound _ (List.mem_cons_self); simp [badCounter] at hk

/-! ## 2. `_merge` -/

/-- the index map of one `_merge`: members go to the merged model, everything else stays -/
example (members : List String) (idx i : String) :
    σOf members idx i = if members.contains i then idx else i := rfl

/-- `retarget old new` (the model's `ModelPtr.replace`) is the substitution of the one-point map -/
theorem retarget_is_subst (old new : String) (t : Ty) : retarget old new t = substTy (σ1 old new) t :=
  retarget_eq_subst old new t

/-- **mergeGroup_spec** (`_merge` alone).  For a well-formed registry and ANY member list:
    1. the new index is `indexOf g.counter` and is fresh;
    2. the models afterwards are exactly the non-member models, in their old order, with every pointer to a member
       redirected to the new index (`substFields (σOf members idx)`; keys and everything else unchanged),
       followed by the merged model, whose field dict is the (redirected) `merge_field_sets` of the member dicts
       taken in the order of `members`; every pointer record is redirected (target and parent);
    3. a non-member keeps its key list; the merged model's key list is the first-occurrence union of the members'
       key lists;
    4. the result is well-formed — no reference dangles. -/
theorem mergeGroup_spec {cfg : GenCfg} {so : StrOracle} {g g' : Graph} {members : List String} {idx : String}
    (wf : Graph.WF g) (h : mergeGroup cfg so g members = .ok (g', idx)) :
    idx = indexOf g.counter ∧ idx ∉ g.models.map (·.idx) ∧
    (∃ F nm ng,
      mergeFieldSets cfg.lit (g.eqEnv so) ((members.filterMap g.find?).map (·.fields)) = .ok F ∧
      g'.models = (g.models.filter (fun m => !members.contains m.idx)).map
          (fun m => { m with fields := substFields (σOf members idx) m.fields }) ++
        [{ idx := idx, fields := substFields (σOf members idx) F, name := nm, nameGen := ng }] ∧
      g'.ptrs = g.ptrs.map (fun p =>
        { p with target := σOf members idx p.target, parent := p.parent.map (σOf members idx) }) ∧
      g'.counter = g.counter + 1) ∧
    (∀ j ∈ g.models.map (·.idx), members.contains j = false → keysOf g' j = keysOf g j) ∧
    keysOf g' idx = some (dedupStr ((members.filterMap g.find?).flatMap (fun m => m.fields.keys))) ∧
    Graph.WF g' := by
  obtain ⟨F, nm, ng, hF, hidx, rfl⟩ := mergeGroup_eq h
  subst hidx
  refine ⟨rfl, wf.bound.fresh (Nat.le_refl _), ⟨F, nm, ng, hF, rfl, rfl, rfl⟩, ?_, ?_,
    mergedGraph_WF wf (merged_ptrs_registered wf hF)⟩
  · intro j hj hm
    unfold keysOf
    rw [look_merged_nonmember hm hj]
    cases g.look j with
    | none => rfl
    | some fs => simp [Fields.keys, substFields_keys]
  · unfold keysOf
    rw [look_merged_idx wf.bound]
    have := (C02.merge_keys hF).1
    simp only [Option.map_some, Fields.keys, substFields_keys] at this ⊢
    rw [this]
    simp [memberModels, List.flatMap_map, Fields.keys]

/-- the key SET of the merged model is the union of the members' key sets -/
theorem mergeGroup_keys_union {cfg : GenCfg} {so : StrOracle} {g g' : Graph} {members : List String} {idx : String}
    (wf : Graph.WF g) (h : mergeGroup cfg so g members = .ok (g', idx)) (k : String) :
    (∃ ks, keysOf g' idx = some ks ∧ k ∈ ks) ↔ ∃ i ∈ members, ∃ ks, keysOf g i = some ks ∧ k ∈ ks := by
  rw [(mergeGroup_spec wf h).2.2.2.2.1]
  simp only [Option.some.injEq, exists_eq_left', mem_dedupStr, List.mem_flatMap, List.mem_filterMap]
  constructor
  · rintro ⟨m, ⟨i, hi, hf⟩, hk⟩
    exact ⟨i, hi, m.fields.keys, by simp [keysOf, Graph.look, hf], hk⟩
  · rintro ⟨i, hi, ks, hks, hk⟩
    unfold keysOf Graph.look at hks
    cases hf : g.find? i with
    | none => simp [hf] at hks
    | some m =>
      simp only [hf, Option.map_some, Option.some.injEq] at hks
      exact ⟨m, ⟨i, hi, hf⟩, hks ▸ hk⟩

/-! ## 3. `optimize_type` on a registered model -/

/-- **optimize_obj_keys** -/
theorem optimize_obj_keys {cfg : GenCfg} {e : EqEnv} {fuel : Nat} {fs : Fields} {t' : Ty}
    (h : optimize cfg e fuel (.obj fs) = .ok t') : ∃ fs', t' = .obj fs' ∧ fs'.map (·.1) = fs.map (·.1) :=
  Reg.optimize_obj_keys h

/-- **optimize_ptrs_subset**: `optimize_type` never creates or retargets a pointer — every `.ptr i` of the result
    occurs in the input (all fuel, options, registries; from `C02.optimize_no_new_atoms`) -/
theorem optimize_ptrs_subset {cfg : GenCfg} {e : EqEnv} {fuel : Nat} {t t' : Ty}
    (h : optimize cfg e fuel t = .ok t') : ∀ i ∈ ptrsOf t', i ∈ ptrsOf t := Reg.optimize_ptrs_subset h

/-- `merge_field_sets` never creates a pointer -/
theorem mergeFieldSets_ptrs_subset {c : LitCfg} {e : EqEnv} {sets : List Fields} {F : Fields}
    (h : mergeFieldSets c e sets = .ok F) : ∀ i ∈ ptrsOfFields F, ∃ fs ∈ sets, i ∈ ptrsOfFields fs :=
  Reg.mergeFieldSets_ptrs_subset h

/-- `generator.optimize_type(model_meta)`: well-formedness, indices, counter and every key list are kept -/
theorem optimizeModel_spec {cfg : GenCfg} {so : StrOracle} {g g' : Graph} {i : String} (wf : Graph.WF g)
    (h : optimizeModel cfg so g i = .ok g') :
    Graph.WF g' ∧ g'.models.map (·.idx) = g.models.map (·.idx) ∧ g'.counter = g.counter ∧
    ∀ j, keysOf g' j = keysOf g j :=
  let ⟨a, b, c⟩ := optimizeModel_WF wf h
  ⟨a, b, c, optimizeModel_keys h⟩

/-! ## 4. comparators (`cmp_any`, `cmp_symmetric`) -/

/-- **cmp_symmetric**: `exact`, `percent`, `number`, `table` — value *and* exception are symmetric -/
theorem cmp_symmetric (c : Cmp) (a b : List String) : c.holds a b = c.holds b a := Reg.cmp_symmetric c a b

theorem modelsCmp_symmetric (cmps : List Cmp) (a b : List String) : modelsCmp cmps a b = modelsCmp cmps b a :=
  Reg.modelsCmp_symmetric cmps a b

/-- `ModelFieldsEquals` -/
theorem exact_holds (a b : List String) : Cmp.exact.holds a b = .ok true ↔ ∀ k, k ∈ a ↔ k ∈ b :=
  exact_holds_true a b

/-- `ModelFieldsNumberMatch(n)`: `|A ∩ B| ≥ n` -/
theorem number_holds (n : Nat) (a b : List String) :
    (Cmp.number n).holds a b = .ok (decide (keySetInter a b ≥ n)) := rfl

/-- `ModelFieldsPercentMatch(num/den)`: `ZeroDivisionError` on two empty key sets, else
    `|A ∩ B| / |A ∪ B| ≥ num/den` as exact rationals -/
theorem percent_holds (num den : Nat) (a b : List String) :
    (Cmp.percent num den).holds a b =
      if a = [] ∧ b = [] then .error .zeroDivision
      else .ok (decide (keySetInter a b * den ≥ num * keySetUnion a b)) := Reg.percent_holds num den a b

/-- `keySetInter`/`keySetUnion` count the key *sets* -/
theorem keySet_counts (a b : List String) :
    (∃ l : List String, l.Nodup ∧ (∀ x, x ∈ l ↔ x ∈ a ∧ x ∈ b) ∧ keySetInter a b = l.length) ∧
    (∃ l : List String, l.Nodup ∧ (∀ x, x ∈ l ↔ x ∈ a ∨ x ∈ b) ∧ keySetUnion a b = l.length) :=
  ⟨⟨_, (NamesP.nodup_eraseDups a).sublist List.filter_sublist, fun _ => mem_inter_iff, rfl⟩,
   ⟨_, NamesP.nodup_eraseDups _, fun x => by simp [List.mem_eraseDups], rfl⟩⟩

/-- the only exception a comparator raises -/
theorem holds_error_iff {c : Cmp} {a b : List String} {e : PyErr} :
    c.holds a b = .error e ↔ (∃ num den, c = .percent num den) ∧ a = [] ∧ b = [] ∧ e = .zeroDivision :=
  Reg.holds_error_iff

/-- **cmp_any**, exactly (`any` short-circuits):
    * `True`  iff some comparator says `True` and every comparator before it said `False` (none raised);
    * `False` iff every comparator says `False`;
    * raises `e` iff some comparator raises `e` and every comparator before it said `False`. -/
theorem cmp_any {cmps : List Cmp} {a b : List String} :
    (modelsCmp cmps a b = .ok true ↔
      ∃ pre c post, cmps = pre ++ c :: post ∧ (∀ d ∈ pre, d.holds a b = .ok false) ∧ c.holds a b = .ok true) ∧
    (modelsCmp cmps a b = .ok false ↔ ∀ c ∈ cmps, c.holds a b = .ok false) ∧
    (∀ e, modelsCmp cmps a b = .error e ↔
      ∃ pre c post, cmps = pre ++ c :: post ∧ (∀ d ∈ pre, d.holds a b = .ok false) ∧ c.holds a b = .error e) :=
  ⟨cmp_any_true, cmp_any_false, fun _ => cmp_any_error⟩

/-- when one of the key sets is non-empty nothing raises and `_models_cmp_fn` is a plain `any` -/
theorem cmp_any_nonempty {cmps : List Cmp} {a b : List String} (hne : ¬ (a = [] ∧ b = [])) :
    modelsCmp cmps a b = .ok true ↔ ∃ c ∈ cmps, c.holds a b = .ok true := by
  rw [cmp_any_of_no_error hne]
  simp only [Except.ok.injEq, List.any_eq_true, holdsB]
  constructor
  · rintro ⟨c, hc, h⟩
    refine ⟨c, hc, ?_⟩
    split at h
    · assumption
    · cases h
  · rintro ⟨c, hc, h⟩; exact ⟨c, hc, by rw [h]⟩

/-- the short-circuit is observable: the default comparators in the other order, on two empty models -/
example : modelsCmp [.number 0, .percent 7 10] [] [] = .ok true := by decide
example : modelsCmp [.percent 7 10, .number 0] [] [] = .error .zeroDivision := by decide
example : modelsCmp [.percent 7 10, .number 10] ["a", "b", "c"] ["a", "b", "c", "d"] = .ok true := by decide
example : modelsCmp [.percent 7 10, .number 10] ["a", "b"] ["a", "b", "c"] = .ok false := by decide

/-! ## 5. `merge_models` -/

/-- the registry position → index map, and the member lists of the groups -/
example (ix : List String) (grp : List Nat) : memsOf ix grp = grp.map (fun p => ix.getD p "") := rfl
/-- the `k`-th index handed out after `g` -/
example (g : Graph) (k : Nat) : newIdx g k = indexOf (g.counter + k) := rfl
/-- the key list of the model at a registry position -/
example (g : Graph) (p : Nat) : keysAt g p = (g.models.map (fun m => m.fields.keys)).getD p [] := rfl

/-- **mergeModels_spec.**  For a well-formed registry `g` and `mergeModels cfg so cmps g = .ok (g', repl)`, with
    `groups` the groups the closure loop computes from the similarity table (`Closure.mergeGroups`) and
    `Ms = groups.map (memsOf idxs)` their member index lists:
    (a) `repl` lists, per group in group order, the new index (`newIdx g k`, the `k`-th fresh index) and the members;
    (b) the registered indices afterwards are the models of `g` that belong to no group, in their old order, followed
        by the new indices; a model in no group keeps its key list;
    (c) the `k`-th merged model's key list is the first-occurrence union of its members' key lists (as they were in `g`);
    (d) `g'` is well-formed: every reference anywhere in the graph points to a registered model. -/
theorem mergeModels_spec {cfg : GenCfg} {so : StrOracle} {cmps : List Cmp} {g g' : Graph}
    {repl : List (String × List String)} (wf : Graph.WF g) (h : mergeModels cfg so cmps g = .ok (g', repl)) :
    ∃ tbl groups, simTable cmps g = .ok tbl ∧
      Closure.mergeGroups (simOfTbl tbl) g.models.length = some groups ∧
      repl = (groups.map (memsOf (idxs g))).zipIdx.map (fun Mk => (newIdx g Mk.2, Mk.1)) ∧
      idxs g' = (idxs g).filter (fun i => !inSome (groups.map (memsOf (idxs g))) i) ++
                  (List.range groups.length).map (newIdx g) ∧
      (∀ j ∈ idxs g, inSome (groups.map (memsOf (idxs g))) j = false → keysOf g' j = keysOf g j) ∧
      (∀ k (hk : k < groups.length),
        keysOf g' (newIdx g k) = some (dedupStr (memberKeys g (memsOf (idxs g) groups[k])))) ∧
      Graph.WF g' ∧ g'.counter = g.counter + groups.length :=
  mergeModels_struct wf h

/-- (c) as sets: a key belongs to the `k`-th merged model iff it belongs to one of its members (in `g`) -/
theorem mergeModels_keys_union {cfg : GenCfg} {so : StrOracle} {cmps : List Cmp} {g g' : Graph}
    {repl : List (String × List String)} (wf : Graph.WF g) (h : mergeModels cfg so cmps g = .ok (g', repl))
    {p : String × List String} (hp : p ∈ repl) (key : String) :
    (∃ ks, keysOf g' p.1 = some ks ∧ key ∈ ks) ↔ ∃ i ∈ p.2, ∃ ks, keysOf g i = some ks ∧ key ∈ ks := by
  obtain ⟨tbl, groups, _, _, hrepl, _, _, hnew, _⟩ := mergeModels_struct wf h
  rw [hrepl] at hp
  obtain ⟨Mk, hMk, rfl⟩ := List.mem_map.1 hp
  obtain ⟨hk, e⟩ := List.mem_zipIdx' (x := Mk.1) (i := Mk.2) hMk
  simp only [List.length_map] at hk
  have := hnew Mk.2 hk
  simp only [List.getElem_map] at e
  rw [← e] at this
  simp only [this, Option.some.injEq, exists_eq_left', mem_dedupStr, memberKeys_eq, List.mem_flatMap]
  constructor
  · rintro ⟨i, hi, hkey⟩
    cases hks : keysOf g i with
    | none => rw [hks] at hkey; simp at hkey
    | some ks => rw [hks] at hkey; exact ⟨i, hi, ks, hks, by simpa using hkey⟩
  · rintro ⟨i, hi, ks, hks, hkey⟩
    exact ⟨i, hi, by rw [hks]; simpa using hkey⟩

/-- (b) as an equivalence: a model of `g` is still registered afterwards iff it belongs to no group -/
theorem mergeModels_registered_iff {cfg : GenCfg} {so : StrOracle} {cmps : List Cmp} {g g' : Graph}
    {repl : List (String × List String)} (wf : Graph.WF g) (h : mergeModels cfg so cmps g = .ok (g', repl))
    {j : String} (hj : j ∈ idxs g) : j ∈ idxs g' ↔ ∀ p ∈ repl, j ∉ p.2 := by
  obtain ⟨tbl, groups, _, _, hrepl, hidx, _⟩ := mergeModels_struct wf h
  have hsnd : ∀ M, (∃ p ∈ repl, p.2 = M) ↔ M ∈ groups.map (memsOf (idxs g)) := by
    intro M
    rw [hrepl]
    constructor
    · rintro ⟨p, hp, rfl⟩
      obtain ⟨Mk, hMk, rfl⟩ := List.mem_map.1 hp
      exact List.fst_mem_of_mem_zipIdx hMk
    · intro hM
      obtain ⟨k, hk, e⟩ := List.getElem_of_mem hM
      refine ⟨(newIdx g k, M), List.mem_map.2 ⟨(M, k), ?_, rfl⟩, rfl⟩
      rw [List.mem_zipIdx_iff_getElem?, List.getElem?_eq_getElem hk, e]
  rw [hidx, List.mem_append, List.mem_filter]
  constructor
  · rintro (⟨_, hno⟩ | hnew)
    · intro p hp hjp
      have : inSome (groups.map (memsOf (idxs g))) j = false := by simpa using hno
      have := inSome_false_iff.1 this p.2 ((hsnd p.2).1 ⟨p, hp, rfl⟩)
      simp [hjp] at this
    · obtain ⟨k, _, rfl⟩ := List.mem_map.1 hnew
      exact absurd hj (newIdx_not_mem wf k)
  · intro hno
    left
    refine ⟨hj, ?_⟩
    have : inSome (groups.map (memsOf (idxs g))) j = false := by
      rw [inSome_false_iff]
      intro M hM
      obtain ⟨p, hp, rfl⟩ := (hsnd M).2 hM
      simpa using hno p hp
    simp [this]

/-- (d) spelled out: **no_dangling** -/
theorem no_dangling {cfg : GenCfg} {so : StrOracle} {cmps : List Cmp} {g g' : Graph}
    {repl : List (String × List String)} (wf : Graph.WF g) (h : mergeModels cfg so cmps g = .ok (g', repl)) :
    (∀ m ∈ g'.models, ∀ i ∈ ptrsOfFields m.fields, i ∈ g'.models.map (·.idx)) ∧
    (∀ p ∈ g'.ptrs, p.target ∈ g'.models.map (·.idx) ∧ ∀ q, p.parent = some q → q ∈ g'.models.map (·.idx)) ∧
    (g'.models.map (·.idx)).Nodup := by
  obtain ⟨_, _, _, _, _, _, _, _, wf', _⟩ := mergeModels_struct wf h
  exact ⟨wf'.fields, wf'.ptrs, wf'.nodup⟩

/-- the table holds `_models_cmp_fn` of every pair of positions `i < j`, on the key lists of `g` -/
theorem simTable_spec {cmps : List Cmp} {g : Graph} {tbl : List (List Bool)} (h : simTable cmps g = .ok tbl)
    {i j : Nat} (hij : i < j) (hj : j < g.models.length) :
    modelsCmp cmps (keysAt g i) (keysAt g j) = .ok ((tbl.getD i []).getD j false) := Reg.simTable_spec h hij hj

/-- **C05_merge_iff.**  `SimEdge cmps g x y`: `x ≠ y` are registry positions and `_models_cmp_fn` says `True` on
    their key lists (in `g`, i.e. the ORIGINAL key sets); `Chain` is its reflexive-transitive closure.
    Two different original models are members of the same replacement entry — end up as one class — iff they are
    connected by a chain of similar pairs. -/
theorem C05_merge_iff {cfg : GenCfg} {so : StrOracle} {cmps : List Cmp} {g g' : Graph}
    {repl : List (String × List String)} (wf : Graph.WF g) (h : mergeModels cfg so cmps g = .ok (g', repl))
    {a b : Nat} (ha : a < g.models.length) (hb : b < g.models.length) (hab : a ≠ b) :
    (∃ p ∈ repl, (idxs g).getD a "" ∈ p.2 ∧ (idxs g).getD b "" ∈ p.2) ↔ Chain cmps g a b :=
  mergeModels_merge_iff wf h ha hb hab

/-- **C05_merge_iff, as classes.**  `σFold repl` is the index map of the whole `merge_models` call (a merged member
    goes to the index of its merged model, every other index stays — `C01R.mergeModels_sound`).  Two different
    original models end up as the SAME registered model iff they are connected by a chain of similar pairs. -/
theorem C05_same_class_iff {cfg : GenCfg} {so : StrOracle} {cmps : List Cmp} {g g' : Graph}
    {repl : List (String × List String)} (wf : Graph.WF g) (h : mergeModels cfg so cmps g = .ok (g', repl))
    {a b : Nat} (ha : a < g.models.length) (hb : b < g.models.length) (hab : a ≠ b) :
    σFold repl ((idxs g).getD a "") = σFold repl ((idxs g).getD b "") ↔ Chain cmps g a b := by
  obtain ⟨hσ1, hσ2⟩ := mergeModels_σ wf h
  obtain ⟨tbl, groups, _, _, hrepl, _⟩ := mergeModels_struct wf h
  have hlen : (idxs g).length = g.models.length := by simp [idxs]
  have ha' : a < (idxs g).length := by rw [hlen]; exact ha
  have hb' : b < (idxs g).length := by rw [hlen]; exact hb
  have hne : (idxs g).getD a "" ≠ (idxs g).getD b "" := fun e => hab (getD_inj wf.nodup ha' hb' e)
  have hfst : ∀ p ∈ repl, ∃ k, p.1 = newIdx g k ∧ (groups.map (memsOf (idxs g)))[k]? = some p.2 := by
    intro p hp
    rw [hrepl] at hp
    obtain ⟨Mk, hMk, rfl⟩ := List.mem_map.1 hp
    exact ⟨Mk.2, rfl, List.mem_zipIdx_iff_getElem?.1 hMk⟩
  have hnew : ∀ p ∈ repl, p.1 ∉ idxs g := by
    intro p hp
    obtain ⟨k, e, _⟩ := hfst p hp
    rw [e]; exact newIdx_not_mem wf k
  rw [← C05_merge_iff wf h ha hb hab]
  constructor
  · intro e
    by_cases h1 : ∃ p ∈ repl, (idxs g).getD a "" ∈ p.2
    · obtain ⟨p, hp, hpa⟩ := h1
      rw [hσ1 p hp _ hpa] at e
      by_cases h2 : ∃ q ∈ repl, (idxs g).getD b "" ∈ q.2
      · obtain ⟨q, hq, hqb⟩ := h2
        rw [hσ1 q hq _ hqb] at e
        obtain ⟨kp, ep, gp⟩ := hfst p hp
        obtain ⟨kq, eq, gq⟩ := hfst q hq
        have : kp = kq := by
          have : indexOf (g.counter + kp) = indexOf (g.counter + kq) := by
            rw [← newIdx, ← newIdx, ← ep, ← eq, e]
          have := indexOf_inj this
          omega
        subst this
        rw [gp] at gq
        have : p.2 = q.2 := by injection gq
        exact ⟨p, hp, hpa, this ▸ hqb⟩
      · have : σFold repl ((idxs g).getD b "") = (idxs g).getD b "" :=
          hσ2 _ (fun q hq => by
            cases hc : q.2.contains ((idxs g).getD b "") with
            | false => rfl
            | true => exact absurd ⟨q, hq, by simpa using hc⟩ h2)
        rw [this] at e
        exact absurd (e ▸ getD_mem hb') (hnew p hp)
    · have e1 : σFold repl ((idxs g).getD a "") = (idxs g).getD a "" :=
        hσ2 _ (fun q hq => by
          cases hc : q.2.contains ((idxs g).getD a "") with
          | false => rfl
          | true => exact absurd ⟨q, hq, by simpa using hc⟩ h1)
      rw [e1] at e
      by_cases h2 : ∃ q ∈ repl, (idxs g).getD b "" ∈ q.2
      · obtain ⟨q, hq, hqb⟩ := h2
        rw [hσ1 q hq _ hqb] at e
        exact absurd (e ▸ getD_mem ha') (hnew q hq)
      · have : σFold repl ((idxs g).getD b "") = (idxs g).getD b "" :=
          hσ2 _ (fun q hq => by
            cases hc : q.2.contains ((idxs g).getD b "") with
            | false => rfl
            | true => exact absurd ⟨q, hq, by simpa using hc⟩ h2)
        rw [this] at e
        exact absurd e hne
  · rintro ⟨p, hp, hpa, hpb⟩
    rw [hσ1 p hp _ hpa, hσ1 p hp _ hpb]

example (cmps : List Cmp) (g : Graph) (x y : Nat) :
    SimEdge cmps g x y ↔ x < g.models.length ∧ y < g.models.length ∧ x ≠ y ∧
      modelsCmp cmps (keysAt g x) (keysAt g y) = .ok true := Iff.rfl

/-- `SimEdge` is symmetric (by `cmp_symmetric`) -/
theorem simEdge_symm {cmps : List Cmp} {g : Graph} {x y : Nat} (h : SimEdge cmps g x y) : SimEdge cmps g y x :=
  ⟨h.2.1, h.1, fun e => h.2.2.1 e.symm, by rw [Reg.modelsCmp_symmetric]; exact h.2.2.2⟩

/-! ### the example registry: `1B = {x}` and `1C = {x, y}` are merged by `number 1`, not by `exact` -/

example : (mergeModels exCfg StrOracle.default [Cmp.exact] exG).toOption.map (·.2) = some [] := by decide +kernel

/-- (field types shown by their hash strings, which are injective: `Props/HashInj.lean`) -/
theorem ex_merge :
    (mergeModels exCfg StrOracle.default [Cmp.number 1] exG).toOption.map
      (fun r => (r.2, r.1.models.map (fun m => (m.idx, m.fields.map (fun f => (f.1, hashStr f.2)))))) =
    some ([("1D", ["1B", "1C"])],
          [("1A", [("a", "<class 'int'>"), ("b", "ModelPtr_#1D"), ("c", "DList/ModelPtr_#1D")]),
           ("1D", [("x", "<class 'int'>"), ("y", "DOptional/<class 'str'>")])]) := by decide +kernel

/-- the known crash outside the relation: two models with EMPTY key sets (two inputs whose samples are `{}`) and
    the default comparators `(ModelFieldsPercentMatch(.7), ModelFieldsNumberMatch(10))` — `ZeroDivisionError`;
    with the comparators in the other order and `number 0` the same registry merges fine (`any` short-circuits) -/
def exEmpty : Graph := (processMetaData (processMetaData {} [] (some "A")).1 [] (some "B")).1
example : (match mergeModels exCfg StrOracle.default [.percent 7 10, .number 10] exEmpty with
    | .error .zeroDivision => true | _ => false) = true := by decide +kernel
example : (mergeModels exCfg StrOracle.default [.number 0, .percent 7 10] exEmpty).toOption.map (·.2) =
    some [("1C", ["1A", "1B"])] := by decide +kernel

/-- the hypotheses of `mergeModels_spec` / `C05_merge_iff` are satisfiable: positions 1 and 2 are similar -/
example : SimEdge [Cmp.number 1] exG 1 2 := by
  refine ⟨by decide +kernel, by decide +kernel, by decide, ?_⟩
  decide +kernel

end J2M.C05R

#print axioms J2M.C05R.processMetaData_WF
#print axioms J2M.C05R.buildGraph_WF
#print axioms J2M.C05R.generate_noPtr
#print axioms J2M.C05R.mergeGroup_spec
#print axioms J2M.C05R.mergeGroup_keys_union
#print axioms J2M.C05R.optimize_obj_keys
#print axioms J2M.C05R.optimize_ptrs_subset
#print axioms J2M.C05R.optimizeModel_spec
#print axioms J2M.C05R.cmp_symmetric
#print axioms J2M.C05R.cmp_any
#print axioms J2M.C05R.cmp_any_nonempty
#print axioms J2M.C05R.percent_holds
#print axioms J2M.C05R.mergeModels_spec
#print axioms J2M.C05R.mergeModels_keys_union
#print axioms J2M.C05R.mergeModels_registered_iff
#print axioms J2M.C05R.no_dangling
#print axioms J2M.C05R.C05_merge_iff
#print axioms J2M.C05R.C05_same_class_iff
#print axioms J2M.C05R.ex_merge
