/-
  C14 — "A generation is independent of what the process did before"   (DESIGN §8.14, context part)

  Model: `J2M.Runtime.exec` — a rendering body with nested `with AbsoluteModelRef.inject(...)` blocks run in a
  thread `t` over the per-thread store of `AbsoluteModelRef.Context.data.context` (models_meta.py:170-188).
  `__exit__` runs on every path, so the store is restored whether the body completes or raises.
  States are compared through `CtxState.get` (the only way the code reads the store).
-/
import J2M.Proofs.Runtime
namespace J2M.C14
open J2M J2M.Runtime

/-! ## 1. `ctx_restored` -/

/--
  **C14.1** After running any body in thread `t` from any state — completing or raising — thread `t`
  reads the context it read before, and so does every other thread.
-/
theorem ctx_restored (t : ThreadId) (body : Body) (s : CtxState) :
    (exec t body s).1.get t = s.get t ∧
    ∀ t', t' ≠ t → (exec t body s).1.get t' = s.get t' :=
  ⟨exec_get t body s t, fun t' _ => exec_get t body s t'⟩

/-- the store behaves like a map -/
theorem ctx_get_set (s : CtxState) (t t' : ThreadId) (c : Ctx) :
    (s.set t c).get t = c ∧ (t' ≠ t → (s.set t c).get t' = s.get t') :=
  ⟨CtxState.get_set_same s t c, fun h => CtxState.get_set_other s c h⟩

/-- a body that raises inside two nested injects, with an outer context already in force -/
def demoBody : Body :=
  .inject [("Child", "Parent")]
    (.seq .read (.inject [("Child", "Parent.Inner")] (.seq .read (.seq .raise .read))))

def demoState : CtxState := (({} : CtxState).set 7 (some [("X", "Y")])).set 3 none

example : (exec 7 demoBody demoState).2.1 = false := by rfl          -- it raises
example : (exec 7 demoBody demoState).2.2 =
    [some [("Child", "Parent")], some [("Child", "Parent.Inner")]] := by rfl
example : (exec 7 demoBody demoState).1.get 7 = some [("X", "Y")] := by rfl   -- restored, not `none`
example : (exec 7 demoBody demoState).1.get 3 = none := by rfl
example : demoState.get 7 = some [("X", "Y")] := by rfl

/-! ## 2. `reads_see_innermost` -/

/--
  **C14.2** A read directly inside `inject p` observes `p`, whatever was in force outside; a read at top
  level observes the thread's current context; after an inner block exits (normally), reads observe the
  enclosing block's patches again.
-/
theorem reads_see_innermost (t : ThreadId) (s : CtxState) (p q : List (String × String)) :
    (exec t (.inject p .read) s).2.2 = [some p] ∧
    (exec t .read s).2.2 = [s.get t] ∧
    (exec t (.inject p (.inject q .read)) s).2.2 = [some q] ∧
    (exec t (.inject p (.seq (.inject q .read) .read)) s).2.2 = [some q, some p] := by
  simp [exec_snd, observe]

/-- general form: everything inside `inject p` is observed as if the body started with context `some p`;
    the state outside is irrelevant -/
theorem inject_observes (t : ThreadId) (s : CtxState) (p : List (String × String)) (body : Body) :
    (exec t (.inject p body) s).2 = observe (some p) body := by
  rw [exec_snd]; rfl

example : (exec 0 (.inject [("A", "B")] .read) {}).2.2 = [some [("A", "B")]] := by rfl
example : (exec 0 .read {}).2.2 = [none] := by rfl

/-! ## 3. `history_free_ctx` -/

/--
  **C14.3 (core)** The completion flag and the contexts observed by a body are a function (`observe`) of
  the body and of its own thread's slot when it starts — nothing else in the state matters.
-/
theorem obs_depends_only_on_slot (t : ThreadId) (b : Body) (s s' : CtxState)
    (h : s.get t = s'.get t) : (exec t b s).2 = (exec t b s').2 := by
  rw [exec_snd, exec_snd, h]

/--
  **C14.3** For every history of bodies — any length, run in any threads, completing or raising — and every
  start state `s₀`, a body run after the history completes/raises and observes exactly what it does when
  run alone from `s₀`, and the slots read after the history are those of `s₀`.
  (No hypothesis on `s₀` is needed: `exec` restores every slot from every state.)
-/
theorem history_free_ctx (hist : List (ThreadId × Body)) (t : ThreadId) (b : Body) (s₀ : CtxState) :
    (exec t b (hist.foldl (fun s x => (exec x.1 x.2 s).1) s₀)).2 = (exec t b s₀).2 ∧
    ∀ t', (hist.foldl (fun s x => (exec x.1 x.2 s).1) s₀).get t' = s₀.get t' :=
  ⟨obs_depends_only_on_slot t b _ _ (history_get hist s₀ t), history_get hist s₀⟩

/-- the single-thread reading of the property text: bodies run one after another in thread `t` -/
theorem history_free_ctx_thread (bodies : List Body) (t : ThreadId) (b : Body) (s₀ : CtxState) :
    (exec t b (bodies.foldl (fun s x => (exec t x s).1) s₀)).2 = (exec t b s₀).2 := by
  have := (history_free_ctx (bodies.map (fun x => (t, x))) t b s₀).1
  simpa [List.foldl_map] using this

/-- from the process's initial state (or any state where the thread's slot is the default `None`)
    every body observes what `observe none` says, after any history -/
theorem fresh_process_obs (hist : List (ThreadId × Body)) (t : ThreadId) (b : Body) (s₀ : CtxState)
    (h : s₀.get t = none) :
    (exec t b (hist.foldl (fun s x => (exec x.1 x.2 s).1) s₀)).2 = observe none b := by
  rw [(history_free_ctx hist t b s₀).1, exec_snd, h]

example : (exec 7 (.inject [("A", "B")] .read)
      ([(7, demoBody), (3, demoBody), (7, .raise)].foldl (fun s x => (exec x.1 x.2 s).1) {})).2
    = (true, [some [("A", "B")]]) := by rfl
example : ({} : CtxState).get 7 = none := rfl

end J2M.C14
