/-
  Property C02, registry level — "inferred types are tight" through `process_meta_data` and `merge_models`
  (the generator stage is `Props/C02T.lean`: `generate_tight`; the dual soundness statement is `Props/C01R.lean`).

  Helper developments: `J2M/Proofs/C02RHelpers.lean` (definitions), `…Union.lean` (`DUnion`, `merge_field_sets`),
  `…Opt.lean` (`optimize_type`), `…Merge.lean` (`_merge`, the fold, the final pass), `…Process.lean`
  (`process_meta_data`), `…Pipeline.lean` (`buildGraph`).

  ## vocabulary

  * `Obj : String → Json → Prop` — *attribution*: "the JSON object `o` (a sub-object of a sample) belongs to model
    `j`".  Before `merge_models` it is `Routed g0.look roots`: `o` is reached from a root sample by following the
    type graph (`Reach`); after `merge_models` it is `ObjMap (σFold repl) …`: a merged model gets the UNION of the
    objects of its members, every other model keeps its own.
  * `GWit Obj acc a u t vs` — STRICT graph-level witness: clause by clause `C02T.Wit` (`gclause_*` below); a
    pointer position `.ptr j` is witnessed by an object among `vs` attributed to `j`.
  * `GModel Obj acc fs ws` — the field dict `fs` is witnessed by the objects `ws` (the `.obj` clause of `Wit`):
    a field is `Optional` only if an object of `ws` lacks the key or holds `null`, …
  * `TightG Obj acc g` — every registered model is `GModel`-witnessed by objects attributed to it.
  * `LWit` / `LModel` / `TightL` — the LAX versions (licences handed down through `DUnion`; `Unknown` also
    licensed by an observed `null`), the invariant that survives a single `_merge` + `optimize_type`.

  ## results

  1. `processTy_tight`, `processMetaData_tight`, `buildGraph_tight` — STRICT, for all inputs/options/oracles.
  2. `mergeFieldSets_tight_registry`, `optimize_tight_registry` — the two generator lemmas on registry-stage types
     (pointers, `DOptional` fields, arbitrary shape): LAX.  These are the lemmas `C02T.mergeFieldSets_tight`
     (`SetOK`: no `DOptional` field) and `C02T.optimize_tight` (`C08P.Raw`) do not provide.
  3. `mergeGroup_tight_partial`, `mergeModels_tight_partial`, `registry_tight_partial` — LAX, all inputs.
  4. `mergeGroup_tight_false` — the STRICT single-step statement is FALSE: a concrete JSON input for which
     `_merge` + `optimize_type` leaves `List[Optional[Union[int, Any]]]` (only the final pass of `merge_models`
     repairs it, `ExP.exP_optimize_again`).  The strict end-to-end statement `registry_tight_Statement` is left open.
  5. `stale_model_example` — after `merge_models` a registered model can be referenced by no field at all.
-/
import J2M.Proofs.C02RHelpersExample
import J2M.Props.C01R
import J2M.Props.C02T
namespace J2M.C02R
open J2M J2M.Reg J2M.C02T J2M.C02RH

variable {Obj : ObjRel} {acc : Accepts} {a u : Prop} {vs : List Json}

/-! ## 0. the definitions, clause by clause -/

/-- atoms, `Literal`, `Optional`, `List`, `Dict`: exactly the clauses of `C02T.Wit` -/
theorem gclause_int : GWit Obj acc a u .int vs ↔ ∃ i, Json.int i ∈ vs := by simp only [GWit]
theorem gclause_float : GWit Obj acc a u .float vs ↔ ∃ x, Json.float x ∈ vs := by simp only [GWit]
theorem gclause_null : GWit Obj acc a u .null vs ↔ Json.null ∈ vs := by simp only [GWit]
theorem gclause_str : GWit Obj acc a u .str vs ↔ ∃ s, Json.str s ∈ vs := by simp only [GWit]
theorem gclause_ser {k : String} :
    GWit Obj acc a u (.ser k) vs ↔ ∃ s, Json.str s ∈ vs ∧ acc k s = some true := by simp only [GWit]
theorem gclause_lit {ws : List String} :
    GWit Obj acc a u (.lit false ws) vs ↔ ws ≠ [] ∧ ∀ w ∈ ws, Json.str w ∈ vs := by simp only [GWit]
theorem gclause_unknown : GWit Obj acc a u .unknown vs ↔ u := by simp only [GWit]
theorem gclause_opt {t : Ty} :
    GWit Obj acc a u (.opt t) vs ↔ (a ∨ Json.null ∈ vs) ∧ GWit Obj acc a u t vs := by simp only [GWit]
theorem gclause_union {ts : List Ty} :
    GWit Obj acc a u (.union ts) vs ↔ ts ≠ [] ∧ ∀ t ∈ ts, GWit Obj acc False False t vs := gwit_union
theorem gclause_list {t : Ty} :
    GWit Obj acc a u (.list t) vs ↔ GWit Obj acc False (Json.arr [] ∈ vs) t (elemsOf vs) := by simp only [GWit]
theorem gclause_dict {t : Ty} :
    GWit Obj acc a u (.dict t) vs ↔ GWit Obj acc False (Json.obj [] ∈ vs) t (valsOf vs) := by simp only [GWit]
/-- NEW: a model pointer is witnessed by an object at the position that is attributed to the target model -/
theorem gclause_ptr {j : String} :
    GWit Obj acc a u (.ptr j) vs ↔ ∃ kvs, Json.obj kvs ∈ vs ∧ Obj j (.obj kvs) := by simp only [GWit]
/-- inline field dicts do not occur at the registry stage -/
theorem gclause_obj {fs : Fields} : ¬ GWit Obj acc a u (.obj fs) vs := by simp only [GWit, not_false_eq_true]

/-- a witnessed model: some attributed object has only keys of the model; every field type is witnessed by the
    values at its key, `Optional` being licensed by an object lacking the key -/
example {fs : Fields} {ws : List Json} : GModel Obj acc fs ws ↔
    HasObjWithin (fs.map (·.1)) ws ∧ ∀ kv ∈ fs, GWit Obj acc (LacksKey kv.1 ws) False kv.2 (fieldVals kv.1 ws) :=
  Iff.rfl

example {g : Graph} : TightG Obj acc g ↔
    ∀ m ∈ g.models, ∃ ws, GModel Obj acc m.fields ws ∧ ∀ o ∈ ws, Obj m.idx o := Iff.rfl

/-- the lax relation differs from the strict one in two clauses only: the licences go down into `DUnion`
    members, and `Unknown` is also licensed by an observed `null` -/
theorem lclause_union {ts : List Ty} :
    LWit Obj acc a u (.union ts) vs ↔ ts ≠ [] ∧ ∀ t ∈ ts, LWit Obj acc a u t vs := lwit_union
theorem lclause_unknown : LWit Obj acc a u .unknown vs ↔ u ∨ Json.null ∈ vs := by simp only [LWit]
theorem lclause_opt {t : Ty} :
    LWit Obj acc a u (.opt t) vs ↔ (a ∨ Json.null ∈ vs) ∧ LWit Obj acc a u t vs := by simp only [LWit]
theorem lclause_ptr {j : String} :
    LWit Obj acc a u (.ptr j) vs ↔ ∃ kvs, Json.obj kvs ∈ vs ∧ Obj j (.obj kvs) := by simp only [LWit]
theorem lclause_lit {ws : List String} :
    LWit Obj acc a u (.lit false ws) vs ↔ ws ≠ [] ∧ ∀ w ∈ ws, Json.str w ∈ vs := by simp only [LWit]
theorem lclause_int : LWit Obj acc a u .int vs ↔ ∃ i, Json.int i ∈ vs := by simp only [LWit]

/-- strict implies lax -/
theorem gwit_lwit {t : Ty} (h : GWit Obj acc a u t vs) : LWit Obj acc a u t vs := GWit.toL t h
theorem tightG_tightL {g : Graph} (h : TightG Obj acc g) : TightL Obj acc g := h.toL

/-! ### the lax relation is not vacuous: types that are NOT (laxly) witnessed -/

/-- `Optional[int]` without an observed `null` or a missing key -/
example : ¬ LWit Obj acc False False (.opt .int) [.int 1] := by simp [LWit]
/-- `float` from an `int` alone -/
example : ¬ LWit Obj acc a u .float [.int 1] := by simp [LWit]
/-- a `Literal` listing a string that did not occur -/
example : ¬ LWit Obj acc a u (.lit false ["a", "b"]) [.str "a"] := by simp [LWit]
/-- `List[Any]` without an observed empty list (or `null` element) -/
example : ¬ LWit Obj acc a u (.list .unknown) [.arr [.int 1]] := by simp [LWit, elemsOf]
/-- a union member that no value exhibits -/
example : ¬ LWit Obj acc False False (.union [.int, .str]) [.int 1] := by simp [LWit, LWitAll]
/-- `Any` as a union member at a field (no enclosing container): only an observed `null` could license it -/
example : ¬ LWit Obj acc a False (.union [.int, .unknown]) [.int 1] := by simp [LWit, LWitAll]
/-- a pointer without an object attributed to its target at the position -/
example : ¬ LWit (fun _ _ => False) acc a u (.ptr "1B") [.obj []] := by simp [LWit]
example : ¬ LWit Obj acc a u (.ptr "1B") [.int 1] := by simp [LWit]
/-- a model none of whose objects lacks an `Optional` key -/
example : ¬ LModel Obj acc [("a", .opt .int)] [.obj [("a", .int 1)], .obj [("a", .int 2)]] := by
  intro h
  have := h.2 ("a", .opt .int) (by simp)
  simp [LWit, LacksKey, fieldVals] at this

/-- routing (`Reach`), by cases -/
example {L : ModelLookup} {j : String} {kvs : List (String × Json)} :
    Reach L (.ptr j) (.obj kvs) j (.obj kvs) := .here
example {L : ModelLookup} {j j' k : String} {kvs : List (String × Json)} {fs : Fields} {t : Ty} {v o : Json}
    (h1 : L j = some fs) (h2 : (k, t) ∈ fs) (h3 : (k, v) ∈ kvs) (h4 : Reach L t v j' o) :
    Reach L (.ptr j) (.obj kvs) j' o := .into h1 h2 h3 h4

/-! ## 1. `process_meta_data` — strict -/

/-- **processTy_tight** (mirror of `C01R.processTy_sound`).  A pointer-free type witnessed by `vs` in the sense of
    `C02T.Wit` is registered as a type witnessed by `vs` in the sense of `GWit`, and every model registered on
    the way is witnessed by the sub-objects of `vs` that the processed type routes to it. -/
theorem processTy_tight {g : Graph} {pm : Option (String × String)} {t : Ty}
    (hb : ∀ m ∈ g.models, ∃ k, k < g.counter ∧ m.idx = indexOf k) (hw : Wit acc a u t vs) :
    GWit (At (processTy g pm t).1.look (processTy g pm t).2 vs) acc a u (processTy g pm t).2 vs ∧
    ∀ m ∈ (processTy g pm t).1.models, m.idx ∉ g.models.map (·.idx) →
      ∃ ws, GModel (At (processTy g pm t).1.look (processTy g pm t).2 vs) acc m.fields ws ∧
        ∀ o ∈ ws, At (processTy g pm t).1.look (processTy g pm t).2 vs m.idx o :=
  processTy_gwit t g pm a u vs _ _ hb hw (fun _ _ _ => rfl) (fun _ _ h => h)

/-- **`process_meta_data` keeps a registry strictly tight** -/
theorem processMetaData_tight {g : Graph} {fields : Fields} {name : Option String} {samples : List Json}
    {roots : List (String × Json)} (wf : WF g) (ht : TightG (Routed g.look roots) acc g)
    (hw : Wit acc False False (.obj fields) samples) :
    TightG (Routed (processMetaData g fields name).1.look
      (roots ++ samples.map (fun s => ((processMetaData g fields name).2, s)))) acc
      (processMetaData g fields name).1 :=
  processMetaData_tightG wf ht hw

/-- every input comes with at least one sample (`generate()` of no sample is the empty model, which nothing
    witnesses: `C02T.ex_no_samples`) -/
def NonEmptyInputs (inputs : List (String × List Json)) : Prop := ∀ inp ∈ inputs, inp.2 ≠ []

/-- the root pairs of a registry built from `inputs`: every pair carries a sample of some input, and every input
    has a root model index that is paired with each of its samples -/
def RootsOf (inputs : List (String × List Json)) (roots : List (String × Json)) : Prop :=
  (∀ r ∈ roots, ∃ inp ∈ inputs, r.2 ∈ inp.2) ∧ (∀ inp ∈ inputs, ∃ root, ∀ s ∈ inp.2, (root, s) ∈ roots)

/-- **buildGraph_tight**: the registry built by `generate` + `process_meta_data` of every named sample list is
    STRICTLY tight: every registered model is witnessed by the sample sub-objects routed to it. -/
theorem buildGraph_tight {cfg : GenCfg} {o : GenOracles} {inputs : List (String × List Json)} {g : Graph}
    (hne : NonEmptyInputs inputs) (h : buildGraph cfg o inputs = .ok g) :
    ∃ roots, RootsOf inputs roots ∧ TightG (Routed g.look roots) o.accepts g := by
  obtain ⟨roots, ⟨_, r2, r3⟩, ht⟩ := buildGraph_tightG hne h
  refine ⟨roots, ⟨fun r hr => ?_, r3⟩, ht⟩
  rcases r2 r hr with h | h
  · cases h
  · exact h

/-! ## 2. `merge_field_sets` / `optimize_type` on registry-stage types — lax -/

/-- **the lemma missing from the generator stage, part 1**: `merge_field_sets` of field sets that may contain
    `DOptional` fields and model pointers.  `SetL Obj acc vs fs`: some object of `vs` has only keys of `fs`, and
    every field of `fs` is (laxly) witnessed by the values at its key. -/
theorem mergeFieldSets_tight_registry {c : LitCfg} {e : EqEnv} {sets : List Fields} {r : Fields}
    (h : mergeFieldSets c e sets = .ok r) (hne : sets ≠ []) (hs : ∀ fs ∈ sets, SetL Obj acc vs fs) :
    LModel Obj acc r vs := mergeFieldSets_lwit h hne hs

/-- **part 2**: `optimize_type` on ANY (laxly) witnessed type — no `Raw`/normal-form hypothesis, any fuel, any
    `==` — keeps it witnessed by the same values under the same licences -/
theorem optimize_tight_registry {cfg : GenCfg} {e : EqEnv} {fuel : Nat} {t t' : Ty}
    (hw : LWit Obj acc a u t vs) (h : optimize cfg e fuel t = .ok t') : LWit Obj acc a u t' vs :=
  optimize_lwit hw h

theorem optimizeUnion_tight_registry {cfg : GenCfg} {e : EqEnv} {fuel : Nat} {ms : List Ty} {t' : Ty}
    (hne : ms ≠ []) (hw : ∀ m ∈ ms, LWit Obj acc a u m vs) (h : optimizeUnion cfg e fuel ms = .ok t') :
    LWit Obj acc a u t' vs := (optimize_lwit_all cfg e Obj acc fuel).2 a u ms t' vs hne hw h

/-! ## 3. one group: `_merge`, then `optimize_type(model_meta)` — lax -/

/-- **mergeGroup_tight_partial** (single group, with the `optimize_type` call that follows `_merge` in
    `merge_models`; mirror of `C01R.mergeGroup_sound`).  In a (laxly) tight registry, merging a group with at
    least one registered member gives a (laxly) tight registry for the attribution `ObjMap (σOf members idx)`:
    the merged model is witnessed by the UNION of the members' objects, every other model by its own.
    PARTIAL: the lax relation instead of the strict one (`mergeGroup_tight_false`). -/
theorem mergeGroup_tight_partial {cfg : GenCfg} {so : StrOracle} {g g1 g2 : Graph} {members : List String}
    {idx : String} (wf : WF g) (ht : TightL Obj acc g) (hmem : memberModels g members ≠ [])
    (h1 : mergeGroup cfg so g members = .ok (g1, idx)) (h2 : optimizeModel cfg so g1 idx = .ok g2) :
    TightL (ObjMap (σOf members idx) Obj) acc g2 := mergeStep_tight wf ht hmem h1 h2

/-- `optimize_type(model_meta)` on a registered model -/
theorem optimizeModel_tight_partial {cfg : GenCfg} {so : StrOracle} {g g' : Graph} {i : String}
    (wf : WF g) (ht : TightL Obj acc g) (h : optimizeModel cfg so g i = .ok g') : TightL Obj acc g' :=
  optimizeModel_tight wf ht h

/-! ## 4. `merge_models` — lax -/

/-- **mergeModels_tight_partial** (mirror of `C01R.mergeModels_sound`).  `merge_models` (any comparators) on a
    well-formed, (laxly) tight registry gives a (laxly) tight registry for the attribution
    `ObjMap (σFold repl) Obj`, where `σFold repl` sends every merged member to its merged model and leaves every
    other index alone. -/
theorem mergeModels_tight_partial {cfg : GenCfg} {so : StrOracle} {cmps : List Cmp} {g g' : Graph}
    {repl : List (String × List String)} (wf : WF g) (ht : TightL Obj acc g)
    (h : mergeModels cfg so cmps g = .ok (g', repl)) :
    TightL (ObjMap (σFold repl) Obj) acc g' ∧
    (∀ p ∈ repl, ∀ i ∈ p.2, σFold repl i = p.1) ∧
    (∀ i, (∀ p ∈ repl, p.2.contains i = false) → σFold repl i = i) := by
  obtain ⟨h1, h2⟩ := mergeModels_σ wf h
  exact ⟨mergeModels_tight_core wf ht h, h1, h2⟩

/-! ## 5. the pipeline: `generate` → `process_meta_data` → `merge_models` -/

/-- **registry_tight_partial (C02 through the registry).**  For all inputs with at least one sample each, all
    options, oracles and comparators: after `generate` + `process_meta_data` of every named sample list and
    `merge_models`, every registered model is (laxly) witnessed by sample sub-objects attributed to it — objects
    routed, in the unmerged registry `g0`, to the model itself or to one of the models merged into it.
    (`σFold repl` sends every merged member to its merged model and leaves every other index alone.)
    PARTIAL: the lax relation `LWit` instead of the strict `GWit` (see `registry_tight_Statement`).  What the lax
    relation does NOT exclude, and the strict one does: (1) a `DOptional` that is a *member of a `DUnion`* licensed
    by a missing key rather than by an observed `null`; (2) `Any` as a *member of a `DUnion`* below a container that
    was observed empty; (3) `Any` licensed by an observed `null` at the position instead of an empty container.
    Everything else is as in `C02T.Wit`: atoms, pseudo-types, literal values, element routing of `List`/`Dict`,
    `Optional` at the top of a field (missing key or `null`), plus the pointer clause. -/
theorem registry_tight_partial {cfg : GenCfg} {o : GenOracles} {cmps : List Cmp}
    {inputs : List (String × List Json)} {g0 g1 : Graph} {repl : List (String × List String)}
    (hne : NonEmptyInputs inputs)
    (h0 : buildGraph cfg o inputs = .ok g0) (h1 : mergeModels cfg o.str cmps g0 = .ok (g1, repl)) :
    (∃ roots, RootsOf inputs roots ∧
      TightL (ObjMap (σFold repl) (Routed g0.look roots)) o.accepts g1) ∧
    (∀ p ∈ repl, ∀ i ∈ p.2, σFold repl i = p.1) ∧
    (∀ i, (∀ p ∈ repl, p.2.contains i = false) → σFold repl i = i) := by
  obtain ⟨roots, hr, ht⟩ := buildGraph_tight hne h0
  obtain ⟨h2, h3⟩ := mergeModels_σ (buildGraph_WF h0) h1
  exact ⟨⟨roots, hr, mergeModels_tight_core (buildGraph_WF h0) ht.toL h1⟩, h2, h3⟩

/-- the STRICT end-to-end statement (the same with `TightG`).  Neither proved nor refuted here: a single
    `_merge` + `optimize_type` does break strictness (`mergeGroup_tight_false`), the final pass of `merge_models`
    repairs it on that input (`ExP.exP_optimize_again`); a proof needs the normal form of `optimize_type` outputs
    on merged registry fields (two passes: what `C08`'s `optimize_nf` gives for `Raw` input only).  Random testing
    of the Python code (68 000 inputs, 37 000 of them with merges, checked against the strict relation) found no
    violation. -/
def registry_tight_Statement : Prop :=
  ∀ (cfg : GenCfg) (o : GenOracles) (cmps : List Cmp) (inputs : List (String × List Json)) (g0 g1 : Graph)
    (repl : List (String × List String)), NonEmptyInputs inputs →
    buildGraph cfg o inputs = .ok g0 → mergeModels cfg o.str cmps g0 = .ok (g1, repl) →
    ∃ roots, RootsOf inputs roots ∧ TightG (ObjMap (σFold repl) (Routed g0.look roots)) o.accepts g1

/-! ### readings of `registry_tight_partial` at one field of one registered model -/

section readings
variable {g : Graph}

/-- "a field is optional only if some object of its model lacked it or held null" -/
theorem tightL_optional (ht : TightL Obj acc g) {m : Model} (hm : m ∈ g.models) {k : String} {t : Ty}
    (hk : (k, .opt t) ∈ m.fields) :
    ∃ ws : List Json, (∀ o ∈ ws, Obj m.idx o) ∧
      ((∃ kvs, Json.obj kvs ∈ ws ∧ k ∉ kvs.map (·.1)) ∨ (∃ kvs, Json.obj kvs ∈ ws ∧ (k, Json.null) ∈ kvs)) := by
  obtain ⟨ws, hw, ho⟩ := ht m hm
  refine ⟨ws, ho, ?_⟩
  have := hw.2 _ hk
  simp only [LWit] at this
  rcases this.1 with h | h
  · exact .inl h
  · exact .inr (mem_fieldVals.1 h)

/-- "a Literal lists only strings that occurred there" (also below `Optional`) -/
theorem tightL_literal (ht : TightL Obj acc g) {m : Model} (hm : m ∈ g.models) {k : String} {ws : List String}
    (hk : (k, .lit false ws) ∈ m.fields ∨ (k, .opt (.lit false ws)) ∈ m.fields) :
    ∃ os : List Json, (∀ o ∈ os, Obj m.idx o) ∧ ∀ w ∈ ws, ∃ kvs, Json.obj kvs ∈ os ∧ (k, Json.str w) ∈ kvs := by
  obtain ⟨os, hw, ho⟩ := ht m hm
  refine ⟨os, ho, fun w hww => ?_⟩
  rcases hk with hk | hk
  · have := hw.2 _ hk
    simp only [LWit] at this
    exact mem_fieldVals.1 (this.2 w hww)
  · have := hw.2 _ hk
    simp only [LWit] at this
    exact mem_fieldVals.1 (this.2.2 w hww)

/-- "a union member appears only if some sample value at that position inhabits it": a member `int`, `float`,
    `str`, … of a field type `Union[…]` / `Optional[Union[…]]` -/
theorem tightL_member (ht : TightL Obj acc g) {m : Model} (hm : m ∈ g.models) {k : String} {ts : List Ty}
    {x : Ty} (hk : (k, .union ts) ∈ m.fields ∨ (k, .opt (.union ts)) ∈ m.fields) (hx : x ∈ ts) :
    ∃ os : List Json, (∀ o ∈ os, Obj m.idx o) ∧ LWit Obj acc (LacksKey k os) False x (fieldVals k os) := by
  obtain ⟨os, hw, ho⟩ := ht m hm
  refine ⟨os, ho, ?_⟩
  rcases hk with hk | hk
  · exact (lwit_union.1 (hw.2 _ hk)).2 x hx
  · have := hw.2 _ hk
    rw [lclause_opt] at this
    exact (lwit_union.1 this.2).2 x hx

/-- a pointer field: some object attributed to the model holds, at the key, an object attributed to the target -/
theorem tightL_pointer (ht : TightL Obj acc g) {m : Model} (hm : m ∈ g.models) {k j : String}
    (hk : (k, .ptr j) ∈ m.fields) :
    ∃ kvs kvs', Obj m.idx (.obj kvs) ∧ (k, Json.obj kvs') ∈ kvs ∧ Obj j (.obj kvs') := by
  obtain ⟨os, hw, ho⟩ := ht m hm
  have := hw.2 _ hk
  simp only [LWit] at this
  obtain ⟨kvs', h1, h2⟩ := this
  obtain ⟨kvs, h3, h4⟩ := mem_fieldVals.1 h1
  exact ⟨kvs, kvs', ho _ h3, h4, h2⟩

end readings

/-! ## 6. the STRICT single-step statement is false -/

/-- the strict version of `mergeGroup_tight_partial` -/
def mergeGroup_tight_Statement : Prop :=
  ∀ (Obj : ObjRel) (acc : Accepts) (cfg : GenCfg) (so : StrOracle) (g g1 g2 : Graph) (members : List String)
    (idx : String), WF g → TightG Obj acc g → memberModels g members ≠ [] →
    mergeGroup cfg so g members = .ok (g1, idx) → optimizeModel cfg so g1 idx = .ok g2 →
    TightG (ObjMap (σOf members idx) Obj) acc g2

open J2M.C02RH.ExP (cfgE oE sP1 sP2 inputsP g0P exP_build exP_mergeFields exP_optimize exP_optimize_field
  exP_optimize_again)

/-- `List[Optional[Union[int, Any]]]` is not strictly witnessed, whatever the values and the attribution -/
theorem not_gwit_union_any : ¬ GWit Obj acc a u (.list (.opt (.union [.int, .unknown]))) vs := by
  simp [GWit, GWitAll]

/-- … but laxly it is, e.g. by `[[], [null], [1]]` -/
example : LWit Obj acc False False (.list (.opt (.union [.int, .unknown])))
    [.arr [], .arr [.null], .arr [.int 1]] := by
  simp [LWit, LWitAll, elemsOf]

/-- the input of the counterexample (`C02RHelpersExample.lean`): the registry after `process_meta_data` is
    `g0P = {1A: {p: 1B, q: 1C, r: 1D}, 1B: {x: List[Optional[Any]]}, 1C: {x: List[Any]}, 1D: {x: List[int]}}` -/
example : inputsP = [("Root", [sP1, sP2])] ∧ buildGraph cfgE oE inputsP = .ok g0P := ⟨rfl, exP_build⟩

/-- **the strict single-step statement is FALSE**: for the input
    `[{"p": {"x": [null]}, "q": {"x": []}, "r": {"x": [1]}}, {"p": {"x": []}, "q": {"x": []}, "r": {"x": [1]}}]`
    the registry after `process_meta_data` is strictly tight (`buildGraph_tight`), the three nested models have the
    same key set, and `_merge` + `optimize_type` turns
    `x : List[Optional[Any]] | List[Any] | List[int]` into `List[Optional[Union[int, Any]]]`
    (`_optimize_union` removes ONE `Unknown`, there are two: the member `Unknown` and the one below the
    `DOptional` member).  Confirmed on the Python code: `MetadataGenerator.optimize_type` of the merged dict
    returns `{'x': DList[DOptional[DUnion[int, Unknown]]]}` for every order of the three dicts. -/
theorem mergeGroup_tight_false : ¬ mergeGroup_tight_Statement := by
  intro H
  obtain ⟨roots, _, ht⟩ := buildGraph_tight (cfg := cfgE) (o := oE) (inputs := inputsP)
    (by intro inp h; simp [inputsP] at h; subst h; simp) exP_build
  have wf := buildGraph_WF exP_build
  obtain ⟨g1, g2, m, h1, h2, hm, _, hmf⟩ := mergeStep_exists (cfg := cfgE) (so := oE.str) wf
    (exP_mergeFields oE.str) exP_optimize
  have := H _ _ cfgE oE.str g0P g1 g2 ["1B", "1C", "1D"] _ wf ht (by decide) h1 h2
  obtain ⟨ws, hw, _⟩ := this m hm
  rw [hmf] at hw
  exact not_gwit_union_any (hw.2 ("x", _) (by simp))

/-- the final `optimize_type` pass of `merge_models` repairs the field on this input (Python: the registry ends
    with `x : List[Optional[int]]`): a second `optimize_type` drops the remaining `Unknown` -/
example (e : EqEnv) : optimize cfgE e 6 (.list (.opt (.union [.int, .unknown]))) = .ok (.list (.opt .int)) :=
  exP_optimize_again e 0

/-! ## 7. a registered model that no field refers to -/

open J2M.C01R (cfgX oX)

/-- `{"m1": {"f": {"x": 1}, "k": 1}, "m2": {"f": {"x": 2}, "k": 2}}` -/
def sS : Json :=
  .obj [("m1", .obj [("f", .obj [("x", .int 1)]), ("k", .int 1)]),
        ("m2", .obj [("f", .obj [("x", .int 2)]), ("k", .int 2)])]

def g0S : Graph :=
  { models := [{ idx := "1A", fields := [("m1", .ptr "1B"), ("m2", .ptr "1D")], name := some "Root",
                 nameGen := some false },
               { idx := "1B", fields := [("f", .ptr "1C"), ("k", .int)] },
               { idx := "1C", fields := [("x", .int)] },
               { idx := "1D", fields := [("f", .ptr "1E"), ("k", .int)] },
               { idx := "1E", fields := [("x", .int)] }],
    ptrs := [⟨"1A", none, none⟩, ⟨"1B", some "1A", some "m1"⟩, ⟨"1C", some "1B", some "f"⟩,
             ⟨"1D", some "1A", some "m2"⟩, ⟨"1E", some "1D", some "f"⟩],
    counter := 5 }
/-- after `merge_models` with `ModelFieldsNumberMatch(2)`: `1B`, `1D` are merged into `1F = {f: 1C, k: int}`
    (`ModelPtr 1C == ModelPtr 1E` because the two models have equal dicts, so the merged field keeps `1C`);
    `1C` and `1E` have one key and are not merged; `1E` stays registered -/
def g1S : Graph :=
  { models := [{ idx := "1A", fields := [("m1", .ptr "1F"), ("m2", .ptr "1F")], name := some "Root",
                 nameGen := some false },
               { idx := "1C", fields := [("x", .int)] },
               { idx := "1E", fields := [("x", .int)] },
               { idx := "1F", fields := [("f", .ptr "1C"), ("k", .int)] }],
    ptrs := [⟨"1A", none, none⟩, ⟨"1F", some "1A", some "m1"⟩, ⟨"1C", some "1F", some "f"⟩,
             ⟨"1F", some "1A", some "m2"⟩, ⟨"1E", some "1F", some "f"⟩],
    counter := 6 }

set_option maxRecDepth 100000 in
theorem exS_build : buildGraph cfgX oX [("Root", [sS])] = .ok g0S := by rfl
set_option maxRecDepth 100000 in
theorem exS_merge : mergeModels cfgX oX.str [Cmp.number 2] g0S = .ok (g1S, [("1F", ["1B", "1D"])]) := by rfl

/-- routing only reaches pointer targets that occur in the type or in a registered field dict -/
theorem reach_target {L : ModelLookup} {t : Ty} {v : Json} {j : String} {o : Json} (h : Reach L t v j o) :
    j ∈ ptrsOf t ∨ ∃ i fs, L i = some fs ∧ j ∈ ptrsOfFields fs := by
  induction h with
  | here => exact .inl (by simp [ptrsOf])
  | into h1 h2 _ _ ih =>
    rcases ih with h | h
    · exact .inr ⟨_, _, h1, mem_ptrsOfFields.2 ⟨_, h2, h⟩⟩
    · exact .inr h
  | list _ _ ih => simpa [ptrsOf] using ih
  | dict _ _ ih => simpa [ptrsOf] using ih
  | opt _ ih => simpa [ptrsOf] using ih
  | union h1 _ ih =>
    rcases ih with h | h
    · exact .inl (by simp only [ptrsOf]; exact mem_ptrsOfList.2 ⟨_, h1, h⟩)
    · exact .inr h

/-- **a stale model** (model and Python code: the class `F_1E` is generated and never used): after
    `merge_models` the model `1E` is still registered, no field of any registered model points to it, and no
    value read at a type that does not mention `1E` routes an object to it.  Its witness objects are those it
    had in the unmerged registry — this is why the attribution of `registry_tight_partial` is
    `ObjMap (σFold repl) (Routed g0.look roots)` and not the routing of the merged registry. -/
theorem stale_model_example :
    "1E" ∈ idxs g1S ∧ (∀ m ∈ g1S.models, "1E" ∉ ptrsOfFields m.fields) ∧
    ∀ t v o, "1E" ∉ ptrsOf t → ¬ Reach g1S.look t v "1E" o := by
  have h2 : ∀ m ∈ g1S.models, "1E" ∉ ptrsOfFields m.fields := by
    intro m hm
    simp only [g1S, List.mem_cons, List.not_mem_nil, or_false] at hm
    rcases hm with rfl | rfl | rfl | rfl <;> simp [ptrsOfFields, ptrsOf]
  refine ⟨by simp [idxs, g1S], h2, ?_⟩
  intro t v o ht hr
  rcases reach_target hr with h | ⟨i, fs, hL, h⟩
  · exact ht h
  · obtain ⟨m, hm, _, rfl⟩ := look_eq_some hL
    exact h2 m hm h

/-! ## 8. non-vacuity: two similar nested objects, one lacking a key -/

open J2M.C01R (inputsX g0X g1X exX_build exX_merge)

theorem exX_nonempty : NonEmptyInputs inputsX := by
  intro inp h; simp [inputsX] at h; subst h; simp

/-- all hypotheses of `registry_tight_partial` hold for the input of `C01R` (`b : {x}` and the elements of
    `c : {x, y}` are merged into `1D = {x, y?}`); hence the merged field `y : Optional[int]` is witnessed by
    objects of `1B`/`1C` one of which lacks `y` or holds `null` -/
example : ∃ ws : List Json, (∀ o ∈ ws, ∃ roots, RootsOf inputsX roots ∧
      ObjMap (σFold [("1D", ["1B", "1C"])]) (Routed g0X.look roots) "1D" o) ∧
    ((∃ kvs, Json.obj kvs ∈ ws ∧ "y" ∉ kvs.map (·.1)) ∨ (∃ kvs, Json.obj kvs ∈ ws ∧ ("y", Json.null) ∈ kvs)) := by
  obtain ⟨⟨roots, hr, ht⟩, _⟩ := registry_tight_partial exX_nonempty exX_build exX_merge
  obtain ⟨ws, h1, h2⟩ := tightL_optional ht (m := { idx := "1D", fields := [("x", .int), ("y", .opt .int)] })
    (by simp [g1X]) (k := "y") (t := .int) (by simp)
  exact ⟨ws, fun o ho => ⟨roots, hr, h1 o ho⟩, h2⟩

/-- the four nested objects of the two samples -/
def wsX : List Json :=
  [.obj [("x", .int 2)], .obj [("x", .int 6)], .obj [("x", .int 3), ("y", .int 4)], .obj [("x", .int 7), ("y", .int 8)]]

/-- … and by direct evaluation of the definitions: the merged model `1D = {x: int, y: Optional[int]}` is
    STRICTLY witnessed by the four nested objects (`y` is `Optional` because `{x: 2}` lacks it; `int` because of
    `4`), … -/
example : GModel Obj acc [("x", .int), ("y", .opt .int)] wsX := by
  refine ⟨⟨[("x", .int 2)], by simp [wsX], by simp⟩, ?_⟩
  intro kv hkv
  simp only [List.mem_cons, List.not_mem_nil, or_false] at hkv
  rcases hkv with rfl | rfl <;> simp [GWit, wsX, LacksKey, fieldVals]

/-- … it would not be without the objects of `1B` (no object lacks `y`), … -/
example : ¬ GModel Obj acc [("x", .int), ("y", .opt .int)]
    [.obj [("x", .int 3), ("y", .int 4)], .obj [("x", .int 7), ("y", .int 8)]] := by
  intro h
  have := h.2 ("y", .opt .int) (by simp)
  simp [GWit, LacksKey, fieldVals] at this

/-- … each of the four objects is attributed to `1D`: routed in the unmerged registry `g0X` to `1B` (from field
    `b`) or to `1C` (from the list `c`), both renamed to `1D`, … -/
example : ∀ o ∈ wsX, ObjMap (σFold [("1D", ["1B", "1C"])])
    (Routed g0X.look [("1A", C01R.s1), ("1A", C01R.s2)]) "1D" o := by
  have hA : g0X.look "1A" = some [("a", .int), ("b", .ptr "1B"), ("c", .list (.ptr "1C"))] := by
    simp [Graph.look, Graph.find?, g0X]
  have hσB : σFold [("1D", ["1B", "1C"])] "1B" = "1D" := by simp [σFold, σOf]
  have hσC : σFold [("1D", ["1B", "1C"])] "1C" = "1D" := by simp [σFold, σOf]
  intro o ho
  simp only [wsX, List.mem_cons, List.not_mem_nil, or_false] at ho
  rcases ho with rfl | rfl | rfl | rfl
  · exact ⟨"1B", hσB, ("1A", C01R.s1), by simp,
      Reach.into hA (k := "b") (by simp) (by simp) Reach.here⟩
  · exact ⟨"1B", hσB, ("1A", C01R.s2), by simp,
      Reach.into hA (k := "b") (by simp) (by simp) Reach.here⟩
  · exact ⟨"1C", hσC, ("1A", C01R.s1), by simp,
      Reach.into hA (k := "c") (v := .arr [.obj [("x", .int 3), ("y", .int 4)]]) (by simp) (by simp)
        (Reach.list (by simp) Reach.here)⟩
  · exact ⟨"1C", hσC, ("1A", C01R.s2), by simp,
      Reach.into hA (k := "c") (v := .arr [.obj [("x", .int 7), ("y", .int 8)]]) (by simp) (by simp)
        (Reach.list (by simp) Reach.here)⟩

/-- … and the root model `1A = {a: int, b: 1D, c: List[1D]}` of the merged registry is strictly witnessed by the
    two samples, the pointer positions by objects attributed to `1D`. -/
example : GModel (fun j o => j = "1D" ∧ o ∈ wsX) acc
    [("a", .int), ("b", .ptr "1D"), ("c", .list (.ptr "1D"))] [C01R.s1, C01R.s2] := by
  refine ⟨⟨_, List.mem_cons_self .., by simp⟩, ?_⟩
  intro kv hkv
  simp only [List.mem_cons, List.not_mem_nil, or_false] at hkv
  rcases hkv with rfl | rfl | rfl
  · simp [GWit, C01R.s1, C01R.s2, fieldVals]
  · exact gclause_ptr.2 ⟨[("x", .int 2)], by simp [C01R.s1, C01R.s2, fieldVals], rfl, by simp [wsX]⟩
  · rw [gclause_list]
    exact gclause_ptr.2 ⟨[("x", .int 3), ("y", .int 4)], by simp [C01R.s1, C01R.s2, fieldVals, elemsOf], rfl,
      by simp [wsX]⟩

/-- non-vacuity of `buildGraph_tight` / `processTy_tight`: the hypotheses hold for the instance -/
example : ∃ roots, RootsOf inputsX roots ∧ TightG (Routed g0X.look roots) oX.accepts g0X :=
  buildGraph_tight exX_nonempty exX_build

set_option maxRecDepth 100000 in
/-- the generated root type of the instance is witnessed (`C02T.generate_tight`), so `processTy_tight` applies
    to it in the empty registry -/
example : ∃ t, generate cfgX oX [C01R.s1, C01R.s2] = .ok t ∧ Wit oX.accepts False False t [C01R.s1, C01R.s2] ∧
    (∀ m ∈ ({} : Graph).models, ∃ k, k < ({} : Graph).counter ∧ m.idx = indexOf k) := by
  have h : generate cfgX oX [C01R.s1, C01R.s2] =
      .ok (.obj [("a", .int), ("b", .obj [("x", .int)]), ("c", .list (.obj [("x", .int), ("y", .int)]))]) := by rfl
  exact ⟨_, h, generate_tight (by simp) h, by simp⟩

/-- non-vacuity of `mergeGroup_tight_partial`: a well-formed, tight registry, a group with registered members,
    and a successful `_merge` + `optimize_type` -/
example : WF g0X ∧ (∃ roots, TightL (Routed g0X.look roots) oX.accepts g0X) ∧
    memberModels g0X ["1B", "1C"] ≠ [] ∧
    (∃ g1 g2, mergeGroup cfgX oX.str g0X ["1B", "1C"] = .ok (g1, "1D") ∧
      optimizeModel cfgX oX.str g1 "1D" = .ok g2) := by
  obtain ⟨roots, _, ht⟩ := buildGraph_tight exX_nonempty exX_build
  refine ⟨buildGraph_WF exX_build, ⟨roots, ht.toL⟩, by decide, ?_⟩
  obtain ⟨_, groups, gm, _, _, hfold, _⟩ := mergeModels_eq exX_merge
  exact ⟨{ g1X with models := g1X.models }, g1X, by rfl, by rfl⟩

/-- `[{"a": "s", "p": {}}, {"p": {}}, {"a": 1}]` -/
def vsM : List Json := [.obj [("a", .str "s"), ("p", .obj [])], .obj [("p", .obj [])], .obj [("a", .int 1)]]

/-- non-vacuity of `mergeFieldSets_tight_registry` with a `DOptional` field and a pointer in the incoming sets
    (what `C02T.mergeFieldSets_tight` excludes): `{a: Optional[str], p: 1B}` and `{a: int}` are admissible
    field sets over `vsM` -/
example : SetL (fun j _ => j = "1B") acc vsM [("a", .opt .str), ("p", .ptr "1B")] ∧
    SetL (fun j _ => j = "1B") acc vsM [("a", .int)] := by
  refine ⟨⟨⟨[("p", .obj [])], by simp [vsM], by simp [Fields.keys]⟩, ?_⟩,
    ⟨⟨[("a", .int 1)], by simp [vsM], by simp [Fields.keys]⟩, ?_⟩⟩
  · intro kv hkv
    simp only [List.mem_cons, List.not_mem_nil, or_false] at hkv
    rcases hkv with rfl | rfl <;> simp [FL, LWit, vsM, LacksKey, fieldVals]
  · intro kv hkv
    simp only [List.mem_cons, List.not_mem_nil, or_false] at hkv
    subst hkv; simp [FL, LWit, vsM, fieldVals]

/-- non-vacuity of `optimize_tight_registry` on a merged registry field with a `DOptional` union member: the
    input `Union[Optional[str], int]` at key `a` is laxly witnessed by `vsM` (the `Optional` is licensed by the
    object lacking `a`), and `optimize_type` turns it into `Optional[Union[int, str]]` -/
example : LWit Obj acc (LacksKey "a" vsM) False (.union [.opt .str, .int]) (fieldVals "a" vsM) ∧
    optimize cfgX (g0X.eqEnv oX.str) 6 (.union [.opt .str, .int]) = .ok (.opt (.union [.int, .str])) := by
  constructor
  · simp [LWit, LWitAll, vsM, LacksKey, fieldVals]
  · simp [optimize, optimizeUnion, splitMembers, splitMembersAux, Ty.size, Ty.isInt, Ty.isFloat, Ty.isStr,
      Ty.isUnknown,
      Ty.isNull, bind, Except.bind, pure, Except.pure, mkUnionMembers, flattenUnion, handleType, hashStr, cfgX]

/-- the same with a union HIDDEN under the `DOptional` member (D21: the split now splices its members, so `str`
    reaches the pseudo-type stage and `int` meets the other `int`): `Union[Optional[Union[str, int]], int]` is laxly
    witnessed by `vsM`, and `optimize_type` turns it into `Optional[Union[int, str]]` -/
example : LWit Obj acc (LacksKey "a" vsM) False (.union [.opt (.union [.str, .int]), .int]) (fieldVals "a" vsM) ∧
    optimize cfgX (g0X.eqEnv oX.str) 6 (.union [.opt (.union [.str, .int]), .int]) =
      .ok (.opt (.union [.int, .str])) := by
  constructor
  · simp [LWit, LWitAll, vsM, LacksKey, fieldVals]
  · simp [optimize, optimizeUnion, splitMembers, splitMembersAux, Ty.size, Ty.sizeList, Ty.isInt, Ty.isFloat,
      Ty.isStr, Ty.isUnknown, Ty.isNull, bind, Except.bind, pure, Except.pure, mkUnionMembers, flattenUnion,
      handleType, hashStr, cfgX]

end J2M.C02R

#print axioms J2M.C02R.processTy_tight
#print axioms J2M.C02R.processMetaData_tight
#print axioms J2M.C02R.buildGraph_tight
#print axioms J2M.C02R.mergeFieldSets_tight_registry
#print axioms J2M.C02R.optimize_tight_registry
#print axioms J2M.C02R.optimizeUnion_tight_registry
#print axioms J2M.C02R.mergeGroup_tight_partial
#print axioms J2M.C02R.optimizeModel_tight_partial
#print axioms J2M.C02R.mergeModels_tight_partial
#print axioms J2M.C02R.registry_tight_partial
#print axioms J2M.C02R.tightL_optional
#print axioms J2M.C02R.tightL_literal
#print axioms J2M.C02R.tightL_member
#print axioms J2M.C02R.tightL_pointer
#print axioms J2M.C02R.mergeGroup_tight_false
#print axioms J2M.C02RH.ExP.exP_build
#print axioms J2M.C02RH.ExP.exP_mergeFields
#print axioms J2M.C02RH.ExP.exP_optimize
#print axioms J2M.C02R.stale_model_example
#print axioms J2M.C02R.exS_build
#print axioms J2M.C02R.exS_merge
