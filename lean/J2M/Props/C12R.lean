/-
  Property C12 (rendering part) — "Flat and nested layouts describe the same models": the nested layout defines the
  same classes with the same fields, annotations and defaults as the flat layout, each class placed inside the class
  that references it.

  1. `genClass_decomp` …: the text of a class is `head ++ nested classes ++ fields`; head, fields and imports do not
     depend on the nested classes.
  2. `layouts_agree`: for a flat and a nested structure over the same models in which classes refer only to classes
     nested in them (tree-shaped registries), both renderings leave the same names `F` behind, and both texts are
     assembled from the same class heads `classParts c o ⟨F, []⟩ (modelAt g F i)`: the flat module is the list of the
     heads, the nested module is the same heads with the texts of the nested classes inserted (`nodesText`).
  Helper development: `J2M/Proofs/Render2*.lean`; layouts: `J2M/Props/C12.lean`.
-/
import J2M.Proofs.Render2Layouts
import J2M.Proofs.Render2Eval
import J2M.Proofs.Render2Tree
import J2M.Props.C12
namespace J2M.C12R
open J2M.Rend2

/-! ### 1. the parts of a class text -/

/-- the class text without nested classes -/
abbrev classHead := Rend2.classHead
/-- `(imports, text up to and including "class Name(bases):", field part)` of a class -/
abbrev classParts := Rend2.classParts
/-- the nested classes of a class text: each one indented, after a line break and followed by one -/
abbrev nestedPart := Rend2.nestedPart

theorem nestedPart_eq (nested : List String) :
    nestedPart nested = String.join (nested.map (fun code => "\n" ++ indentBlock code ++ "\n")) := rfl

/-- **genClass_decomp**: with `(imps, pre, flds) = classParts c o e m`,
    `genClass c o e m nested = (imps, pre ++ nestedPart nested ++ flds)` and `classHead c o e m = (imps, pre ++ flds)`:
    nested classes only add the indented blocks between the `class …:` line and the fields (errors included: `genClass`
    raises iff `classParts` does, with the same error). -/
theorem genClass_decomp (c : RenderCfg) (o : RenderOracles) (e : RefEnv) (m : Model) (nested : List String) :
    genClass c o e m nested = (classParts c o e m).map (fun p => (p.1, p.2.1 ++ nestedPart nested ++ p.2.2)) ∧
    classHead c o e m = (classParts c o e m).map (fun p => (p.1, p.2.1 ++ p.2.2)) :=
  ⟨genClass_parts c o e m nested, classHead_parts c o e m⟩

/-- the explicit form of the parts: `pre = [warning] ++ decorators ++ "class " ++ name ++ bases ++ ":"`,
    `flds` = the field lines (or `pass`), `imps` = field imports ++ decorator imports ++ framework imports -/
theorem classParts_explicit {c : RenderCfg} {o : RenderOracles} {e : RefEnv} {m : Model} {imps : List Imp}
    {pre flds : String} (h : classParts c o e m = .ok (imps, pre, flds)) :
    ∃ lines decoImps decos, classLines c o e m = .ok lines ∧ classDecos c o m = .ok (decoImps, decos) ∧
      imps = lines.flatMap (·.1) ++ decoImps ++ classExtraImps c ∧
      pre = classWarn c ++ (String.join (decos.map (fun d => "@" ++ d ++ "\n")) ++ "class " ++ m.name.getD "None" ++
              classBases c ++ ":") ∧
      flds = (if lines.isEmpty then "\n    pass" else String.join (lines.map (fun l => "\n    " ++ l.2))) := by
  unfold classParts Rend2.classParts at h
  rw [bind_eq_ok] at h
  obtain ⟨lines, h1, h⟩ := h
  rw [bind_eq_ok] at h
  obtain ⟨⟨decoImps, decos⟩, h2, h⟩ := h
  simp only [pure, Except.pure] at h
  injection h with h; injection h with e1 e2; injection e2 with e2 e3
  exact ⟨lines, decoImps, decos, h1, h2, e1.symm, e2.symm, e3.symm⟩

/-- the imports of a class do not depend on its nested classes -/
theorem genClass_imports_indep (c : RenderCfg) (o : RenderOracles) (e : RefEnv) (m : Model) (nested : List String) :
    (genClass c o e m nested).map (·.1) = (classHead c o e m).map (·.1) := by
  rw [(genClass_decomp c o e m nested).1, (genClass_decomp c o e m nested).2]
  cases classParts c o e m <;> rfl

/-- relational form: the head text splits as `pre ++ flds`, and every `genClass` result is `pre ++ nested ++ flds` -/
theorem genClass_of_head {c : RenderCfg} {o : RenderOracles} {e : RefEnv} {m : Model} {imps : List Imp} {h : String}
    (hh : classHead c o e m = .ok (imps, h)) :
    ∃ pre flds, h = pre ++ flds ∧ ∀ nested, genClass c o e m nested = .ok (imps, pre ++ nestedPart nested ++ flds) := by
  rw [(genClass_decomp c o e m []).2] at hh
  cases hp : classParts c o e m with
  | error err => rw [hp] at hh; cases hh
  | ok p =>
    rw [hp] at hh
    have := Except.ok.inj hh
    injection this with e1 e2
    refine ⟨p.2.1, p.2.2, e2.symm, fun nested => ?_⟩
    rw [(genClass_decomp c o e m nested).1, hp, ← e1]; rfl

theorem genClass_error_iff (c : RenderCfg) (o : RenderOracles) (e : RefEnv) (m : Model) (nested : List String)
    (err : PyErr) : genClass c o e m nested = .error err ↔ classHead c o e m = .error err := by
  rw [(genClass_decomp c o e m nested).1, (genClass_decomp c o e m nested).2]
  cases classParts c o e m <;> simp [Except.map]

/-! ### 2. both layouts are assembled from the same class heads -/

abbrev lookup := Rend2.lookup
abbrev postL := Rend2.postL
/-- the model record of index `i` with the name recorded in `F` -/
abbrev modelAt := Rend2.modelAt
/-- the module text: compiled imports, preamble, top-level class texts joined by `\n\n\n`, final newline -/
abbrev moduleText := Rend2.moduleText
/-- the texts of the classes of a structure, all rendered with the names `F`: the parts of the class of `i` are
    `classParts c o ⟨F, inj⟩ (modelAt g F i)`, the texts of the nested classes are inserted between head and fields -/
abbrev nodesText := Rend2.nodesText

/-- registry indices are pairwise distinct -/
def IdxNodup (g : Graph) : Prop := (g.models.map (·.idx)).Nodup

/-- every class of the structure refers only to itself and to classes nested in it ("every reference goes from a
    class to its own children") -/
def SubtreeRefs (g : Graph) (inj : List (String × String)) (roots : List Node) : Prop :=
  SubRefsL (refsOf g inj) roots

/-- the `(index, head)` table of a list of models for the names `F` -/
def heads (c : RenderCfg) (o : RenderOracles) (g : Graph) (F : NameMap) (is : List String) :
    List (String × Except PyErr (List Imp × String)) :=
  is.map (fun i => (i, classHead c o ⟨F, []⟩ (modelAt g F i)))

/-- one unfolding of `nodesText`: the text of a class is its head parts (for the names `F`) around the texts of its
    nested classes; the head parts are those of the flat class text `classHead` -/
theorem nodeText_head {c : RenderCfg} {o : RenderOracles} {g : Graph} {inj : List (String × String)} {F : NameMap}
    {idx : String} {nested : List Node} {r : List Imp × String}
    (h : nodeText c o g inj F (.mk idx nested) = .ok r) :
    ∃ p rs, classParts c o ⟨F, inj⟩ (modelAt g F idx) = .ok p ∧ nodesText c o g inj F nested = .ok rs ∧
      classHead c o ⟨F, inj⟩ (modelAt g F idx) = .ok (p.1, p.2.1 ++ p.2.2) ∧
      r = (rs.flatMap (·.1) ++ p.1, p.2.1 ++ nestedPart (rs.map (·.2)) ++ p.2.2) := by
  simp only [nodeText, bind_eq_ok, headOf] at h
  obtain ⟨rs, h1, p, h2, h3⟩ := h
  simp only [pure, Except.pure] at h3
  refine ⟨p, rs, h2, h1, ?_, (Except.ok.inj h3).symm⟩
  rw [(genClass_decomp c o _ _ []).2]
  change Except.map _ (Rend2.classParts c o ⟨F, inj⟩ (Rend2.modelAt g F idx)) = _
  rw [h2]; rfl

/-- **layouts_agree**: let `l` be a flat order and `roots` a nested structure (without path injection) over the same
    pairwise distinct models, every class referring only to classes nested in it.  If both renderings succeed then
    * they leave the same names `F` behind,
    * the flat text is the module of the heads `classHead c o ⟨F, []⟩ (modelAt g F i)`, `i ∈ l`, in the order `l`,
    * the nested text is the module of `nodesText c o g [] F roots`: the same heads (same `RefEnv`, same model
      record) with the nested class texts inserted,
    * `heads … (postL roots)` is a permutation of `heads … l`: the same classes, each exactly once. -/
theorem layouts_agree {c : RenderCfg} {o : RenderOracles} {g : Graph} {l : List String} {roots : List Node}
    {pre : Option String} {t_f t_n : String} {F_f F_n : NameMap}
    (hnd : IdxNodup g) (hp : (postL roots).Perm l) (hln : l.Nodup) (hsub : SubtreeRefs g [] roots)
    (hf : generateCode c o g (l.map (fun i => Node.mk i [])) [] pre = .ok (t_f, F_f))
    (hn : generateCode c o g roots [] pre = .ok (t_n, F_n)) :
    F_f = F_n ∧
    (∃ hs, l.mapM (fun i => classHead c o ⟨F_f, []⟩ (modelAt g F_f i)) = .ok hs ∧ t_f = moduleText pre hs) ∧
    (∃ ts, nodesText c o g [] F_f roots = .ok ts ∧ t_n = moduleText pre ts) ∧
    (heads c o g F_f (postL roots)).Perm (heads c o g F_f l) := by
  have hpn : (postL roots).Nodup := hp.nodup_iff.mpr hln
  have hF : F_n = F_f := names_layout_indep rfl hnd (by rw [postL_flat]; exact hp) hpn hn hf
  subst hF
  refine ⟨rfl, ?_, ?_, hp.map _⟩
  · obtain ⟨rs, h1, h2⟩ := generateCode_text hf (readyL_flat _ _ _)
    rw [nodesText_flat] at h1
    exact ⟨rs, h1, h2⟩
  · exact generateCode_text hn (readyL_of_sub _ roots [] (by simpa using hpn) hsub)

/-- **layouts_agree_tree**: the same for the two layouts of a tree-shaped registry (`C12.Tree`).  `compose_models`
    injects no reference path (`C12.nested_tree`) and `compose_models_flat` lists every model once (`C12.flat_perm`).
    `hcover`: the nested structure contains every model (this excludes pointer cycles that no top-level model
    reaches, which `Tree` alone allows); `hsub`: fields refer to the classes nested in their class. -/
theorem layouts_agree_tree {c : RenderCfg} {o : RenderOracles} {g : Graph} {l : List String} {roots : List Node}
    {inj : List (String × String)} {pre : Option String} {t_f t_n : String} {F_f F_n : NameMap}
    (hT : C12.Tree g) (hnd : IdxNodup g)
    (hl : composeFlat g = .ok l) (hr : composeNested g = .ok (roots, inj))
    (hcover : (postL roots).Perm (g.models.map (·.idx))) (hsub : SubtreeRefs g [] roots)
    (hf : generateCode c o g (l.map (fun i => Node.mk i [])) [] pre = .ok (t_f, F_f))
    (hn : generateCode c o g roots inj pre = .ok (t_n, F_n)) :
    inj = [] ∧ F_f = F_n ∧
    (∃ hs, l.mapM (fun i => classHead c o ⟨F_f, []⟩ (modelAt g F_f i)) = .ok hs ∧ t_f = moduleText pre hs) ∧
    (∃ ts, nodesText c o g [] F_f roots = .ok ts ∧ t_n = moduleText pre ts) ∧
    (heads c o g F_f (postL roots)).Perm (heads c o g F_f l) := by
  have hinj : inj = [] := by
    obtain ⟨s, hs, _, _, hi⟩ := C12.nested_tree hT
    unfold composeNested at hr
    rw [hs] at hr
    simp only [bind, Except.bind, pure, Except.pure] at hr
    have := Except.ok.inj hr
    injection this with _ e2
    rw [← e2, hi]
  subst hinj
  have hlp := C12.flat_perm hl
  exact ⟨rfl, layouts_agree hnd (hcover.trans hlp.symm) (hlp.nodup_iff.mpr hnd) hsub hf hn⟩

/-- `Rooted g depth`: the parent relation of the pointer records is well-founded with rank `depth` (top-level models
    have depth 0, the child of `q` has depth `depth q + 1` and `q` is registered, all depths are below the number of
    models).  `Tree g` alone allows pointer cycles that no top-level model reaches; such models are lost by the nested
    layout. -/
abbrev Rooted := Rend2.Rooted
/-- a field of model `m` refers only to registered models whose pointer record names `m` as parent -/
abbrev FieldsFollowPtrs := Rend2.FieldsFollowPtrs

/-- on a rooted tree whose fields follow the pointer records, the nested structure contains every model exactly once
    and every class refers only to classes nested in it -/
theorem tree_structure {g : Graph} {depth : String → Nat} {roots : List Node} {inj : List (String × String)}
    (hT : C12.Tree g) (hnd : IdxNodup g) (hroot : Rooted g depth) (hff : FieldsFollowPtrs g)
    (hr : composeNested g = .ok (roots, inj)) :
    inj = [] ∧ (postL roots).Perm (g.models.map (·.idx)) ∧ SubtreeRefs g [] roots := by
  obtain ⟨s, hs, rfl, rfl⟩ := composeNested_tree_state hT hr
  exact ⟨rfl, tree_cover hs hroot hnd, tree_subRefs hs hroot hff⟩

/-- **layouts_agree_rooted**: `layouts_agree_tree` with the hypotheses on the structure derived from hypotheses on
    the registry: `Tree g`, distinct indices, `Rooted g depth` (no pointer cycles), `FieldsFollowPtrs g`. -/
theorem layouts_agree_rooted {c : RenderCfg} {o : RenderOracles} {g : Graph} {depth : String → Nat} {l : List String}
    {roots : List Node} {inj : List (String × String)} {pre : Option String} {t_f t_n : String} {F_f F_n : NameMap}
    (hT : C12.Tree g) (hnd : IdxNodup g) (hroot : Rooted g depth) (hff : FieldsFollowPtrs g)
    (hl : composeFlat g = .ok l) (hr : composeNested g = .ok (roots, inj))
    (hf : generateCode c o g (l.map (fun i => Node.mk i [])) [] pre = .ok (t_f, F_f))
    (hn : generateCode c o g roots inj pre = .ok (t_n, F_n)) :
    inj = [] ∧ F_f = F_n ∧
    (∃ hs, l.mapM (fun i => classHead c o ⟨F_f, []⟩ (modelAt g F_f i)) = .ok hs ∧ t_f = moduleText pre hs) ∧
    (∃ ts, nodesText c o g [] F_f roots = .ok ts ∧ t_n = moduleText pre ts) ∧
    (heads c o g F_f (postL roots)).Perm (heads c o g F_f l) := by
  obtain ⟨_, hcover, hsub⟩ := tree_structure hT hnd hroot hff hr
  exact layouts_agree_tree hT hnd hl hr hcover hsub hf hn

/-! ### non-vacuity: a chain-shaped registry `1A → 1B → 1C`, two of whose names are changed by the conversion -/

def exT : Graph where
  models := [{ idx := "1A", fields := [("b", .ptr "1B")], name := some "class" },
             { idx := "1B", fields := [("c", .list (.ptr "1C")), ("x", .int)], name := some "List" },
             { idx := "1C", fields := [("y", .opt .str)], name := some "C" }]
  ptrs := [⟨"1A", none, none⟩, ⟨"1B", some "1A", some "b"⟩, ⟨"1C", some "1B", some "c"⟩]
  counter := 3
def exRoots : List Node := [.mk "1A" [.mk "1B" [.mk "1C" []]]]
def exNames : NameMap := [("1A", some "class_"), ("1B", some "List_"), ("1C", some "C")]

theorem exT_tree : C12.Tree exT := by
  intro m hm
  simp [exT] at hm
  rcases hm with rfl | rfl | rfl
  · exact ⟨⟨"1A", none, none⟩, by decide⟩
  · exact ⟨⟨"1B", some "1A", some "b"⟩, by decide⟩
  · exact ⟨⟨"1C", some "1B", some "c"⟩, by decide⟩

theorem exT_flat : composeFlat exT = .ok ["1A", "1B", "1C"] := ok_of_toOption (by decide +kernel)
theorem exT_nested : composeNested exT = .ok (exRoots, []) := composeNested_of_check (by decide +kernel)

theorem exT_text_flat :
    generateCode (exCfg .pydantic) exOracles exT (["1A", "1B", "1C"].map (fun i => Node.mk i [])) [] none = .ok
      ("from pydantic.v1 import BaseModel, Field\nfrom typing import List, Optional\n\n\nclass class_(BaseModel):\n    b: 'List_'\n\n\nclass List_(BaseModel):\n    c: List['C']\n    x: int\n\n\nclass C(BaseModel):\n    y: Optional[str] = None\n",
       exNames) := generateCode_of_eval (by decide +kernel)

theorem exT_text_nested : generateCode (exCfg .pydantic) exOracles exT exRoots [] none = .ok
      ("from pydantic.v1 import BaseModel, Field\nfrom typing import List, Optional\n\n\nclass class_(BaseModel):\n    class List_(BaseModel):\n        class C(BaseModel):\n            y: Optional[str] = None\n    \n        c: List['C']\n        x: int\n\n    b: 'List_'\n",
       exNames) := generateCode_of_eval (by decide +kernel)

theorem exT_sub : SubtreeRefs exT [] exRoots := by
  simp [SubtreeRefs, SubRefsL, SubRefsN, exRoots, refsOf, fieldsRefs, closeInj, exT, Graph.find?, tyRefs]

-- all hypotheses of `layouts_agree_tree` hold for the example
example := layouts_agree_tree exT_tree (by unfold IdxNodup; decide) exT_flat exT_nested (by decide +kernel) exT_sub
  exT_text_flat exT_text_nested

-- … and so do the registry-level hypotheses of `layouts_agree_rooted`
def exDepth (i : String) : Nat := if i == "1A" then 0 else if i == "1B" then 1 else 2

theorem exT_rooted : Rooted exT exDepth := by
  refine ⟨?_, ?_, ?_⟩
  · intro m hm; simp [exT] at hm; rcases hm with rfl | rfl | rfl <;> decide
  · intro m hm; simp [exT] at hm; rcases hm with rfl | rfl | rfl <;> decide
  · intro m hm q hq; simp [exT] at hm
    rcases hm with rfl | rfl | rfl
    · have h2 : C12.parentOf exT "1A" = none := by decide
      exact absurd (h2.symm.trans hq) (by simp)
    · have : q = "1A" := by
        have h2 : C12.parentOf exT "1B" = some "1A" := by decide
        exact (Option.some.inj (hq.symm.trans h2))
      subst this
      exact ⟨⟨{ idx := "1A", fields := [("b", .ptr "1B")], name := some "class" }, by simp [exT], rfl⟩, by decide⟩
    · have : q = "1B" := by
        have h2 : C12.parentOf exT "1C" = some "1B" := by decide
        exact (Option.some.inj (hq.symm.trans h2))
      subst this
      exact ⟨⟨{ idx := "1B", fields := [("c", .list (.ptr "1C")), ("x", .int)], name := some "List" }, by simp [exT], rfl⟩,
        by decide⟩

theorem exT_follow : FieldsFollowPtrs exT := by
  intro m hm i hi; simp [exT] at hm
  rcases hm with rfl | rfl | rfl
  · simp [fieldsRefs, closeInj, tyRefs] at hi; subst hi
    exact ⟨⟨{ idx := "1B", fields := [("c", .list (.ptr "1C")), ("x", .int)], name := some "List" }, by simp [exT], rfl⟩,
      by decide⟩
  · simp [fieldsRefs, closeInj, tyRefs] at hi; subst hi
    exact ⟨⟨{ idx := "1C", fields := [("y", .opt .str)], name := some "C" }, by simp [exT], rfl⟩, by decide⟩
  · simp [fieldsRefs, closeInj, tyRefs] at hi

example := layouts_agree_rooted exT_tree (by unfold IdxNodup; decide) exT_rooted exT_follow exT_flat exT_nested
  exT_text_flat exT_text_nested

/-- `Rooted` (or `hcover`) cannot be dropped: two models that are each other's only parent form a `Tree`, the flat
    layout lists both, the nested layout is empty -/
def exCycle : Graph where
  models := [{ idx := "1A", fields := [("b", .ptr "1B")], name := some "A" },
             { idx := "1B", fields := [("a", .ptr "1A")], name := some "B" }]
  ptrs := [⟨"1A", some "1B", some "a"⟩, ⟨"1B", some "1A", some "b"⟩]
  counter := 2

example : C12.Tree exCycle ∧ composeNested exCycle = .ok ([], []) ∧ (composeFlat exCycle).toOption = some ["1A", "1B"] := by
  refine ⟨?_, composeNested_of_check (by decide +kernel), by decide +kernel⟩
  intro m hm
  simp [exCycle] at hm
  rcases hm with rfl | rfl
  · exact ⟨⟨"1A", some "1B", some "a"⟩, by decide⟩
  · exact ⟨⟨"1B", some "1A", some "b"⟩, by decide⟩

-- the heads of the three classes for the final names (what both layouts are assembled from)
example : (heads (exCfg .pydantic) exOracles exT exNames ["1A", "1B", "1C"]).map (fun p => (p.1, p.2.toOption.map (·.2))) =
    [("1A", some "class class_(BaseModel):\n    b: 'List_'"),
     ("1B", some "class List_(BaseModel):\n    c: List['C']\n    x: int"),
     ("1C", some "class C(BaseModel):\n    y: Optional[str] = None")] := by decide +kernel

-- the parts of one class
example : (classParts (exCfg .pydantic) exOracles ⟨exNames, []⟩ (modelAt exT exNames "1B")).toOption.map (·.2) =
    some ("class List_(BaseModel):", "\n    c: List['C']\n    x: int") := by decide +kernel

-- `genClass_decomp` on a concrete class with one nested class text
example : (genClass (exCfg .dataclasses) exOracles ⟨exNames, []⟩ (modelAt exT exNames "1B") ["class C:\n    pass"]).toOption.map (·.2) =
    some ("@dataclass\nclass List_:" ++ "\n    class C:\n        pass\n" ++ "\n    c: List['C']\n    x: int") := by
  rw [(genClass_decomp _ _ _ _ _).1, nestedPart_eq, indentBlock_eq]
  decide +kernel

end J2M.C12R
