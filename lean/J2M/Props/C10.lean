/-
  C10 — "Literal annotations follow the documented limits and hold exact values"   (DESIGN §8.10)
-/
import J2M.Union
import J2M.Lex
import J2M.Extracted
import J2M.Proofs.StringsLex
import J2M.Proofs.StringsUnion
namespace J2M.C10

open J2M J2M.Strings

/-! ## 1. the overflow rule of `StringLiteral.__init__` -/

/-- the documented limits: more than `maxLiterals` values, or some value of `maxStrLen` or more characters
    (`Strings.Overflows c vs := vs.length > c.maxLiterals ∨ ∃ s ∈ vs, s.length ≥ c.maxStrLen`) -/
abbrev Overflows (c : LitCfg) (vs : List String) : Prop := Strings.Overflows c vs

example (c : LitCfg) (vs : List String) :
    Overflows c vs ↔ (vs.length > c.maxLiterals ∨ ∃ s ∈ vs, s.length ≥ c.maxStrLen) := Iff.rfl

theorem mkLit_overflow_iff (c : LitCfg) (vs : List String) :
    (mkLit c vs = .lit true [] ↔ Overflows c vs) ∧ (¬ Overflows c vs → mkLit c vs = .lit false vs) :=
  mkLit_overflow_iff' c vs

/-- the result is always one of the two shapes -/
theorem mkLit_cases (c : LitCfg) (vs : List String) :
    (Overflows c vs ∧ mkLit c vs = .lit true []) ∨ (¬ Overflows c vs ∧ mkLit c vs = .lit false vs) :=
  mkLit_cases' c vs

-- non-vacuity: with the library's constants, 16 values overflow, a 20-character value overflows, "ab" does not
example : Overflows ⟨15, 20⟩ (List.replicate 16 "x") := by simp [Overflows, Strings.Overflows]
example : Overflows ⟨15, 20⟩ ["01234567890123456789"] := by simp [Overflows, Strings.Overflows]; decide
example : ¬ Overflows ⟨15, 20⟩ ["ab", "cd"] := by simp [Overflows, Strings.Overflows]; decide
example : mkLit ⟨15, 20⟩ ["ab", "cd"] = .lit false ["ab", "cd"] :=
  (mkLit_overflow_iff _ _).2 (by simp [Overflows, Strings.Overflows]; decide)

/-- the constants extracted from the live `StringLiteral` class -/
theorem extracted_limits : Extracted.maxStringLength = 20 ∧ Extracted.maxLiterals = 15 := by decide

/-- the library's configuration -/
def libCfg : LitCfg := ⟨Extracted.maxLiterals, Extracted.maxStringLength⟩

theorem mkLit_overflow_iff_lib (vs : List String) :
    (mkLit libCfg vs = .lit true [] ↔ (vs.length > 15 ∨ ∃ s ∈ vs, s.length ≥ 20)) ∧
    (¬ (vs.length > 15 ∨ ∃ s ∈ vs, s.length ≥ 20) → mkLit libCfg vs = .lit false vs) :=
  mkLit_overflow_iff libCfg vs

/-! ## 2. literal folding in `DUnion.__init__`

  `F = flattenUnion ts` are the members after nested unions are spliced in; `R = mkUnionMembers c ts`
  the members of the resulting union. -/

/-- literal collection is never switched off: no `str` member and no overflowed literal member -/
def LitsAllowed (F : List Ty) : Prop := Ty.str ∉ F ∧ ∀ vs, Ty.lit true vs ∉ F

/-- the union of the value lists of the `lit false _` members, as a strictly increasing list
    (`Strings.unionVals`: left fold of `insertUniq`). It is characterised by its members: -/
theorem unionVals_spec (F : List Ty) :
    (unionVals F).Pairwise (· < ·) ∧ (unionVals F).Nodup ∧
    ∀ s, s ∈ unionVals F ↔ ∃ vs, Ty.lit false vs ∈ F ∧ s ∈ vs :=
  ⟨sorted_unionVals F, nodup_of_sorted (sorted_unionVals F), fun _ => mem_unionVals⟩

/-- ... uniquely: any strictly increasing list with these members is `unionVals F` -/
theorem unionVals_unique (F : List Ty) (V : List String) (hs : V.Pairwise (· < ·))
    (hm : ∀ s, s ∈ V ↔ ∃ vs, Ty.lit false vs ∈ F ∧ s ∈ vs) : V = unionVals F :=
  sorted_ext hs (sorted_unionVals F) (fun s => by rw [hm, mem_unionVals])

theorem unionVals_ne_nil_iff (F : List Ty) :
    unionVals F ≠ [] ↔ ∃ vs, Ty.lit false vs ∈ F ∧ vs ≠ [] := by
  constructor
  · intro h
    obtain ⟨s, hs⟩ := List.exists_mem_of_ne_nil _ h
    obtain ⟨vs, hvs, hsv⟩ := mem_unionVals.mp hs
    exact ⟨vs, hvs, List.ne_nil_of_mem hsv⟩
  · rintro ⟨vs, hvs, hne⟩
    obtain ⟨s, hs⟩ := List.exists_mem_of_ne_nil _ hne
    exact List.ne_nil_of_mem (mem_unionVals.mpr ⟨vs, hvs, hs⟩)

/-- a `Literal` member is emitted -/
def EmitsLiteral (c : LitCfg) (F : List Ty) : Prop :=
  LitsAllowed F ∧ unionVals F ≠ [] ∧ ¬ Overflows c (unionVals F)

/-- `str` is added at the end of `__init__` -/
def FallsBackToStr (c : LitCfg) (F : List Ty) : Prop :=
  ¬ LitsAllowed F ∨ (unionVals F ≠ [] ∧ Overflows c (unionVals F))

theorem emitsLiteral_iff (c : LitCfg) (F : List Ty) : EmitsLiteral c F ↔ emitsLit c F := by
  unfold EmitsLiteral emitsLit LitsAllowed; rw [useFinal_iff]

theorem fallsBackToStr_iff (c : LitCfg) (F : List Ty) : FallsBackToStr c F ↔ fallsBackToStr c F := by
  unfold FallsBackToStr fallsBackToStr LitsAllowed
  rw [← useFinal_iff]; simp

/-- the two outcomes exclude each other; neither holds exactly when literals stayed allowed and no
    value was seen (no literal members, or only empty ones): then nothing is added -/
theorem emits_fallsBack_exclusive (c : LitCfg) (F : List Ty) : ¬ (EmitsLiteral c F ∧ FallsBackToStr c F) := by
  rintro ⟨⟨h1, _, h3⟩, h | ⟨_, h⟩⟩
  · exact h h1
  · exact h3 h

/-- (a) the literal members of the result: there is one iff no `str` member, no overflowed literal
    member, at least one value, and the union of all value lists is within the limits; it is then
    exactly the non-overflowed literal of that union -/
theorem fold_literals_lit (c : LitCfg) (ts : List Ty) (o : Bool) (vs : List String) :
    Ty.lit o vs ∈ mkUnionMembers c ts ↔
      EmitsLiteral c (flattenUnion ts) ∧ o = false ∧ vs = unionVals (flattenUnion ts) := by
  rw [emitsLiteral_iff]; exact lit_mem_iff c ts o vs

/-- (a') as a list: the literal members are `[lit false V]` or `[]` (so never two of them) -/
theorem fold_literals_lit_filter (c : LitCfg) (ts : List Ty) :
    (EmitsLiteral c (flattenUnion ts) →
      (mkUnionMembers c ts).filter Ty.isLit = [.lit false (unionVals (flattenUnion ts))]) ∧
    (¬ EmitsLiteral c (flattenUnion ts) → (mkUnionMembers c ts).filter Ty.isLit = []) := by
  rw [emitsLiteral_iff]; exact lit_filter c ts

/-- (b) `str`: if it is a member then literals were switched off or the union overflowed; conversely in
    that case the result has a member with the hash string of `str` — `str` itself, or a non-literal
    argument that hashes like `str` and so shadowed it -/
theorem fold_literals_str (c : LitCfg) (ts : List Ty) :
    (Ty.str ∈ mkUnionMembers c ts → FallsBackToStr c (flattenUnion ts)) ∧
    (FallsBackToStr c (flattenUnion ts) →
      ∃ t ∈ mkUnionMembers c ts, hashStr t = hashStr .str ∧
        (t = .str ∨ (t ∈ flattenUnion ts ∧ t.isLit = false))) := by
  rw [fallsBackToStr_iff]; exact ⟨str_mem_imp c ts, fallsBack_imp c ts⟩

/-- only `str` itself has the hash string of `str` among the arguments (in the model `ser "str"` would
    share it; the real classes are called `IntString`, … and print with their module path) -/
def NoStrClash (F : List Ty) : Prop := ∀ t ∈ F, hashStr t = hashStr .str → t = .str

/-- (b') without such a clash: `str` is a member exactly when `use_literals` ended false -/
theorem fold_literals_str_iff (c : LitCfg) (ts : List Ty) (hc : NoStrClash (flattenUnion ts)) :
    Ty.str ∈ mkUnionMembers c ts ↔ FallsBackToStr c (flattenUnion ts) := by
  refine ⟨(fold_literals_str c ts).1, fun h => ?_⟩
  obtain ⟨t, ht, hh, rfl | ⟨hF, _⟩⟩ := (fold_literals_str c ts).2 h
  · exact ht
  · rw [← hc t hF hh]; exact ht

/-- (c) never `str` together with a literal, never an overflowed literal -/
theorem fold_literals_exclusive (c : LitCfg) (ts : List Ty) :
    ¬ (Ty.str ∈ mkUnionMembers c ts ∧ ∃ o vs, Ty.lit o vs ∈ mkUnionMembers c ts) ∧
    ∀ vs, Ty.lit true vs ∉ mkUnionMembers c ts := by
  constructor
  · rintro ⟨hs, o, vs, hl⟩
    exact emits_fallsBack_exclusive c _ ⟨((fold_literals_lit c ts o vs).1 hl).1, (fold_literals_str c ts).1 hs⟩
  · intro vs h
    have := ((fold_literals_lit c ts true vs).1 h).2.1
    cases this

/-- (a), (b), (c) together -/
theorem fold_literals (c : LitCfg) (ts : List Ty) :
    (∀ o vs, Ty.lit o vs ∈ mkUnionMembers c ts ↔
      EmitsLiteral c (flattenUnion ts) ∧ o = false ∧ vs = unionVals (flattenUnion ts)) ∧
    (Ty.str ∈ mkUnionMembers c ts → FallsBackToStr c (flattenUnion ts)) ∧
    (FallsBackToStr c (flattenUnion ts) →
      ∃ t ∈ mkUnionMembers c ts, hashStr t = hashStr .str ∧
        (t = .str ∨ (t ∈ flattenUnion ts ∧ t.isLit = false))) ∧
    ¬ (Ty.str ∈ mkUnionMembers c ts ∧ ∃ o vs, Ty.lit o vs ∈ mkUnionMembers c ts) ∧
    (∀ vs, Ty.lit true vs ∉ mkUnionMembers c ts) :=
  ⟨fold_literals_lit c ts, (fold_literals_str c ts).1, (fold_literals_str c ts).2,
   (fold_literals_exclusive c ts).1, (fold_literals_exclusive c ts).2⟩

/-- the other members: each is one of the arguments or the fallback `str`, and every non-literal
    argument is represented (members are unique up to hash string) -/
theorem fold_literals_others (c : LitCfg) (ts : List Ty) :
    (∀ t ∈ mkUnionMembers c ts, t.isLit = false →
      t ∈ flattenUnion ts ∨ (t = .str ∧ FallsBackToStr c (flattenUnion ts))) ∧
    (∀ t ∈ flattenUnion ts, t.isLit = false → ∃ t' ∈ mkUnionMembers c ts, hashStr t' = hashStr t) := by
  rw [fallsBackToStr_iff]; exact ⟨nonlit_mem_imp c ts, nonlit_covered c ts⟩

/-- the literal part of the result depends on the set of (flattened) arguments only, not on their order
    or multiplicity -/
theorem fold_literals_order_independent (c : LitCfg) (ts ts' : List Ty)
    (h : ∀ t, t ∈ flattenUnion ts ↔ t ∈ flattenUnion ts') (o : Bool) (vs : List String) :
    Ty.lit o vs ∈ mkUnionMembers c ts ↔ Ty.lit o vs ∈ mkUnionMembers c ts' := by
  rw [lit_mem_iff, lit_mem_iff, emitsLit_congr c h, unionVals_congr h]

-- non-vacuity, with the library's limits (15 values, 20 characters)
private def ex1 : List Ty := [.lit false ["b"], .int, .union [.lit false ["a", "b"], .float]]
private theorem ex1_flat : flattenUnion ex1 = [.lit false ["b"], .int, .lit false ["a", "b"], .float] := by
  simp [ex1, flattenUnion]
private theorem ex1_vals : unionVals (flattenUnion ex1) = ["a", "b"] := by rw [ex1_flat]; decide
example : EmitsLiteral ⟨15, 20⟩ (flattenUnion ex1) := by
  refine ⟨?_, ?_, ?_⟩
  · rw [ex1_flat]; simp [LitsAllowed]
  · rw [ex1_vals]; simp
  · rw [ex1_vals]; simp [Overflows, Strings.Overflows]; decide
example : Ty.lit false ["a", "b"] ∈ mkUnionMembers ⟨15, 20⟩ ex1 := by
  rw [fold_literals_lit, ex1_vals]
  refine ⟨⟨?_, ?_, ?_⟩, rfl, rfl⟩
  · rw [ex1_flat]; simp [LitsAllowed]
  · rw [ex1_vals]; simp
  · rw [ex1_vals]; simp [Overflows, Strings.Overflows]; decide
-- with at most one value allowed the same arguments fall back to `str`
example : FallsBackToStr ⟨1, 20⟩ (flattenUnion ex1) := by
  right; rw [ex1_vals]; simp [Overflows, Strings.Overflows]
example : NoStrClash (flattenUnion ex1) := by
  rw [ex1_flat]; intro t ht; simp at ht
  rcases ht with rfl | rfl | rfl | rfl <;> intro h <;> exact absurd h (by decide)

/-! ## 4. what is written is what Python reads back -/

/-- `ensure_ascii=False` (the repaired writer): every string survives -/
theorem literal_roundtrip_raw (s : List Char) :
    pyLexStr (jsonDumpsChars false s) = some (s.map Char.toNat) :=
  pyLexStr_jsonDumps false s (by simp)

/-- `json.dumps` default (`ensure_ascii=True`): strings without characters above U+FFFF survive -/
theorem literal_roundtrip_ascii_bmp (s : List Char) (hs : ∀ c ∈ s, c.toNat < 0x10000) :
    pyLexStr (jsonDumpsChars true s) = some (s.map Char.toNat) :=
  pyLexStr_jsonDumps true s (fun _ => hs)

/-- the unrestricted statement for the default writer -/
def literal_roundtrip_ascii_Statement : Prop :=
  ∀ s : List Char, pyLexStr (jsonDumpsChars true s) = some (s.map Char.toNat)

/-- D5: an astral character is written as a surrogate pair, which Python reads as two code points -/
theorem literal_roundtrip_ascii_astral_witness :
    pyLexStr (jsonDumpsChars true [Char.ofNat 0x1F600]) = some [0xD83D, 0xDE00] ∧
    pyLexStr (jsonDumpsChars true [Char.ofNat 0x1F600]) ≠ some ([Char.ofNat 0x1F600].map Char.toNat) := by
  decide

theorem literal_roundtrip_ascii_Statement_false : ¬ literal_roundtrip_ascii_Statement :=
  fun h => literal_roundtrip_ascii_astral_witness.2 (h _)

/-- the strongest true form for the default writer: everything except characters above U+FFFF -/
theorem literal_roundtrip_ascii_partial (s : List Char) (hs : ∀ c ∈ s, c.toNat < 0x10000) :
    pyLexStr (jsonDumpsChars true s) = some (s.map Char.toNat) := literal_roundtrip_ascii_bmp s hs

/-- String-level forms -/
theorem literal_roundtrip_raw_string (s : String) :
    pyLexStr (jsonDumps false s).toList = some (s.toList.map Char.toNat) := by
  simp [jsonDumps, literal_roundtrip_raw]

theorem literal_roundtrip_ascii_bmp_string (s : String) (hs : ∀ c ∈ s.toList, c.toNat < 0x10000) :
    pyLexStr (jsonDumps true s).toList = some (s.toList.map Char.toNat) := by
  simp [jsonDumps, literal_roundtrip_ascii_bmp _ hs]

-- non-vacuity / smoke: quotes, backslashes, control characters, non-ASCII BMP
example : pyLexStr (jsonDumpsChars true ['a', '"', '\\', '\n', Char.ofNat 7, Char.ofNat 0xe9, ']', ','])
    = some [97, 34, 92, 10, 7, 0xe9, 93, 44] := by decide
example : ∀ c ∈ ['a', '"', Char.ofNat 0xe9], c.toNat < 0x10000 := by decide

/-! ## 5. the argument list of `Literal[...]` splits into exactly the listed constants -/

theorem literal_list_split (xs : List (List Char)) (hne : xs ≠ []) :
    lexLiteralArgs ([',', ' '].intercalate (xs.map (jsonDumpsChars false)))
      = some (xs.map (·.map Char.toNat)) :=
  lexLiteralArgs_join xs hne

/-- the same on `String`s, with the text exactly as the generator joins it -/
theorem literal_list_split_string (xs : List String) (hne : xs ≠ []) :
    lexLiteralArgs (", ".intercalate (xs.map (jsonDumps false))).toList
      = some (xs.map (fun s => s.toList.map Char.toNat)) := by
  have h := literal_list_split (xs.map String.toList) (by simpa using hne)
  have e : (", " : String).toList = [',', ' '] := by decide
  rw [String.toList_intercalate, e]
  simpa [List.map_map, Function.comp_def, jsonDumps] using h

/-- the empty argument list is not a `Literal[...]` at all (Python: syntax error) -/
example : lexLiteralArgs [] = none := by decide

-- commas, quotes, brackets and the separator itself inside the values do not confuse the split
example : lexLiteralArgs (", ".intercalate (["a", "b, \"c", "]", "\", \""].map (jsonDumps false))).toList
    = some [[97], [98, 44, 32, 34, 99], [93], [34, 44, 32, 34]] := by
  rw [literal_list_split_string _ (by simp)]; decide

end J2M.C10
