/-
  C17 — "A failing run reports failure and leaves existing output untouched"   (DESIGN §8.17)

  Model: `J2M.Cli.runCli` — `main()` as an effect trace over a world (files, stdout, exit status):
  argparse → load all inputs + lookups → validate/set_args → library pipeline → only then `open(output, "w")`
  → `print`. Each fallible step is a field of `Run` (its result); the theorems quantify over *all* `Run`s.
  Not modelled (outside the property's fault list): a `write` that fails half-way (disk full, signal).
-/
import J2M.Proofs.Cli
namespace J2M.C17
open J2M J2M.Cli

/-- every step of the run succeeded, producing `code` from `data` -/
def AllStepsOk (r : Run) (data : List (String × List Json)) (code : String) : Prop :=
  r.argparseOk = true ∧ r.load = .ok data ∧ r.validate = .ok () ∧ r.pipeline data = .ok code

/-- `-o FILE` was given with a non-empty `FILE` -/
def WritesTo (r : Run) (path : String) : Prop := r.output = some path ∧ path ≠ ""
/-- no `-o`, or `-o ""` (Python: `if self.output_file:` is falsy) -/
def PrintsToStdout (r : Run) : Prop := r.output = none ∨ r.output = some ""

/-! ## 1. `fail_is_clean` -/

/--
  **C17.1** A run that exits non-zero leaves every file exactly as it was (in particular an existing `-o`
  target) and prints nothing on stdout.
-/
theorem fail_is_clean (r : Run) (files : List (String × String)) :
    (runCli r files).exit ≠ 0 → (runCli r files).files = files ∧ (runCli r files).stdout = "" := by
  unfold runCli
  repeat' split
  all_goals simp

/-! ## 2. `success_is_complete` -/

/-- **C17.2a** exit status 0 iff argparse accepted and load, validate and the pipeline all succeeded -/
theorem success_iff (r : Run) (files : List (String × String)) :
    (runCli r files).exit = 0 ↔ ∃ data code, AllStepsOk r data code := by
  unfold runCli AllStepsOk
  cases ha : r.argparseOk with
  | false => simp
  | true =>
    cases hl : r.load with
    | error e => simp
    | ok data =>
      cases hv : r.validate with
      | error e => simp
      | ok u =>
        cases hp : r.pipeline data with
        | error e => simp [hp]
        | ok code =>
          have : ∃ code', r.pipeline data = .ok code' := ⟨code, hp⟩
          simp only [Bool.not_true, Bool.false_eq_true, if_false, hp]
          repeat' split
          all_goals simp [hp]

/-- **C17.2b** with `-o path`: the outcome is exit 0, the one-line notice on stdout, and `path` written with
    exactly `header ++ code` -/
theorem success_with_output (r : Run) (files : List (String × String)) (data : List (String × List Json))
    (code path : String) (h : AllStepsOk r data code) (ho : WritesTo r path) :
    runCli r files = ⟨0, "Output is written to " ++ path ++ "\n", writeFile files path (r.header ++ code)⟩ := by
  obtain ⟨ha, hl, hv, hp⟩ := h
  obtain ⟨ho, hne⟩ := ho
  have : path.isEmpty = false := by simpa using hne
  simp [runCli, ha, hl, hv, hp, ho, this]

/-- **C17.2c** without `-o`: exit 0, stdout is `header ++ code ++ "\n"`, files unchanged -/
theorem success_to_stdout (r : Run) (files : List (String × String)) (data : List (String × List Json))
    (code : String) (h : AllStepsOk r data code) (ho : PrintsToStdout r) :
    runCli r files = ⟨0, r.header ++ code ++ "\n", files⟩ := by
  obtain ⟨ha, hl, hv, hp⟩ := h
  rcases ho with ho | ho <;> simp [runCli, ha, hl, hv, hp, ho]

/--
  **C17.2** `success_is_complete`: a successful run with `-o path` leaves `path` holding exactly
  `header ++ code`, every other file as it was, and stdout is the notice (the code is not printed);
  without `-o` stdout is the full text and no file changes.
-/
theorem success_is_complete (r : Run) (files : List (String × String)) (data : List (String × List Json))
    (code : String) (h : AllStepsOk r data code) :
    (runCli r files).exit = 0 ∧
    (∀ path, WritesTo r path →
        (runCli r files).files.find? (·.1 == path) = some (path, r.header ++ code) ∧
        (∀ q, q ≠ path → (runCli r files).files.find? (·.1 == q) = files.find? (·.1 == q)) ∧
        (runCli r files).stdout = "Output is written to " ++ path ++ "\n") ∧
    (PrintsToStdout r →
        (runCli r files).stdout = r.header ++ code ++ "\n" ∧ (runCli r files).files = files) := by
  refine ⟨(success_iff r files).2 ⟨data, code, h⟩, ?_, ?_⟩
  · intro path ho
    rw [success_with_output r files data code path h ho]
    exact ⟨writeFile_find_same _ _ _, fun q hq => writeFile_find_other _ _ hq, rfl⟩
  · intro ho
    rw [success_to_stdout r files data code h ho]
    exact ⟨rfl, rfl⟩

/-! ## 3. `fault_classes` -/

/-- **C17.3** each fault class gives its non-zero exit status; the exit status is always 0, 1 or 2 -/
theorem fault_classes (r : Run) (files : List (String × String)) :
    (r.argparseOk = false → (runCli r files).exit = 2) ∧
    (r.argparseOk = true → (∃ e, r.load = .error e) → (runCli r files).exit = 1) ∧
    (r.argparseOk = true → ∀ data, r.load = .ok data → (∃ e, r.validate = .error e) →
        (runCli r files).exit = 1) ∧
    (r.argparseOk = true → ∀ data, r.load = .ok data → r.validate = .ok () →
        (∃ e, r.pipeline data = .error e) → (runCli r files).exit = 1) ∧
    ((runCli r files).exit = 0 ∨ (runCli r files).exit = 1 ∨ (runCli r files).exit = 2) := by
  refine ⟨?_, ?_, ?_, ?_, ?_⟩
  · intro h; simp [runCli, h]
  · rintro h ⟨e, he⟩; simp [runCli, h, he]
  · rintro h data hd ⟨e, he⟩; simp [runCli, h, hd, he]
  · rintro h data hd hv ⟨e, he⟩; simp [runCli, h, hd, hv, he]
  · unfold runCli
    repeat' split
    all_goals simp

/-- in each fault class the world is untouched (C17.1 applied to C17.3) -/
theorem fault_is_clean (r : Run) (files : List (String × String))
    (h : r.argparseOk = false ∨ (∃ e, r.load = .error e) ∨ (∃ e, r.validate = .error e) ∨
      (∀ data, r.load = .ok data → ∃ e, r.pipeline data = .error e)) :
    (runCli r files).exit ≠ 0 ∧ (runCli r files).files = files ∧ (runCli r files).stdout = "" := by
  have hne : (runCli r files).exit ≠ 0 := by
    intro h0
    obtain ⟨data, code, ha, hl, hv, hp⟩ := (success_iff r files).1 h0
    rcases h with h | ⟨e, h⟩ | ⟨e, h⟩ | h
    · simp [ha] at h
    · simp [hl] at h
    · simp [hv] at h
    · obtain ⟨e, he⟩ := h data hl
      simp [hp] at he
  exact ⟨hne, fail_is_clean r files hne⟩

/-! ## 4. `write_lookup` -/

/-- **C17.4** reading back the written file gives the text written; other paths are unchanged -/
theorem write_lookup (files : List (String × String)) (p t : String) :
    (writeFile files p t).find? (·.1 == p) = some (p, t) ∧
    ∀ q, q ≠ p → (writeFile files p t).find? (·.1 == q) = files.find? (·.1 == q) :=
  ⟨writeFile_find_same files p t, fun _ hq => writeFile_find_other files t hq⟩

/-! ## Non-vacuity: concrete runs -/

def oldFiles : List (String × String) := [("models.py", "# precious"), ("other.txt", "x")]

/-- a run that succeeds and writes `models.py` -/
def goodRun : Run where
  argparseOk := true
  load := .ok [("A", [.obj [("x", .int 1)]])]
  validate := .ok ()
  pipeline := fun data => if data.length = 1 then .ok "class A: ...\n" else .error .valueError
  header := "r\"\"\"generated\"\"\"\n"
  output := some "models.py"

/-- the same run with a document whose lookup hits a scalar (`iter_json_file` raises `TypeError`) -/
def badLoadRun : Run := { goodRun with load := assemble [⟨"A", "x", [.obj [("x", .int 1)]]⟩] }
/-- the same run with the pipeline raising (e.g. the empty-key-set comparator division) -/
def badPipeRun : Run := { goodRun with pipeline := fun _ => .error .zeroDivision }
def badArgsRun : Run := { goodRun with argparseOk := false }
def stdoutRun : Run := { goodRun with output := none }

example : AllStepsOk goodRun [("A", [.obj [("x", .int 1)]])] "class A: ...\n" := ⟨rfl, rfl, rfl, rfl⟩
example : WritesTo goodRun "models.py" := ⟨rfl, by decide⟩
example : PrintsToStdout stdoutRun := .inl rfl
example : runCli goodRun oldFiles =
    ⟨0, "Output is written to models.py\n",
     [("models.py", "r\"\"\"generated\"\"\"\nclass A: ...\n"), ("other.txt", "x")]⟩ := by
  rw [success_with_output goodRun oldFiles _ _ "models.py" ⟨rfl, rfl, rfl, rfl⟩ ⟨rfl, by decide⟩]
  congr 1
example : runCli stdoutRun oldFiles = ⟨0, "r\"\"\"generated\"\"\"\nclass A: ...\n\n", oldFiles⟩ := by
  rw [success_to_stdout stdoutRun oldFiles _ _ ⟨rfl, rfl, rfl, rfl⟩ (.inl rfl)]
  congr 1
example : badLoadRun.load = .error .typeError := by rfl
example : runCli badLoadRun oldFiles = ⟨1, "", oldFiles⟩ := by rfl
example : runCli badPipeRun oldFiles = ⟨1, "", oldFiles⟩ := by rfl
example : runCli badArgsRun oldFiles = ⟨2, "", oldFiles⟩ := by rfl

end J2M.C17
