/-
  C07 — "Sample order and repetition do not change what is inferred"  (DESIGN §8.7), per-function pieces.

  1. `mergeFieldSets_keys_perm` — the key set of `merge_field_sets` depends only on the *set* of field sets
  2. `mergeFieldSets_opt_perm`  — optional status per key: still FALSE in general after the repair of
                                  generator.py:155 (order-dependence witness), `_partial` on opt-free sets
                                  (the generator stage); TRUE for arbitrary sets in the lax form
                                  `mergeFieldSets_hasOpt_perm`
  3. `mkUnion_perm`             — `DUnion(*ts)` up to member order (no `str`/literals, injective hash)
-/
import J2M.Proofs.Merge
import J2M.Proofs.MergeCalls
namespace J2M.C07
open J2M

/-- `sets₂` has the same field sets as `sets₁`, in any order and with any repetition -/
def SameSets (sets₁ sets₂ : List Fields) : Prop := ∀ fs, fs ∈ sets₁ ↔ fs ∈ sets₂

theorem SameSets.of_perm {sets₁ sets₂ : List Fields} (h : sets₁.Perm sets₂) : SameSets sets₁ sets₂ :=
  fun _ => h.mem_iff

/-- appending repetitions of sets already present -/
theorem SameSets.of_dups {sets dups : List Fields} (h : ∀ fs ∈ dups, fs ∈ sets) :
    SameSets sets (sets ++ dups) := by
  intro fs
  rw [List.mem_append]
  exact ⟨.inl, fun h' => h'.elim id (h fs)⟩

/-! ## 1. keys -/

/-- **C07.1** the key set of the merge is invariant under permutation and duplication of the sets. -/
theorem mergeFieldSets_keys_perm {c : LitCfg} {e : EqEnv} {sets₁ sets₂ : List Fields} {r₁ r₂ : Fields}
    (hs : SameSets sets₁ sets₂)
    (h₁ : mergeFieldSets c e sets₁ = .ok r₁) (h₂ : mergeFieldSets c e sets₂ = .ok r₂) :
    ∀ k, k ∈ r₁.keys ↔ k ∈ r₂.keys := by
  intro k
  rw [mergeFieldSets_keys h₁, mergeFieldSets_keys h₂, mem_dedupStr, mem_dedupStr,
    List.mem_flatMap, List.mem_flatMap]
  constructor
  · rintro ⟨fs, h, hk⟩; exact ⟨fs, (hs fs).1 h, hk⟩
  · rintro ⟨fs, h, hk⟩; exact ⟨fs, (hs fs).2 h, hk⟩

/-- and both key lists are duplicate-free, so they are permutations of each other -/
theorem mergeFieldSets_keys_perm' {c : LitCfg} {e : EqEnv} {sets₁ sets₂ : List Fields} {r₁ r₂ : Fields}
    (hs : SameSets sets₁ sets₂)
    (h₁ : mergeFieldSets c e sets₁ = .ok r₁) (h₂ : mergeFieldSets c e sets₂ = .ok r₂) :
    r₁.keys.Perm r₂.keys := by
  rw [List.perm_ext_iff_of_nodup]
  · exact mergeFieldSets_keys_perm hs h₁ h₂
  · rw [mergeFieldSets_keys h₁]; exact nodup_dedupStr _
  · rw [mergeFieldSets_keys h₂]; exact nodup_dedupStr _

/-- the same sample values, in any order and with any repetition -/
def SameSamples (s₁ s₂ : List Json) : Prop := ∀ v, v ∈ s₁ ↔ v ∈ s₂

theorem sameSets_of_sameSamples {cfg : GenCfg} {o : GenOracles} {s₁ s₂ : List Json} {sets₁ sets₂ : List Fields}
    (hs : SameSamples s₁ s₂) (h₁ : s₁.mapM (convert cfg o) = .ok sets₁)
    (h₂ : s₂.mapM (convert cfg o) = .ok sets₂) : SameSets sets₁ sets₂ := by
  intro fs
  constructor
  · intro hfs
    obtain ⟨v, hv, hc⟩ := mapM_ok_mem h₁ hfs
    obtain ⟨fs', hfs', hc'⟩ := mapM_ok_mem_left h₂ ((hs v).1 hv)
    rw [hc] at hc'; cases hc'; exact hfs'
  · intro hfs
    obtain ⟨v, hv, hc⟩ := mapM_ok_mem h₂ hfs
    obtain ⟨fs', hfs', hc'⟩ := mapM_ok_mem_left h₁ ((hs v).2 hv)
    rw [hc] at hc'; cases hc'; exact hfs'

/-- **C07.1 at the level of `generate`**: the root model's key set does not depend on the order or
    repetition of the samples. -/
theorem generate_keys_perm {cfg : GenCfg} {o : GenOracles} {s₁ s₂ : List Json} {t₁ t₂ : Ty}
    (hs : SameSamples s₁ s₂) (h₁ : generate cfg o s₁ = .ok t₁) (h₂ : generate cfg o s₂ = .ok t₂) :
    ∃ fs₁ fs₂, t₁ = .obj fs₁ ∧ t₂ = .obj fs₂ ∧ ∀ k, k ∈ Fields.keys fs₁ ↔ k ∈ Fields.keys fs₂ := by
  obtain ⟨sets₁, f₁, fs₁, hm₁, hg₁, rfl, hk₁⟩ := generate_ok h₁
  obtain ⟨sets₂, f₂, fs₂, hm₂, hg₂, rfl, hk₂⟩ := generate_ok h₂
  refine ⟨fs₁, fs₂, rfl, rfl, fun k => ?_⟩
  rw [hk₁, hk₂]
  exact mergeFieldSets_keys_perm (sameSets_of_sameSamples hs hm₁ hm₂) hg₁ hg₂ k

def cEx : LitCfg := ⟨10, 50⟩
def eEx : EqEnv := ⟨StrOracle.default, fun i => "Model#" ++ i, fun _ => none, 5⟩

example : SameSets [[("a", Ty.int)], [("b", Ty.str)]] [[("b", .str)], [("a", .int)], [("b", .str)]] := by
  intro fs; simp; grind
example : mergeFieldSets cEx eEx [[("b", .str)], [("a", .int)], [("b", .str)]] =
    .ok [("b", .opt .str), ("a", .opt .int)] := by rfl
example : mergeFieldSets cEx eEx [[("a", .int)], [("b", .str)]] =
    .ok [("a", .opt .int), ("b", .opt .str)] := by rfl

/-! ## 2. optional status -/

/-- DESIGN §8.7-2 as stated: optional status per key is invariant under permutation/duplication. -/
def mergeFieldSets_opt_perm_Statement : Prop :=
  ∀ (c : LitCfg) (e : EqEnv) (sets₁ sets₂ : List Fields) (r₁ r₂ : Fields),
    SameSets sets₁ sets₂ → mergeFieldSets c e sets₁ = .ok r₁ → mergeFieldSets c e sets₂ = .ok r₂ →
    ∀ k t₁ t₂, (k, t₁) ∈ r₁ → (k, t₂) ∈ r₂ → t₁.isOpt = t₂.isOpt

/-- comparison environment with one level of `==` (enough when the top-level classes differ; keeps `simp` cheap) -/
def eEx1 : EqEnv := ⟨StrOracle.default, fun i => "Model#" ++ i, fun _ => none, 1⟩

/-- **NEW behaviour** (repaired generator.py:155; this pair was the old order-dependence witness, the first
    order used to give `a: int`): `{"a": int}` and `{"a": Optional[int]}` merge to `a: Optional[int]` in both
    orders. -/
example : mergeFieldSets cEx eEx [[("a", .int)], [("a", .opt .int)]] = .ok [("a", .opt .int)] ∧
    mergeFieldSets cEx eEx [[("a", .opt .int)], [("a", .int)]] = .ok [("a", .opt .int)] :=
  ⟨rfl, rfl⟩

/-- **Order-dependence witness** (generator.py:143-160, still there after the repair): `{"a": int}` then
    `{"a": Optional[str]}` gives `a: Union[Optional[str], int]` (not a `DOptional`); the other order gives
    `a: Optional[Union[int, str]]`.  (`optimize_type` maps both to `Optional[Union[int, str]]`; the lax
    form `mergeFieldSets_hasOpt_perm` is order-independent.) -/
theorem order_witness :
    mergeFieldSets cEx eEx1 [[("a", .int)], [("a", .opt .str)]] = .ok [("a", .union [.opt .str, .int])] ∧
    mergeFieldSets cEx eEx1 [[("a", .opt .str)], [("a", .int)]] = .ok [("a", .opt (.union [.int, .str]))] := by
  constructor <;>
  simp [mergeFieldSets, mergeFieldSets.go, mergeStep, mergeOne, Fields.get?, Fields.set, Fields.keys,
    Fields.has, Ty.isOpt, EqEnv.eq, eEx1, pyEq, bind, Except.bind, pure, Except.pure, Ty.unionMembers,
    mkUnionMembers, flattenUnion, handleType, hashStr, Ty.isStr]

/-- **C07.2 is still false as stated.** -/
theorem mergeFieldSets_opt_perm_false : ¬ mergeFieldSets_opt_perm_Statement := by
  intro h
  have := h cEx eEx1 _ _ _ _
    (SameSets.of_perm (List.Perm.swap [("a", Ty.opt .str)] [("a", Ty.int)] []))
    order_witness.1 order_witness.2 "a" (.union [.opt .str, .int]) (.opt (.union [.int, .str]))
    (by simp) (by simp)
  simp [Ty.isOpt] at this

/-- **C07.2 (full, in the lax form).**  For *arbitrary* field sets (`DOptional` fields allowed — the
    registry's `merge_models`): whether the merged type of a key is *optional-like* (`HasOptMember`: a
    `DOptional` at its top or among its flattened union members — what `optimize_type` turns into a
    `DOptional`) is invariant under permutation and duplication of the sets.
    False before the repair of generator.py:155 (the old `order_witness`). -/
theorem mergeFieldSets_hasOpt_perm {c : LitCfg} {e : EqEnv} {sets₁ sets₂ : List Fields} {r₁ r₂ : Fields}
    (hs : SameSets sets₁ sets₂)
    (h₁ : mergeFieldSets c e sets₁ = .ok r₁) (h₂ : mergeFieldSets c e sets₂ = .ok r₂)
    {k : String} {t₁ t₂ : Ty} (hm₁ : (k, t₁) ∈ r₁) (hm₂ : (k, t₂) ∈ r₂) :
    HasOptMember t₁ ↔ HasOptMember t₂ := by
  rw [mergeFieldSets_hasOpt_iff h₁ hm₁, mergeFieldSets_hasOpt_iff h₂ hm₂]
  have e1 : HasOptIn sets₁ k ↔ HasOptIn sets₂ k := by
    constructor
    · rintro ⟨fs, h, hk⟩; exact ⟨fs, (hs fs).1 h, hk⟩
    · rintro ⟨fs, h, hk⟩; exact ⟨fs, (hs fs).2 h, hk⟩
  have e2 : AbsentIn sets₁ k ↔ AbsentIn sets₂ k := by
    constructor
    · rintro ⟨fs, h, hk⟩; exact ⟨fs, (hs fs).1 h, hk⟩
    · rintro ⟨fs, h, hk⟩; exact ⟨fs, (hs fs).2 h, hk⟩
  rw [e1, e2]

/-- non-vacuity, on `order_witness`: both orders give an optional-like type -/
example : HasOptMember (.union [.opt .str, .int]) ∧ HasOptMember (.opt (.union [.int, .str])) :=
  ⟨⟨.opt .str, by simp [Ty.unionMembers, flattenUnion], rfl⟩, hasOptMember_of_isOpt rfl⟩

/-- **`mergeFieldSets_opt_perm_partial`**: on opt-free sets (no `DOptional` at the top or among the
    union members of any incoming field — what `generate` and `_optimize_union` pass during the
    generator stage) the optional status per key is invariant under permutation and duplication.
    Excluded: sets containing `DOptional` fields (the registry's `merge_models`), where
    `order_witness` applies. -/
theorem mergeFieldSets_opt_perm_partial {c : LitCfg} {e : EqEnv} {sets₁ sets₂ : List Fields} {r₁ r₂ : Fields}
    (hs : SameSets sets₁ sets₂) (hf : OptFree sets₁)
    (h₁ : mergeFieldSets c e sets₁ = .ok r₁) (h₂ : mergeFieldSets c e sets₂ = .ok r₂)
    {k : String} {t₁ t₂ : Ty} (hm₁ : (k, t₁) ∈ r₁) (hm₂ : (k, t₂) ∈ r₂) :
    t₁.isOpt = t₂.isOpt := by
  have hf₂ : OptFree sets₂ := fun fs hfs => hf fs ((hs fs).2 hfs)
  have e₁ := mergeFieldSets_opt_iff_of_optFree h₁ hf hm₁
  have e₂ := mergeFieldSets_opt_iff_of_optFree h₂ hf₂ hm₂
  have ea : AbsentIn sets₁ k ↔ AbsentIn sets₂ k := by
    constructor
    · rintro ⟨fs, h, hk⟩; exact ⟨fs, (hs fs).1 h, hk⟩
    · rintro ⟨fs, h, hk⟩; exact ⟨fs, (hs fs).2 h, hk⟩
  have : t₁.isOpt = true ↔ t₂.isOpt = true := by rw [e₁, e₂, ea]
  cases h1 : t₁.isOpt <;> cases h2 : t₂.isOpt <;> simp_all

/-- the hypothesis holds for the sets `generate` merges, for any sample list -/
theorem generate_sets_optFree {cfg : GenCfg} {o : GenOracles} {samples : List Json} {sets : List Fields}
    (h : samples.mapM (convert cfg o) = .ok sets) : OptFree sets :=
  convert_optFree h

/--
  **Where the order-dependence is (not) reachable.**  During `generate`, the top-level merge and every
  `merge_field_sets` call made inside `optimize_type` / `_optimize_union` (`MergeCalls`, an inductive
  transcription of that recursion, `J2M/Proofs/MergeCalls.lean`) receive only sets without any
  `DOptional`; so `mergeFieldSets_opt_perm_partial` (and `C02.merge_opt_iff_partial`) apply to all of
  them, and `order_witness` is *not* reachable in the generator stage.  It is reachable from
  `ModelRegistry.merge_models → _merge → merge_field_sets`, which merges already optimised models
  (see the final report: `{"x": item, "y": [item, {**item, "a": null}]}`).
-/
theorem generate_merges_optFree {cfg : GenCfg} {o : GenOracles} {samples : List Json}
    {sets : List Fields} {fields : Fields}
    (h1 : samples.mapM (convert cfg o) = .ok sets)
    (h2 : mergeFieldSets cfg.lit (genEnv o) sets = .ok fields) :
    OptFree sets ∧
    ∀ sets', MergeCalls cfg (genEnv o) (Ty.fuelFor (.obj fields)) (.obj fields) sets' → OptFree sets' := by
  obtain ⟨a, b⟩ := generate_mergeCalls_noOpt h1 h2
  exact ⟨a.optFree, fun sets' hc => (b sets' hc).optFree⟩

/-- `MergeCalls` is inhabited: optimising `{"l": Union[{a:int}, {b:int}]}` merges the two objects -/
example (cfg : GenCfg) (e : EqEnv) :
    MergeCalls cfg e 3 (.obj [("l", .union [.obj [("a", .int)], .obj [("b", .int)]])])
      [[("a", .int)], [("b", .int)]] :=
  .obj (kv := ("l", _)) (List.mem_cons_self ..) (.unionHere (n := 0) rfl)

/-- non-vacuity -/
example : OptFree [[("a", Ty.int)], [("b", Ty.str)]] := by
  intro fs hfs kv hkv
  simp at hfs
  rcases hfs with rfl | rfl <;> simp at hkv <;> subst hkv <;>
    simp [HasOptMember, Ty.unionMembers, flattenUnion, Ty.isOpt]

/-! ## 3. `mkUnion_perm` -/

/-- `flatten` respects permutations -/
theorem flattenUnion_perm {ts₁ ts₂ : List Ty} (h : ts₁.Perm ts₂) :
    (flattenUnion ts₁).Perm (flattenUnion ts₂) :=
  J2M.flattenUnion_perm h

/-- **C07.3** `DUnion(*ts₁)` and `DUnion(*ts₂)` have the same members up to order when `ts₁ ~ ts₂`,
    there is no `str` and no literal member, and the hash string is injective on the flattened members. -/
theorem mkUnion_perm {c : LitCfg} {ts₁ ts₂ : List Ty} (hp : ts₁.Perm ts₂)
    (hn : NoStrNoLit (flattenUnion ts₁)) (hi : HashInj (flattenUnion ts₁)) :
    (mkUnionMembers c ts₁).Perm (mkUnionMembers c ts₂) :=
  mkUnionMembers_perm hp hn hi

/-- non-vacuity: `[int, Union[float, int], null]` -/
example : NoStrNoLit (flattenUnion [.int, .union [.float, .int], .null]) := by
  simp [flattenUnion, NoStrNoLit, Ty.isStr, Ty.isLit]
example : HashInj (flattenUnion [.int, .union [.float, .int], .null]) := by
  intro a ha b hb he
  simp [flattenUnion] at ha hb
  rcases ha with rfl | rfl | rfl | rfl <;> rcases hb with rfl | rfl | rfl | rfl <;>
    first | rfl | (simp [hashStr] at he)

end J2M.C07
