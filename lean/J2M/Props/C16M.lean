import J2M.Proofs.Cli
/-!
# C16M — the `--merge` list as a whole (`validate` then `set_args`)

`Cli.parseMergeList` models what the front end does with the list given to `--merge`: every item's name is validated
first, then each item becomes one comparator. The theorems say that the stored policy is exactly the item-wise image of
the list: same length, same order, nothing dropped when a kind is repeated.
-/
namespace J2M.C16M
open J2M J2M.Cli

variable (po : PercentOracle) (io : IntOracle) (dp : Nat × Nat) (dn : Nat)

theorem convertMerge_length : ∀ (items : List String) (cs : List Cmp),
    convertMerge po io dp dn items = .ok cs → cs.length = items.length
  | [], cs, h => by simp [convertMerge, pure, Except.pure] at h; subst h; rfl
  | m :: rest, cs, h => by
    simp only [convertMerge, bind, Except.bind] at h
    split at h
    · cases h
    · rename_i c hc
      split at h
      · cases h
      · rename_i cs' hcs
        simp [pure, Except.pure] at h
        subst h
        simp [convertMerge_length rest cs' hcs]

/-- item `i` of the stored policy is the comparator of item `i` of the list -/
theorem convertMerge_get : ∀ (items : List String) (cs : List Cmp),
    convertMerge po io dp dn items = .ok cs →
    ∀ (i : Nat) (hi : i < items.length) (hc : i < cs.length), parseMerge po io dp dn items[i] = .ok cs[i]
  | [], _, _, i, hi, _ => by simp at hi
  | m :: rest, cs, h, i, hi, hc => by
    simp only [convertMerge, bind, Except.bind] at h
    split at h
    · cases h
    · rename_i c hc'
      split at h
      · cases h
      · rename_i cs' hcs
        simp [pure, Except.pure] at h
        subst h
        cases i with
        | zero => simpa using hc'
        | succ j =>
          simp only [List.getElem_cons_succ]
          exact convertMerge_get rest cs' hcs j (by simpa using hi) (by simpa using hc)

/-- the whole list: when it is accepted, the policy has one comparator per item, in order -/
theorem parseMergeList_itemwise (items : List String) (cs : List Cmp)
    (h : parseMergeList po io dp dn items = .ok cs) :
    cs.length = items.length ∧
    ∀ (i : Nat) (hi : i < items.length) (hc : i < cs.length), parseMerge po io dp dn items[i] = .ok cs[i] := by
  unfold parseMergeList at h
  simp only [bind, Except.bind] at h
  split at h
  · cases h
  · exact ⟨convertMerge_length po io dp dn items cs h, convertMerge_get po io dp dn items cs h⟩

/-- a repeated kind is kept: two `number` items give two comparators (what a de-duplicating `set_args` would lose) -/
theorem repeated_kind_kept (a b : String) (x y : Int)
    (ha : io a = some (some x)) (hb : io b = some (some y))
    (hna : ("number_" ++ a).contains '_' = true) (hnb : ("number_" ++ b).contains '_' = true)
    (hsa : splitUnderscore ("number_" ++ a) = ["number", a]) (hsb : splitUnderscore ("number_" ++ b) = ["number", b]) :
    parseMergeList po io dp dn ["number_" ++ a, "number_" ++ b] = .ok [.number x.toNat, .number y.toNat] := by
  simp [parseMergeList, validateMerge, mergeName, convertMerge, parseMerge, hna, hnb, hsa, hsb, ha, hb, bind, Except.bind,
    pure, Except.pure]

/-- an invalid name anywhere in the list is reported before any item is converted -/
theorem invalid_name_first (items : List String) (h : validateMerge items = .error .valueError) :
    parseMergeList po io dp dn items = .error .valueError := by
  simp [parseMergeList, h, bind, Except.bind]

private theorem split2 : splitUnderscore ("number_" ++ "2") = ["number", "2"] := by
  unfold splitUnderscore
  rw [show "_" = String.singleton '_' from rfl, String.splitOn_char]; decide
private theorem split6 : splitUnderscore ("number_" ++ "6") = ["number", "6"] := by
  unfold splitUnderscore
  rw [show "_" = String.singleton '_' from rfl, String.splitOn_char]; decide

/-- non-vacuity: `--merge number_2 number_6` keeps both comparators, the permissive one first -/
example : parseMergeList po (fun s => if s = "2" then some (some 2) else if s = "6" then some (some 6) else none) dp dn
      ["number_" ++ "2", "number_" ++ "6"] = .ok [.number 2, .number 6] :=
  repeated_kind_kept po _ dp dn "2" "6" 2 6 (by simp) (by simp) (by simp [String.contains_char_eq])
    (by simp [String.contains_char_eq]) split2 split6

#print axioms parseMergeList_itemwise
#print axioms repeated_kind_kept
end J2M.C16M
