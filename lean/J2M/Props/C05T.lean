/-
  Property C05 (and C01/C08 through the registry) for SEVERAL `merge_models()` calls on one registry — the library
  use "merge, receive more data, merge again":

      reg.process_meta_data(first…); reg.merge_models(gen); reg.process_meta_data(more…); reg.merge_models(gen)

  (`pipelineTwo` in `J2M/Pipeline.lean`: `buildGraph first`, `mergeModels`, `buildGraphFrom … more`, `mergeModels`,
  `generateNames`).  In the second merge the RESULTS of the first merge — also self-referencing ones, e.g. a tree
  folded into one model — are ordinary members.  The single-round theorems (`C05R`, `C07R`, `C08M`, `C08I`, `C01R`)
  each restore the invariant they need (`Reg.WF`, `AllOut`, `AllK`, `GraphGood`); this file threads them through
  `buildGraphFrom` from a registry that satisfies them, through `pipelineTwo`, and through any number of rounds
  (`mergeRounds`).  NO guarantee fails for the second merge.

  Helper developments: `J2M/Proofs/TwoMerges.lean`, `J2M/Proofs/TwoMergesExample.lean` (the concrete run).
-/
import J2M.Proofs.TwoMergesExample
namespace J2M.C05T
open J2M J2M.Reg J2M.TwoMerges J2M.C07RH

/-! ## 0. vocabulary

* `Reg.WF g` — well-formed registry (`C05R.wf_iff`): distinct indices from the counter range, no dangling pointer.
* `Keeps g0 g` — `g` extends `g0`: every model of `g0` is registered in `g` with the same field dict, the pointer
  records of `g0` are a prefix of those of `g`, the counter did not go back.
* `Merged repl i j`, `Linked cmps g i j` — `C07R`: members of one replacement entry / linked in the similarity graph
  of the key sets of `g`.
* `Retired g j` — `j` was handed out by the `Index` of `g` and is not registered: a replaced model.
* `mergeRounds cfg o cmps g rounds` — for every element of `rounds`: `buildGraphFrom`, then `mergeModels`. -/

example (g0 g : Graph) : Keeps g0 g ↔
    (∀ i ∈ idxs g0, i ∈ idxs g) ∧ (∀ i ∈ idxs g0, g.look i = g0.look i) ∧ g0.counter ≤ g.counter ∧
    ∃ newp, g.ptrs = g0.ptrs ++ newp :=
  ⟨fun h => ⟨h.idx, h.look, h.counter, h.ptrs⟩, fun ⟨a, b, c, d⟩ => ⟨a, b, c, d⟩⟩
example (g : Graph) (j : String) : Retired g j ↔ j ∉ idxs g ∧ ∃ k, k < g.counter ∧ j = indexOf k := Iff.rfl
example (cfg : GenCfg) (o : GenOracles) (cmps : List Cmp) (g : Graph) : mergeRounds cfg o cmps g [] = .ok g := rfl

open J2M.TwoMerges.Ex

/-! ## 1. `buildGraphFrom` -/

/-- **buildGraph_eq_from**: the CLI's `buildGraph` is `buildGraphFrom` the empty registry -/
theorem buildGraph_eq_from (cfg : GenCfg) (o : GenOracles) (inputs : List (String × List Json)) :
    buildGraph cfg o inputs = buildGraphFrom cfg o {} inputs := rfl

/-- **buildGraphFrom_append**: registering `xs ++ ys` is registering `xs`, then `ys` into the result -/
theorem buildGraphFrom_append (cfg : GenCfg) (o : GenOracles) (g0 : Graph) (xs ys : List (String × List Json)) :
    buildGraphFrom cfg o g0 (xs ++ ys) = (buildGraphFrom cfg o g0 xs >>= fun g => buildGraphFrom cfg o g ys) :=
  TwoMerges.buildGraphFrom_append cfg o g0 xs ys

theorem buildGraph_append (cfg : GenCfg) (o : GenOracles) (xs ys : List (String × List Json)) :
    buildGraph cfg o (xs ++ ys) = (buildGraph cfg o xs >>= fun g => buildGraphFrom cfg o g ys) :=
  TwoMerges.buildGraph_append cfg o xs ys

/-- **buildGraphFrom_WF** (generalises `C05R.buildGraph_WF`): all inputs, options, oracles -/
theorem buildGraphFrom_WF {cfg : GenCfg} {o : GenOracles} {g0 g : Graph} {inputs : List (String × List Json)}
    (wf : WF g0) (h : buildGraphFrom cfg o g0 inputs = .ok g) : WF g := TwoMerges.buildGraphFrom_WF wf h

/-- **mergeModels_WF**: `merge_models` keeps the registry well-formed -/
theorem mergeModels_WF {cfg : GenCfg} {so : StrOracle} {cmps : List Cmp} {g g' : Graph}
    {repl : List (String × List String)} (wf : WF g) (h : mergeModels cfg so cmps g = .ok (g', repl)) : WF g' :=
  TwoMerges.mergeModels_WF wf h

/-- **buildGraphFrom_keeps**: `process_meta_data` only appends — every model already registered (in particular a
    merged, possibly self-referencing one) is registered unchanged afterwards -/
theorem buildGraphFrom_keeps {cfg : GenCfg} {o : GenOracles} {g0 g : Graph} {inputs : List (String × List Json)}
    (wf : WF g0) (h : buildGraphFrom cfg o g0 inputs = .ok g) : Keeps g0 g := TwoMerges.buildGraphFrom_keeps wf h

/-- non-vacuity: the self-referencing `1C` of `g1T` is well-formed and is kept by the second `process_meta_data` -/
example : WF g1T ∧ buildGraphFrom cfgT oT g1T moreT = .ok g2T ∧ WF g2T ∧ g2T.look "1C" = some fC ∧
    "1C" ∈ ptrsOfFields fC := by
  have wf1 : WF g1T := mergeModels_WF (C05R.buildGraph_WF exT_build) (exT_merge1 oT.str)
  exact ⟨wf1, exT_more, buildGraphFrom_WF wf1 exT_more, rfl, by simp [fC, ptrsOfFields, ptrsOf]⟩

/-! ## 2. the stages of `pipelineTwo` -/

/-- **pipelineTwo_stages**: a successful run is exactly the five successful stages -/
theorem pipelineTwo_stages {cfg : GenCfg} {o : PipeOracles} {cmps : List Cmp} {first more : List (String × List Json)}
    {r : PipeResult} (h : pipelineTwo cfg o cmps first more = .ok r) :
    ∃ g0 g1 repl1, buildGraph cfg o.gen first = .ok g0 ∧ mergeModels cfg o.gen.str cmps g0 = .ok (g1, repl1) ∧
      buildGraphFrom cfg o.gen g1 more = .ok r.afterProcess ∧
      mergeModels cfg o.gen.str cmps r.afterProcess = .ok (r.afterMerge, r.replaces) ∧
      generateNames o.names r.afterMerge = .ok r.named := pipelineTwo_ok h

/-- **pipelineTwo_WF**: the registry is well-formed at every stage — in particular `g2 = r.afterProcess`, the
    registry the SECOND merge starts from (merged models of round one + the newly registered models) -/
theorem pipelineTwo_WF {cfg : GenCfg} {o : PipeOracles} {cmps : List Cmp} {first more : List (String × List Json)}
    {r : PipeResult} (h : pipelineTwo cfg o cmps first more = .ok r) :
    WF r.afterProcess ∧ WF r.afterMerge ∧ WF r.named := by
  obtain ⟨g0, g1, repl1, h0, h1, h2, h3, h4⟩ := pipelineTwo_ok h
  have wf2 := buildGraphFrom_WF (mergeModels_WF (C05R.buildGraph_WF h0) h1) h2
  have wf3 := mergeModels_WF wf2 h3
  exact ⟨wf2, wf3, RSound.generateNames_WF h4 wf3⟩

/-- non-vacuity: the concrete run of section 7 (`Ex.exT_run`) — the hypothesis of every `pipelineTwo_*` theorem -/
example : WF g2T ∧ WF g3T := by
  obtain ⟨a, b, _⟩ := pipelineTwo_WF exT_run
  exact ⟨a, b⟩

/-! ## 3. C05 for the second merge -/

/-- **pipelineTwo_merge_iff.**  In the SECOND merge, two models of the intermediate registry `r.afterProcess` (merge
    results of round one and newly registered models alike) end in the same merged model iff they are linked in the
    similarity graph of THEIR key sets in `r.afterProcess` (`C07R.merged_iff_linked` for that registry). -/
theorem pipelineTwo_merge_iff {cfg : GenCfg} {o : PipeOracles} {cmps : List Cmp}
    {first more : List (String × List Json)} {r : PipeResult} (h : pipelineTwo cfg o cmps first more = .ok r)
    (i j : String) : Merged r.replaces i j ↔ Linked cmps r.afterProcess i j := by
  obtain ⟨_, _, _, _, _, _, h3, _⟩ := pipelineTwo_ok h
  exact C07R.merged_iff_linked (pipelineTwo_WF h).1 h3 i j

/-- non-vacuity: in the run, the self-referencing merge result `1C` of round one and the new model `1E` end in the
    same model — so they are linked in the similarity graph of `g2T` (here even directly similar: same key set) -/
example : Merged [("1F", ["1C", "1D", "1E"])] "1C" "1E" ∧ Linked cmpsT g2T "1C" "1E" := by
  have hm : Merged [("1F", ["1C", "1D", "1E"])] "1C" "1E" := ⟨_, List.mem_cons_self, by simp, by simp⟩
  exact ⟨hm, (pipelineTwo_merge_iff exT_run "1C" "1E").1 hm⟩

/-- the same on registry positions (`C05R.C05_merge_iff`) -/
theorem pipelineTwo_merge_iff_pos {cfg : GenCfg} {o : PipeOracles} {cmps : List Cmp}
    {first more : List (String × List Json)} {r : PipeResult} (h : pipelineTwo cfg o cmps first more = .ok r)
    {a b : Nat} (ha : a < r.afterProcess.models.length) (hb : b < r.afterProcess.models.length) (hab : a ≠ b) :
    (∃ p ∈ r.replaces, (idxs r.afterProcess).getD a "" ∈ p.2 ∧ (idxs r.afterProcess).getD b "" ∈ p.2) ↔
      Chain cmps r.afterProcess a b := by
  obtain ⟨_, _, _, _, _, _, h3, _⟩ := pipelineTwo_ok h
  exact C05R.C05_merge_iff (pipelineTwo_WF h).1 h3 ha hb hab

/-- … and as classes: two different models of `r.afterProcess` become the SAME registered model iff chained -/
theorem pipelineTwo_same_class_iff {cfg : GenCfg} {o : PipeOracles} {cmps : List Cmp}
    {first more : List (String × List Json)} {r : PipeResult} (h : pipelineTwo cfg o cmps first more = .ok r)
    {a b : Nat} (ha : a < r.afterProcess.models.length) (hb : b < r.afterProcess.models.length) (hab : a ≠ b) :
    σFold r.replaces ((idxs r.afterProcess).getD a "") = σFold r.replaces ((idxs r.afterProcess).getD b "") ↔
      Chain cmps r.afterProcess a b := by
  obtain ⟨_, _, _, _, _, _, h3, _⟩ := pipelineTwo_ok h
  exact C05R.C05_same_class_iff (pipelineTwo_WF h).1 h3 ha hb hab

/-- **the merge results of round one take part in round two**: the merged model `p.1` of every replacement entry
    of the first `merge_models` is a registered model of `r.afterProcess` (so `pipelineTwo_merge_iff` speaks about
    it), with the key list it got in round one — the union of its members' key sets. -/
theorem pipelineTwo_first_results_take_part {cfg : GenCfg} {o : PipeOracles} {cmps : List Cmp}
    {first more : List (String × List Json)} {r : PipeResult} (h : pipelineTwo cfg o cmps first more = .ok r) :
    ∃ g0 g1 repl1, buildGraph cfg o.gen first = .ok g0 ∧ mergeModels cfg o.gen.str cmps g0 = .ok (g1, repl1) ∧
      Keeps g1 r.afterProcess ∧
      ∀ p ∈ repl1, p.1 ∈ idxs r.afterProcess ∧ keysOf r.afterProcess p.1 = keysOf g1 p.1 ∧
        ∀ key, (∃ ks, keysOf r.afterProcess p.1 = some ks ∧ key ∈ ks) ↔
          ∃ i ∈ p.2, ∃ ks, keysOf g0 i = some ks ∧ key ∈ ks := by
  obtain ⟨g0, g1, repl1, h0, h1, h2, _, _⟩ := pipelineTwo_ok h
  have wf0 := C05R.buildGraph_WF h0
  have hk := buildGraphFrom_keeps (mergeModels_WF wf0 h1) h2
  refine ⟨g0, g1, repl1, h0, h1, hk, fun p hp => ?_⟩
  have hreg := (mergeModels_new_registered wf0 h1 hp).1
  refine ⟨hk.idx _ hreg, hk.keysOf hreg, fun key => ?_⟩
  rw [hk.keysOf hreg]
  exact C05R.mergeModels_keys_union wf0 h1 hp key

/-- non-vacuity: round one of the run merges `1A`, `1B` into `1C`, which is registered in `g2T` with the keys of both -/
example : "1C" ∈ idxs g2T ∧ keysOf g2T "1C" = some ["id", "name", "v", "children"] := by
  obtain ⟨g0, g1, repl1, h0, h1, _, hp⟩ := pipelineTwo_first_results_take_part exT_run
  have e0 : g0 = g0T := by
    have := h0.symm.trans (show buildGraph cfgT pT.gen firstT = .ok g0T from exT_build)
    injection this
  subst e0
  have e1 := h1.symm.trans (exT_merge1 pT.gen.str)
  injection e1 with e1
  injection e1 with _ e1
  subst e1
  exact ⟨(hp ("1C", ["1A", "1B"]) (by simp)).1, rfl⟩

/-- **pipelineTwo_no_dangling**: after the second merge (and after `generate_names`) every pointer in any field
    dict points to a registered model, every pointer record's target and parent are registered models, and the
    indices are distinct (the `C05R.no_dangling` conclusion) -/
theorem pipelineTwo_no_dangling {cfg : GenCfg} {o : PipeOracles} {cmps : List Cmp}
    {first more : List (String × List Json)} {r : PipeResult} (h : pipelineTwo cfg o cmps first more = .ok r) :
    ∀ g ∈ [r.afterMerge, r.named],
      (∀ m ∈ g.models, ∀ i ∈ ptrsOfFields m.fields, i ∈ g.models.map (·.idx)) ∧
      (∀ p ∈ g.ptrs, p.target ∈ g.models.map (·.idx) ∧ ∀ q, p.parent = some q → q ∈ g.models.map (·.idx)) ∧
      (g.models.map (·.idx)).Nodup := by
  obtain ⟨_, wf3, wf4⟩ := pipelineTwo_WF h
  intro g hg
  simp only [List.mem_cons, List.mem_nil_iff, or_false] at hg
  rcases hg with rfl | rfl
  · exact ⟨wf3.fields, wf3.ptrs, wf3.nodup⟩
  · exact ⟨wf4.fields, wf4.ptrs, wf4.nodup⟩

/-- **pipelineTwo_no_stale**: every model replaced in EITHER round — a member `j` of a replacement entry of the
    second merge (e.g. a self-referencing merge result of round one) or of the first merge — is not registered at the
    end, and nothing refers to it: no field pointer, no pointer record target, no pointer record parent.  So a
    self-reference `1C → 1C` of a first-round result that is merged again has been retargeted. -/
theorem pipelineTwo_no_stale {cfg : GenCfg} {o : PipeOracles} {cmps : List Cmp}
    {first more : List (String × List Json)} {r : PipeResult} (h : pipelineTwo cfg o cmps first more = .ok r) :
    ∃ g0 g1 repl1, buildGraph cfg o.gen first = .ok g0 ∧ mergeModels cfg o.gen.str cmps g0 = .ok (g1, repl1) ∧
      ∀ p ∈ r.replaces ++ repl1, ∀ j ∈ p.2, ∀ g ∈ [r.afterMerge, r.named],
        j ∉ idxs g ∧ (∀ m ∈ g.models, j ∉ ptrsOfFields m.fields) ∧
        (∀ q ∈ g.ptrs, q.target ≠ j ∧ q.parent ≠ some j) := by
  obtain ⟨g0, g1, repl1, h0, h1, h2, h3, h4⟩ := pipelineTwo_ok h
  obtain ⟨wf2, wf3, wf4⟩ := pipelineTwo_WF h
  have wf0 := C05R.buildGraph_WF h0
  have wf1 := mergeModels_WF wf0 h1
  refine ⟨g0, g1, repl1, h0, h1, fun p hp j hj => ?_⟩
  have hret : Retired r.afterMerge j := by
    rcases List.mem_append.1 hp with hp | hp
    · exact mergeModels_member_retired wf2 h3 hp hj
    · exact ((mergeModels_member_retired wf0 h1 hp hj).buildGraphFrom wf1 h2).mergeModels wf2 h3
  have hret' : Retired r.named j := by
    obtain ⟨a, k, hk, e⟩ := hret
    exact ⟨by rw [RSound.generateNames_idxs h4]; exact a, k, by rw [(RSound.generateNames_spec h4).2.2]; exact hk, e⟩
  intro g hg
  simp only [List.mem_cons, List.mem_nil_iff, or_false] at hg
  rcases hg with rfl | rfl
  · exact ⟨hret.1, hret.not_referenced wf3⟩
  · exact ⟨hret'.1, hret'.not_referenced wf4⟩

/-- non-vacuity: in the run, `1C` referenced ITSELF after round one; it is a member of the second merge, so at the
    end nothing refers to `1C` (nor to `1A`, `1B`, `1D`, `1E`): the self-reference now targets the final model `1F`,
    in the field dict and in the pointer record -/
example : "1C" ∈ ptrsOfFields fC ∧
    (∀ j ∈ ["1A", "1B", "1C", "1D", "1E"], j ∉ idxs g3T ∧ (∀ m ∈ g3T.models, j ∉ ptrsOfFields m.fields) ∧
      ∀ q ∈ g3T.ptrs, q.target ≠ j ∧ q.parent ≠ some j) ∧
    ("children", Ty.list (.ptr "1F")) ∈ fF ∧ (⟨"1F", some "1F", some "children"⟩ : PtrRec) ∈ g3T.ptrs := by
  obtain ⟨g0, g1, repl1, h0, h1, hp⟩ := pipelineTwo_no_stale exT_run
  have e0 : g0 = g0T := by
    have := h0.symm.trans (show buildGraph cfgT pT.gen firstT = .ok g0T from exT_build)
    injection this
  subst e0
  have e1 := h1.symm.trans (exT_merge1 pT.gen.str)
  injection e1 with e1
  injection e1 with _ e1
  subst e1
  refine ⟨by simp [fC, ptrsOfFields, ptrsOf], ?_, by simp [fF], by simp [g3T]⟩
  intro j hj
  simp only [List.mem_cons, List.mem_nil_iff, or_false] at hj
  rcases hj with rfl | rfl | rfl | rfl | rfl
  · exact hp ("1C", ["1A", "1B"]) (by simp) _ (by simp) g3T (by simp)
  · exact hp ("1C", ["1A", "1B"]) (by simp) _ (by simp) g3T (by simp)
  · exact hp ("1F", ["1C", "1D", "1E"]) (by simp) _ (by simp) g3T (by simp)
  · exact hp ("1F", ["1C", "1D", "1E"]) (by simp) _ (by simp) g3T (by simp)
  · exact hp ("1F", ["1C", "1D", "1E"]) (by simp) _ (by simp) g3T (by simp)

/-! ## 4. C08 for the second merge: normal form, fixed point -/

/-- **pipelineTwo_nf**: after the second merge (and in the named registry) every field of every registered model
    is in normal form — all inputs, options, oracles, comparators -/
theorem pipelineTwo_nf {cfg : GenCfg} {o : PipeOracles} {cmps : List Cmp} {first more : List (String × List Json)}
    {r : PipeResult} (h : pipelineTwo cfg o cmps first more = .ok r) :
    ∀ g ∈ [r.afterMerge, r.named], ∀ m ∈ g.models, ∀ kv ∈ m.fields, nf kv.2 = true := by
  obtain ⟨g0, g1, repl1, h0, h1, h2, h3, h4⟩ := pipelineTwo_ok h
  have o1 := (C08M.mergeModels_nf (C08M.buildGraph_out h0) h1).2
  have hnf := (C08M.mergeModels_nf (buildGraphFrom_allOut o1 h2) h3).1
  intro g hg
  simp only [List.mem_cons, List.mem_nil_iff, or_false] at hg
  rcases hg with rfl | rfl
  · exact hnf
  · intro m' hm' kv hkv
    obtain ⟨m, hm, _, e⟩ := generateNames_fields h4 m' hm'
    exact hnf m hm kv (e ▸ hkv)

/-- every field after the second merge is in the fixed-point class `stable` of `C08I` -/
theorem pipelineTwo_stable_class {cfg : GenCfg} {o : PipeOracles} {cmps : List Cmp}
    {first more : List (String × List Json)} {r : PipeResult} (h : pipelineTwo cfg o cmps first more = .ok r) :
    C08I.AllStable cfg r.afterMerge ∧ C08I.AllStable cfg r.named := by
  obtain ⟨g0, g1, repl1, h0, h1, h2, h3, h4⟩ := pipelineTwo_ok h
  have hs := mergeRounds_stable (inv_empty cfg) (by simp) (pipelineTwo_rounds h)
  refine ⟨hs, fun m' hm' kv hkv => ?_⟩
  obtain ⟨m, hm, _, e⟩ := generateNames_fields h4 m' hm'
  exact hs m hm kv (e ▸ hkv)

/-- **pipelineTwo_stable**: every field type of every model after the second merge (and in the named registry) is a
    FIXED POINT of `optimize_type`: for every comparison environment and every fuel `≥ 4 * size`, a further pass
    returns it unchanged and does not fail -/
theorem pipelineTwo_stable {cfg : GenCfg} {o : PipeOracles} {cmps : List Cmp}
    {first more : List (String × List Json)} {r : PipeResult} (h : pipelineTwo cfg o cmps first more = .ok r) :
    ∀ g ∈ [r.afterMerge, r.named], ∀ m ∈ g.models, ∀ kv ∈ m.fields, ∀ (e : EqEnv) (fuel : Nat),
      4 * kv.2.size ≤ fuel → optimize cfg e fuel kv.2 = .ok kv.2 := by
  obtain ⟨h1, h2⟩ := pipelineTwo_stable_class h
  intro g hg m hm kv hkv e fuel hf
  simp only [List.mem_cons, List.mem_nil_iff, or_false] at hg
  rcases hg with rfl | rfl
  · exact C08I.optimize_stable_id cfg e kv.2 (h1 m hm kv hkv) fuel hf
  · exact C08I.optimize_stable_id cfg e kv.2 (h2 m hm kv hkv) fuel hf

/-- `generator.optimize_type(model_meta)` — the very call a THIRD `merge_models` would make — returns every model's
    field dict unchanged -/
theorem pipelineTwo_model_stable {cfg : GenCfg} {o : PipeOracles} {cmps : List Cmp}
    {first more : List (String × List Json)} {r : PipeResult} (h : pipelineTwo cfg o cmps first more = .ok r)
    (e : EqEnv) : ∀ m ∈ r.afterMerge.models,
      optimize cfg e (Ty.fuelFor (.obj m.fields)) (.obj m.fields) = .ok (.obj m.fields) :=
  fun m hm => optimize_obj_stable_id e ((pipelineTwo_stable_class h).1 m hm)

/-- non-vacuity: the self-pointer field of the final model of the run is a normal form and a fixed point -/
example (e : EqEnv) : nf (Ty.list (.ptr "1F")) = true ∧
    optimize cfgT e 8 (Ty.list (.ptr "1F")) = .ok (Ty.list (.ptr "1F")) ∧
    optimize cfgT e (Ty.fuelFor (.obj fF)) (.obj fF) = .ok (.obj fF) := by
  have hm : mF ∈ g3T.models := by simp [g3T, mF]
  have hkv : ("children", Ty.list (.ptr "1F")) ∈ mF.fields := by simp [mF, fF]
  exact ⟨pipelineTwo_nf exT_run g3T (by simp) mF hm _ hkv,
    pipelineTwo_stable exT_run g3T (by simp) mF hm _ hkv e 8 (by simp [Ty.size]),
    pipelineTwo_model_stable exT_run e mF hm⟩

/-! ## 5. C01 for two merges -/

/-- **pipelineTwo_retarget_sound**: under the hypotheses of `C01R.registry_sound` for both sample families — what
    inhabited a type in the first registry `g0` inhabits, in the final registry, the type retargeted by BOTH index
    maps (`C01R.retarget_sound_general` twice: the first round's models may have been merged and retargeted
    twice); what inhabited a type in `r.afterProcess` the type retargeted by the second map -/
theorem pipelineTwo_retarget_sound {cfg : GenCfg} {o : PipeOracles} {cmps : List Cmp}
    {first more : List (String × List Json)} {r : PipeResult}
    (hwf1 : ∀ inp ∈ first, ∀ s ∈ inp.2, Json.WF s) (hwf2 : ∀ inp ∈ more, ∀ s ∈ inp.2, Json.WF s)
    (hnames : ∀ k ∈ cfg.reg.types, wfSerName k = true)
    (hrep : ReplacesSound o.gen.accepts cfg.reg) (hrank : ReplacesRanked cfg.reg)
    (h : pipelineTwo cfg o cmps first more = .ok r) :
    ∃ g0 g1 repl1, buildGraph cfg o.gen first = .ok g0 ∧ mergeModels cfg o.gen.str cmps g0 = .ok (g1, repl1) ∧
      (∀ t v, Inh o.gen.accepts g0.look t v →
        Inh o.gen.accepts r.afterMerge.look (substTy (σFold r.replaces ∘ σFold repl1) t) v) ∧
      (∀ t v, Inh o.gen.accepts r.afterProcess.look t v →
        Inh o.gen.accepts r.afterMerge.look (substTy (σFold r.replaces) t) v) ∧
      GraphGood (KOf cfg) r.afterMerge ∧ r.named.look = r.afterMerge.look := by
  obtain ⟨g0, g1, repl1, h0, h1, h2, h3, h4⟩ := pipelineTwo_ok h
  obtain ⟨_, gg, a, b, _, _⟩ := twoMerges_sound hwf1 hwf2 hnames hrep hrank h0 h1 h2 h3
  exact ⟨g0, g1, repl1, h0, h1, a, b, gg, RSound.generateNames_look h4⟩

/-- **pipelineTwo_sound (C01 for two merges).**  Under the hypotheses of `C01R.registry_sound` for both sample
    families: every sample of `first` and every sample of `more` is accepted by the final registry — after the second
    merge and in the named registry — at a root model of its input. -/
theorem pipelineTwo_sound {cfg : GenCfg} {o : PipeOracles} {cmps : List Cmp}
    {first more : List (String × List Json)} {r : PipeResult}
    (hwf1 : ∀ inp ∈ first, ∀ s ∈ inp.2, Json.WF s) (hwf2 : ∀ inp ∈ more, ∀ s ∈ inp.2, Json.WF s)
    (hnames : ∀ k ∈ cfg.reg.types, wfSerName k = true)
    (hrep : ReplacesSound o.gen.accepts cfg.reg) (hrank : ReplacesRanked cfg.reg)
    (h : pipelineTwo cfg o cmps first more = .ok r) :
    ∀ inp ∈ first ++ more, ∃ root, ∀ s ∈ inp.2,
      Inh o.gen.accepts r.afterMerge.look (.ptr root) s ∧ Inh o.gen.accepts r.named.look (.ptr root) s := by
  obtain ⟨g0, g1, repl1, h0, h1, h2, h3, h4⟩ := pipelineTwo_ok h
  obtain ⟨_, _, _, _, r1, r2⟩ := twoMerges_sound hwf1 hwf2 hnames hrep hrank h0 h1 h2 h3
  have hlook := RSound.generateNames_look h4
  intro inp hinp
  rcases List.mem_append.1 hinp with hinp | hinp
  · obtain ⟨root, _, hroot⟩ := r1 inp hinp
    exact ⟨_, fun s hs => ⟨hroot s hs, by rw [hlook]; exact hroot s hs⟩⟩
  · obtain ⟨root, _, hroot⟩ := r2 inp hinp
    exact ⟨_, fun s hs => ⟨hroot s hs, by rw [hlook]; exact hroot s hs⟩⟩

theorem exT_wf1 : ∀ inp ∈ firstT, ∀ s ∈ inp.2, Json.WF s := by
  intro inp hinp s hs
  simp [firstT] at hinp; subst hinp; simp at hs; subst hs
  simp [nodeT, childT, Json.WF, Json.WFKvs, Json.WFList]

theorem exT_wf2 : ∀ inp ∈ moreT, ∀ s ∈ inp.2, Json.WF s := by
  intro inp hinp s hs
  simp [moreT] at hinp; subst hinp; simp at hs; subst hs
  simp [itemT, childT, Json.WF, Json.WFKvs, Json.WFList]

/-- non-vacuity: all hypotheses of `pipelineTwo_sound` hold for the run, hence the recursive document `Node`
    (registered as `1A`/`1B`, merged into `1C`, merged again into `1F`) and the document `Item` are both accepted by
    the single final model `1F`, whose `children` are again `1F` objects -/
example : Inh oT.accepts g3T.look (.ptr "1F") nodeT ∧ Inh oT.accepts g3T.look (.ptr "1F") itemT := by
  have hs := pipelineTwo_sound (cfg := cfgT) (o := pT) exT_wf1 exT_wf2 (by simp [cfgT])
    (by intro a b h; simp [cfgT] at h) ⟨fun _ => 0, by simp [cfgT]⟩ exT_run
  have root1F : ∀ root s, Inh oT.accepts g3T.look (.ptr root) s → root = "1F" := by
    intro root s h
    cases h with
    | ptr hL _ _ _ =>
      have : root ∈ idxs g3T := look_isSome_iff.1 (by rw [hL]; rfl)
      simpa [idxs, g3T] using this
  obtain ⟨r1, h1⟩ := hs ("Node", [nodeT]) (by simp [firstT, moreT])
  obtain ⟨r2, h2⟩ := hs ("Item", [itemT]) (by simp [firstT, moreT])
  have a := (h1 nodeT (by simp)).1
  have b := (h2 itemT (by simp)).1
  have e1 := root1F _ _ a
  have e2 := root1F _ _ b
  subst e1; subst e2
  exact ⟨a, b⟩

/-! ## 6. any number of rounds -/

/-- `pipelineTwo` is two rounds from the empty registry, followed by `generate_names` -/
theorem pipelineTwo_rounds {cfg : GenCfg} {o : PipeOracles} {cmps : List Cmp} {first more : List (String × List Json)}
    {r : PipeResult} (h : pipelineTwo cfg o cmps first more = .ok r) :
    mergeRounds cfg o.gen cmps {} [first, more] = .ok r.afterMerge := TwoMerges.pipelineTwo_rounds h

/-- **one round restores everything**: from a well-formed registry whose fields are `out` with sorted literal sets
    (`C08M.AllOut`, `C08I.AllK` — true of the empty registry and of the result of any round), "more data, then
    `merge_models`" gives such a registry again, whose fields are moreover all `stable`; and the merge of THIS round
    follows the similarity graph of the registry it starts from -/
theorem round_spec {cfg : GenCfg} {o : GenOracles} {cmps : List Cmp} {g g' g'' : Graph}
    {inputs : List (String × List Json)} {repl : List (String × List String)}
    (wf : WF g) (hout : C08M.AllOut cfg g) (hk : C08I.AllK cfg g)
    (h1 : buildGraphFrom cfg o g inputs = .ok g') (h2 : mergeModels cfg o.str cmps g' = .ok (g'', repl)) :
    (WF g' ∧ Keeps g g') ∧ (∀ i j, Merged repl i j ↔ Linked cmps g' i j) ∧
    (WF g'' ∧ C08M.AllOut cfg g'' ∧ C08I.AllK cfg g'') ∧ C08I.AllStable cfg g'' ∧
    ∀ p ∈ repl, ∀ j ∈ p.2, Retired g'' j := by
  obtain ⟨i', i'', s''⟩ := round_inv ⟨wf, hout, hk⟩ h1 h2
  exact ⟨⟨i'.wf, buildGraphFrom_keeps wf h1⟩, fun i j => C07R.merged_iff_linked i'.wf h2 i j,
    ⟨i''.wf, i''.out, i''.k⟩, s'', fun p hp j hj => mergeModels_member_retired i'.wf h2 hp hj⟩

/-- **mergeRounds_spec**: after ANY number of rounds from a registry with the invariants (e.g. the empty one) the
    registry is well-formed (no dangling reference), every field is `out` with sorted literal sets, a model replaced
    before stays unregistered and unreferenced, and — after at least one round — every field is in normal form and a
    fixed point of `optimize_type` -/
theorem mergeRounds_spec {cfg : GenCfg} {o : GenOracles} {cmps : List Cmp}
    {rs : List (List (String × List Json))} {g gF : Graph}
    (wf : WF g) (hout : C08M.AllOut cfg g) (hk : C08I.AllK cfg g) (h : mergeRounds cfg o cmps g rs = .ok gF) :
    (WF gF ∧ C08M.AllOut cfg gF ∧ C08I.AllK cfg gF) ∧
    (∀ j, Retired g j → Retired gF j ∧ (∀ m ∈ gF.models, j ∉ ptrsOfFields m.fields) ∧
      ∀ q ∈ gF.ptrs, q.target ≠ j ∧ q.parent ≠ some j) ∧
    (rs ≠ [] → ∀ m ∈ gF.models, ∀ kv ∈ m.fields, nf kv.2 = true ∧
      ∀ (e : EqEnv) (fuel : Nat), 4 * kv.2.size ≤ fuel → optimize cfg e fuel kv.2 = .ok kv.2) := by
  have hi := mergeRounds_inv rs g gF ⟨wf, hout, hk⟩ h
  refine ⟨⟨hi.wf, hi.out, hi.k⟩, fun j hj => ?_, fun hne m hm kv hkv => ?_⟩
  · have := mergeRounds_retired rs g gF wf hj h
    exact ⟨this, this.not_referenced hi.wf⟩
  · have hs := mergeRounds_stable ⟨wf, hout, hk⟩ hne h m hm kv hkv
    exact ⟨C08I.stable_nf cfg kv.2 hs, fun e fuel hf => C08I.optimize_stable_id cfg e kv.2 hs fuel hf⟩

/-- **mergeRounds_sound (C01 over any number of rounds).**  From a well-formed registry of registry-stage field
    dicts (e.g. the empty one): every inhabitation fact about the start registry holds afterwards for the type
    retargeted by ONE index map, and every input of every round has a root model accepting all its samples. -/
theorem mergeRounds_sound {cfg : GenCfg} {o : GenOracles} {cmps : List Cmp}
    {rs : List (List (String × List Json))} {g gF : Graph}
    (hwf : ∀ r ∈ rs, ∀ inp ∈ r, ∀ s ∈ inp.2, Json.WF s)
    (hnames : ∀ k ∈ cfg.reg.types, wfSerName k = true)
    (hrep : ReplacesSound o.accepts cfg.reg) (hrank : ReplacesRanked cfg.reg)
    (wf : WF g) (gg : GraphGood (KOf cfg) g) (h : mergeRounds cfg o cmps g rs = .ok gF) :
    WF gF ∧ GraphGood (KOf cfg) gF ∧
    (∃ σ : String → String, ∀ t v, Inh o.accepts g.look t v → Inh o.accepts gF.look (substTy σ t) v) ∧
    ∀ r ∈ rs, ∀ inp ∈ r, ∃ root, ∀ s ∈ inp.2, Inh o.accepts gF.look (.ptr root) s :=
  TwoMerges.mergeRounds_sound hnames hrep hrank rs g gF hwf wf gg h

/-- non-vacuity: the run is two rounds from the empty registry, which satisfies all the hypotheses -/
example : mergeRounds cfgT oT cmpsT {} [firstT, moreT] = .ok g3T ∧ WF ({} : Graph) ∧ C08M.AllOut cfgT {} ∧
    C08I.AllK cfgT {} ∧ GraphGood (KOf cfgT) {} :=
  ⟨pipelineTwo_rounds exT_run, wf_empty, (inv_empty cfgT).out, (inv_empty cfgT).k, by intro m hm; simp at hm⟩

/-! ## 7. the concrete run (`J2M/Proofs/TwoMergesExample.lean`, by evaluation)

first = `Node: {"id":1,"name":"n","v":2,"children":[{"id":2,"name":"m","v":3,"children":[]}]}`,
more  = `Item:` the same object with one more key `"extra": 0`; default merge policy
(`ModelFieldsPercentMatch(.7)`, `ModelFieldsNumberMatch(10)`). -/

/-- round one: `1A = Node`, `1B` = its child; merged into ONE model `1C` whose `children` point to `1C` itself -/
example : buildGraph cfgT oT firstT = .ok g0T ∧
    mergeModels cfgT oT.str cmpsT g0T = .ok (g1T, [("1C", ["1A", "1B"])]) ∧
    g1T.models.map (fun m => (m.idx, m.fields)) =
      [("1C", [("id", .int), ("name", .lit false ["m", "n"]), ("v", .int), ("children", .list (.ptr "1C"))])] ∧
    g1T.ptrs = [⟨"1C", none, none⟩, ⟨"1C", some "1C", some "children"⟩] :=
  ⟨exT_build, exT_merge1 _, rfl, rfl⟩

/-- round two: `Item` is registered as `1D` (five keys) and `1E` next to the self-referencing `1C`; the second merge
    joins all three (`1D ~ 1C`: 4 of 5 keys) into `1F`, and the self-pointer of `1C` targets `1F` -/
theorem example_run :
    pipelineTwo cfgT pT cmpsT firstT moreT = .ok ⟨g2T, g3T, [("1F", ["1C", "1D", "1E"])], g3T⟩ ∧
    g2T.models.map (·.idx) = ["1C", "1D", "1E"] ∧
    g3T.models.map (fun m => (m.idx, m.name, m.fields)) =
      [("1F", some "Item_Node", [("id", .int), ("name", .lit false ["m", "n"]), ("v", .int),
        ("children", .list (.ptr "1F")), ("extra", .opt .int)])] ∧
    g3T.ptrs = [⟨"1F", none, none⟩, ⟨"1F", some "1F", some "children"⟩, ⟨"1F", none, none⟩,
      ⟨"1F", some "1F", some "children"⟩] :=
  ⟨exT_run, rfl, rfl, rfl⟩

end J2M.C05T

#print axioms J2M.C05T.buildGraph_eq_from
#print axioms J2M.C05T.buildGraphFrom_append
#print axioms J2M.C05T.buildGraphFrom_WF
#print axioms J2M.C05T.mergeModels_WF
#print axioms J2M.C05T.buildGraphFrom_keeps
#print axioms J2M.C05T.pipelineTwo_stages
#print axioms J2M.C05T.pipelineTwo_WF
#print axioms J2M.C05T.pipelineTwo_merge_iff
#print axioms J2M.C05T.pipelineTwo_merge_iff_pos
#print axioms J2M.C05T.pipelineTwo_same_class_iff
#print axioms J2M.C05T.pipelineTwo_first_results_take_part
#print axioms J2M.C05T.pipelineTwo_no_dangling
#print axioms J2M.C05T.pipelineTwo_no_stale
#print axioms J2M.C05T.pipelineTwo_nf
#print axioms J2M.C05T.pipelineTwo_stable_class
#print axioms J2M.C05T.pipelineTwo_stable
#print axioms J2M.C05T.pipelineTwo_model_stable
#print axioms J2M.C05T.pipelineTwo_retarget_sound
#print axioms J2M.C05T.pipelineTwo_sound
#print axioms J2M.C05T.pipelineTwo_rounds
#print axioms J2M.C05T.round_spec
#print axioms J2M.C05T.mergeRounds_spec
#print axioms J2M.C05T.mergeRounds_sound
#print axioms J2M.C05T.example_run
